package suites

// C17 — PING is answered, nick collisions are retried.
//
//	pingnick.ping     one PING (0-3 parameters, hostile last parameter) delivered over the wire
//	                  of a MockConnect'ed client when the line carries it unchanged, otherwise
//	                  through Client.RunHandlers; the observation is what the peer read.
//	pingnick.flood    the flood limiter is saturated (hook), a PRIVMSG is sleeping in
//	                  Client.Send, then a PING arrives over the wire: the PONG must reach the
//	                  peer in front of the PRIVMSG and must leave the limiter untouched.
//	pingnick.bg       a PING that arrives while a background handler is busy (AddBg / AddTmp
//	                  blocked on a gate the harness holds; the built-in 2 s handleConnect after
//	                  001) is answered before that handler returns.
//	pingnick.seq      event sequences run synchronously through Client.RunHandlers (volume,
//	                  hostile parameters); the limiter is primed before every event so that the
//	                  route of the answer (Client.write / Client.Send) is observable.
//	pingnick.collide  the same case format over the wire: every event is a line written by
//	                  the peer, a PING/PONG exchange delimits what the client wrote for it.
//	pingnick.edge     as pingnick.seq, half of the cases with tracking disabled, hostile
//	                  parameters and non-ASCII nicknames throughout (the two sequences the
//	                  handler got wrong before the C17 fixes).
//
// A sequence case is: nick, callback kind ("" none, "c" constant, "a" append, "p" prepend),
// callback argument, flags ("T" = tracking disabled; "M" = the application has a foreground
// ALL_EVENTS handler that rewrites its own event's Params, Source and Tags in place, which
// Event.Copy's contract allows; "G" = Config.GlobalFormat, with nicknames and callback values
// that contain {b} {i} {red} ... groups; neither may change what the client writes), then one argument per event: fields
// separated by LF: command, source ("" none, "=" + name), parameters.  "$R" as a source name
// or parameter stands for the nickname the client asked for most recently, "$N" for its
// current nickname; the pseudo command "!NICK" is the application calling Cmd.Nick.

import (
	"fmt"
	"math/rand"
	"sort"
	"strings"
	"sync"
	"sync/atomic"
	"time"
	"unicode/utf8"

	"github.com/lrstanley/girc"

	"gircverif/drive"
)

// ------------------------------------------------------------------ helpers

// rfcParse reads a client-to-server line the way a server does (RFC 1459 2.3.1, no prefix):
// command, middle parameters, optional trailing parameter after " :".
func rfcParse(line string) (cmd string, params []string) {
	line = strings.TrimRight(line, "\r\n")
	i := strings.IndexByte(line, ' ')
	if i < 0 {
		return line, nil
	}
	cmd, rest := line[:i], line[i+1:]
	for {
		if strings.HasPrefix(rest, ":") {
			return cmd, append(params, rest[1:])
		}
		j := strings.IndexByte(rest, ' ')
		if j < 0 {
			if rest != "" {
				params = append(params, rest)
			}
			return cmd, params
		}
		if j > 0 {
			params = append(params, rest[:j])
		}
		rest = rest[j+1:]
	}
}

// pnWireValid: a parameter the serialiser passes through unchanged (Event.Bytes drops CR, LF
// and every byte that is not part of a valid UTF-8 sequence).
func pnWireValid(s string) bool {
	return utf8.ValidString(s) && !strings.ContainsAny(s, "\r\n")
}

func pnTrim(lines []string) []string {
	out := make([]string, len(lines))
	for i, l := range lines {
		out[i] = strings.TrimSuffix(strings.TrimSuffix(l, "\n"), "\r")
	}
	return out
}

// pnLine renders a server-to-client line; ok is false when the line would not carry the
// event unchanged (judged by the implementation's own parser).
func pnLine(cmd, src string, hasSrc bool, params []string) (string, bool) {
	var sb strings.Builder
	if hasSrc {
		sb.WriteString(":" + src + " ")
	}
	sb.WriteString(cmd)
	for i, p := range params {
		if i == len(params)-1 && (p == "" || strings.Contains(p, " ") || strings.HasPrefix(p, ":")) {
			sb.WriteString(" :" + p)
		} else {
			sb.WriteString(" " + p)
		}
	}
	line := sb.String()
	if strings.ContainsAny(line, "\n") || strings.HasSuffix(line, "\r") {
		return line, false
	}
	e := girc.ParseEvent(line)
	if e == nil || e.Command != cmd || len(e.Params) != len(params) || (e.Source != nil) != hasSrc {
		return line, false
	}
	if hasSrc && e.Source.Name != src {
		return line, false
	}
	for i := range params {
		if e.Params[i] != params[i] {
			return line, false
		}
	}
	return line, true
}

type pnSession struct {
	*drive.Session
	general int32 // CLIENT_GENERAL_UPDATED notifications seen
}

func pnStart(cfg girc.Config, noTracking bool) *pnSession {
	s := &pnSession{}
	s.Session = drive.Start(cfg)
	s.C.Handlers.Add(girc.UPDATE_GENERAL, func(*girc.Client, girc.Event) { atomic.AddInt32(&s.general, 1) })
	if noTracking {
		s.C.DisableTracking()
	}
	return s
}

func (s *pnSession) waitGeneral(above int32) bool {
	deadline := time.Now().Add(20 * time.Second)
	for atomic.LoadInt32(&s.general) <= above {
		if time.Now().After(deadline) {
			return false
		}
		time.Sleep(200 * time.Microsecond)
	}
	return true
}

// waitSentinel waits until a line for which pred holds has been written after mark; it
// returns the lines in front of it (CRLF removed), client-originated PINGs dropped.
func (s *pnSession) waitSentinel(mark int, pred func(string) bool, d time.Duration) ([]string, bool) {
	deadline := time.Now().Add(d)
	for {
		lines := pnTrim(s.Since(mark))
		for i, l := range lines {
			if pred(l) {
				var outs []string
				for _, x := range lines[:i] {
					if !strings.HasPrefix(x, "PING ") {
						outs = append(outs, x)
					}
				}
				return outs, true
			}
		}
		if time.Now().After(deadline) {
			return nil, false
		}
		time.Sleep(200 * time.Microsecond)
	}
}

func (s *pnSession) nick() (n string, panicked bool) {
	defer func() {
		if r := recover(); r != nil {
			panicked = true
		}
	}()
	return s.C.GetNick(), false
}

// opt renders Client.GetServerOption(key): "-" absent, "=" + hex, "!" when it panics
// (tracking disabled).
func (s *pnSession) opt(key string) (out string) {
	defer func() {
		if r := recover(); r != nil {
			out = "!"
		}
	}()
	v, ok := s.C.GetServerOption(key)
	if !ok {
		return "-"
	}
	return "=" + Hex(v)
}

// ------------------------------------------------------------------ PING

func pnDeliverPing(s *pnSession, params []string, tag string) (outs []string, wire bool, ok bool) {
	mark := s.Mark()
	line, transportable := pnLine("PING", "", false, params)
	if transportable {
		if err := s.Send(line); err != nil {
			return nil, true, false
		}
		sent := "~s~" + tag
		if err := s.Send("PING :" + sent); err != nil {
			return nil, true, false
		}
		outs, ok = s.waitSentinel(mark, func(l string) bool { return l == "PONG "+sent || l == "PONG :"+sent }, 30*time.Second)
		return outs, true, ok
	}
	s.C.RunHandlers(&girc.Event{Command: girc.PING, Params: params})
	sent := "~c~" + tag
	s.C.Cmd.Ping(sent)
	outs, ok = s.waitSentinel(mark, func(l string) bool { return l == "PING "+sent }, 30*time.Second)
	return outs, false, ok
}

func pnLast(params []string) string {
	if len(params) == 0 {
		return ""
	}
	return params[len(params)-1]
}

// pnPongOracle: exactly one line, a PONG whose only parameter is the token.
func pnPongOracle(outs []string, params []string) string {
	tok := pnLast(params)
	switch {
	case len(outs) == 0:
		return "pong-missing: PING " + fmt.Sprintf("%q", params) + " was not answered"
	case len(outs) > 1:
		return fmt.Sprintf("pong-multiple: PING %q answered by %q", params, outs)
	}
	if !pnWireValid(tok) {
		return "" // the serialiser alters such a token; outside the stated hypothesis
	}
	cmd, ps := rfcParse(outs[0])
	if cmd != "PONG" || len(ps) != 1 || ps[0] != tok {
		return fmt.Sprintf("pong-token: PING %q answered by %q", params, outs[0])
	}
	return ""
}

func pnTokenSig(tok string) string {
	var f []string
	if tok == "" {
		f = append(f, "empty")
	}
	if strings.Contains(tok, " ") {
		f = append(f, "space")
	}
	if strings.HasPrefix(tok, ":") {
		f = append(f, "colon")
	}
	if len(tok) > 200 {
		f = append(f, "long")
	}
	if !utf8.ValidString(tok) {
		f = append(f, "badutf8")
	} else if len(tok) != utf8.RuneCountInString(tok) {
		f = append(f, "utf8")
	}
	if strings.ContainsAny(tok, "\r\n") {
		f = append(f, "crlf")
	}
	if len(f) == 0 {
		return "plain"
	}
	return strings.Join(f, "+")
}

func runPNPing(c Case) Result {
	params := []string(c)
	cfg := drive.BaseConfig()
	s := pnStart(cfg, false)
	defer s.Stop()
	outs, wire, ok := pnDeliverPing(s, params, "0")
	if !ok {
		return Result{Obs: "?stall", Oracle: "pong-missing: no sentinel within 30s", Sig: "stall"}
	}
	res := Result{Obs: HexList(outs), Oracle: pnPongOracle(outs, params)}
	res.Sig = fmt.Sprintf("p%d/%s", len(params), pnTokenSig(pnLast(params)))
	if wire {
		res.Sig += "/wire"
	} else {
		res.Sig += "/sync"
	}
	if s.PanicCount() > 0 && res.Oracle == "" {
		res.Oracle = "pong-panic: handler panicked"
	}
	return res
}

func runPNFlood(c Case) Result {
	params := []string(c)
	line, transportable := pnLine("PING", "", false, params)
	if !transportable {
		return Result{Obs: "?untransportable", Sig: "trivial"}
	}
	cfg := drive.BaseConfig()
	cfg.AllowFlood = false
	s := pnStart(cfg, false)
	defer s.Stop()
	const saturated = 30 * time.Second
	if !s.C.VerifPNPrimeLimiter(saturated, 0) {
		return Result{Obs: "?disconnected", Oracle: "pong-missing: not connected", Sig: "stall"}
	}
	mark := s.Mark()
	go s.C.Cmd.Message("#flood", strings.Repeat("x", 220)) // held back >= 3 s by the limiter
	var afterMsg time.Duration
	deadline := time.Now().Add(20 * time.Second)
	for {
		wd, _ := s.C.VerifPNWriteDelay()
		if wd != saturated {
			afterMsg = wd
			break
		}
		if time.Now().After(deadline) {
			return Result{Obs: "?stall", Oracle: "pong-missing: Send did not reach the limiter", Sig: "stall"}
		}
		time.Sleep(200 * time.Microsecond)
	}
	if err := s.Send(line); err != nil {
		return Result{Obs: "?stall", Oracle: "pong-missing: peer write failed", Sig: "stall"}
	}
	first := ""
	var outs []string
	deadline = time.Now().Add(20 * time.Second)
	for first == "" && time.Now().Before(deadline) {
		for _, l := range pnTrim(s.Since(mark)) {
			if strings.HasPrefix(l, "PONG") {
				first = "pong"
				outs = []string{l}
				break
			}
			if strings.HasPrefix(l, "PRIVMSG #flood") {
				first = "privmsg"
				break
			}
		}
		if wd, _ := s.C.VerifPNWriteDelay(); first == "" && wd != afterMsg {
			first = "limited" // something consulted the limiter after the PING was sent: no need to wait
		}
		time.Sleep(200 * time.Microsecond)
	}
	wd, _ := s.C.VerifPNWriteDelay()
	res := Result{Sig: "flood/" + pnTokenSig(pnLast(params))}
	switch first {
	case "pong":
		res.Obs = HexList(outs)
		res.Oracle = pnPongOracle(outs, params)
		if res.Oracle == "" && wd != afterMsg {
			res.Oracle = fmt.Sprintf("pong-limited: the PONG moved the flood limiter (%v -> %v)", afterMsg, wd)
		}
	case "limited":
		res.Obs = "?limited"
		res.Oracle = fmt.Sprintf("pong-limited: the answer to the PING went through the flood limiter (%v -> %v)", afterMsg, wd)
	case "privmsg":
		res.Obs = "?late"
		res.Oracle = "pong-behind-limiter: a rate-limited PRIVMSG (held >= 3s) reached the peer before the PONG"
	default:
		res.Obs = "?stall"
		res.Oracle = "pong-missing: neither PONG nor PRIVMSG within 20s"
	}
	return res
}

// ------------------------------------------------------------------ background handlers

// runPNBackground: a PING that arrives while a background handler is busy is answered all the
// same.  Case: variant, then the PING's parameters.
//
//	g  a Handlers.AddBg handler on PRIVMSG blocks on a gate the harness holds; the PONG must
//	   reach the peer while the gate is still closed (deadline 5 s, then the gate is opened)
//	t  the same with a Handlers.AddTmp handler (always run in the background)
//	w  the built-in background handler of 001 (handleConnect sleeps 2 s): a PING sent right
//	   after 001 must be answered before a marker the harness writes 1.5 s later
//
// Every wait is bounded; a case costs milliseconds when the property holds and at most ~6 s
// when it does not.
func runPNBackground(c Case) Result {
	if len(c) < 1 {
		return Result{Obs: "?short-case", Sig: "trivial"}
	}
	variant, params := c[0], []string(c[1:])
	line, transportable := pnLine("PING", "", false, params)
	if !transportable || (variant != "g" && variant != "t" && variant != "w") {
		return Result{Obs: "?untransportable", Sig: "trivial"}
	}
	s := pnStart(drive.BaseConfig(), false)
	gate := make(chan struct{})
	var once sync.Once
	open := func() { once.Do(func() { close(gate) }) }
	defer s.Stop()
	defer open() // (runs before Stop: a handler still blocked must not hold the shutdown up)
	var started int32
	block := func() {
		atomic.AddInt32(&started, 1)
		select {
		case <-gate:
		case <-time.After(8 * time.Second): // never rely on the harness alone to unblock
		}
	}
	res := Result{Sig: "bg-" + variant + "/" + pnTokenSig(pnLast(params))}
	deadline := 5 * time.Second
	switch variant {
	case "g":
		s.C.Handlers.AddBg(girc.PRIVMSG, func(*girc.Client, girc.Event) { block() })
	case "t":
		s.C.Handlers.AddTmp(girc.PRIVMSG, 0, func(*girc.Client, girc.Event) bool { block(); return true })
	}
	mark := s.Mark()
	if variant == "w" {
		deadline = 1500 * time.Millisecond
		genBefore := atomic.LoadInt32(&s.general)
		if err := s.Send(":irc.test 001 me :Welcome to the test network"); err != nil || !s.waitGeneralFor(genBefore, 5*time.Second) {
			return Result{Obs: "?stall", Oracle: "stall: 001 was not handled within 5s", Sig: "stall"}
		}
	} else {
		if err := s.Send(":bob!b@h PRIVMSG me :go"); err != nil {
			return Result{Obs: "?stall", Oracle: "stall: peer write failed", Sig: "stall"}
		}
		for t0 := time.Now(); atomic.LoadInt32(&started) == 0; time.Sleep(200 * time.Microsecond) {
			if time.Since(t0) > 5*time.Second {
				return Result{Obs: "?stall", Oracle: "stall: the background handler did not start within 5s", Sig: "stall"}
			}
		}
	}
	if err := s.Send(line); err != nil {
		return Result{Obs: "?stall", Oracle: "stall: peer write failed", Sig: "stall"}
	}
	var outs []string
	for t0 := time.Now(); len(outs) == 0 && time.Since(t0) < deadline; time.Sleep(200 * time.Microsecond) {
		for _, l := range pnTrim(s.Since(mark)) {
			if strings.HasPrefix(l, "PONG") {
				outs = append(outs, l)
			}
		}
	}
	if len(outs) == 0 {
		// the marker: from here on a PONG is late. (Written by the client itself through
		// Client.write, which does not depend on the dispatcher.)
		s.C.Cmd.Ping("~late~")
		open()
		res.Obs = "?delayed"
		what := "a background handler (Handlers.AddBg) was still running"
		switch variant {
		case "t":
			what = "a temporary handler (Handlers.AddTmp) was still running"
		case "w":
			what = "handleConnect (001) was still sleeping in the background"
		}
		res.Oracle = fmt.Sprintf("pong-delayed-by-background-handler: PING %q was not answered within %v while %s", params, deadline, what)
		return res
	}
	stillBlocked := variant == "w" || atomic.LoadInt32(&started) > 0
	open()
	res.Obs = HexList(outs)
	res.Oracle = pnPongOracle(outs, params)
	if res.Oracle == "" && !stillBlocked {
		res.Oracle = "stall: the background handler was not running when the PONG arrived"
	}
	return res
}

func (s *pnSession) waitGeneralFor(above int32, d time.Duration) bool {
	deadline := time.Now().Add(d)
	for atomic.LoadInt32(&s.general) <= above {
		if time.Now().After(deadline) {
			return false
		}
		time.Sleep(200 * time.Microsecond)
	}
	return true
}

// ------------------------------------------------------------------ sequences

type pnEvent struct {
	cmd    string
	hasSrc bool
	src    string
	params []string
}

func pnDecodeEvent(a, req, cur string) pnEvent {
	sub := func(f string) string {
		switch f {
		case "$R":
			return req
		case "$N":
			return cur
		}
		return f
	}
	f := strings.Split(a, "\n")
	ev := pnEvent{cmd: f[0]}
	if len(f) >= 2 {
		if strings.HasPrefix(f[1], "=") {
			ev.hasSrc, ev.src = true, sub(f[1][1:])
		}
		for _, p := range f[2:] {
			ev.params = append(ev.params, sub(p))
		}
	}
	return ev
}

func pnCallback(kind, arg string) func(string) string {
	switch kind {
	case "c":
		return func(string) string { return arg }
	case "a":
		return func(cur string) string { return cur + arg }
	case "p":
		return func(cur string) string { return arg + cur }
	}
	return nil
}

func pnIsCollision(cmd string) bool {
	return cmd == girc.ERR_NICKNAMEINUSE || cmd == girc.ERR_NICKCOLLISION || cmd == girc.ERR_UNAVAILRESOURCE
}

// pnNickLike: a nickname as far as the collision handler can tell (not empty, no SPACE or
// ',', does not start like a channel).
func pnNickLike(s string) bool {
	return s != "" && !strings.ContainsAny(s[:1], "!#&*~+") && !strings.ContainsAny(s, " ,")
}

// pnMutatingHandler is an application handler that edits the event it was given: every
// handler pass gets its own deep copy (RunHandlers), so this must stay invisible to the
// built-in handlers.
func pnMutatingHandler(_ *girc.Client, e girc.Event) {
	for i := range e.Params {
		e.Params[i] = strings.ToLower(e.Params[i])
	}
	if e.Source != nil {
		e.Source.Name, e.Source.Ident, e.Source.Host = "zz", "zz", "zz.example"
	}
	for k := range e.Tags {
		e.Tags[k] = "x"
	}
}

// genPNFmtNick: a nickname by IsValidNick that contains Fmt() groups.
func genPNFmtNick(r *rand.Rand) string {
	g := func() string { return Pick(r, "{b}", "{i}", "{red}", "{c}", "{r}", "{u}", "{blue}", "{bold}") }
	switch r.Intn(5) {
	case 0:
		return "[" + g() + "]ot"
	case 1:
		return "Bot" + g()
	case 2:
		return g() + "x" + g()
	case 3:
		return RandBytes(r, 1+r.Intn(3), "abXY") + g() + RandBytes(r, r.Intn(3), "abXY09")
	}
	return g()
}

// runPNSeq runs a sequence case. connected: events are lines written by the peer.
func runPNSeq(c Case, connected bool) Result {
	if len(c) < 4 {
		return Result{Obs: "?short-case", Sig: "trivial"}
	}
	nick, kind, arg, flags := c[0], c[1], c[2], c[3]
	noTracking := strings.Contains(flags, "T")
	cb := pnCallback(kind, arg)
	cfg := drive.BaseConfig()
	cfg.Nick = nick
	cfg.AllowFlood = false
	cfg.HandleNickCollide = cb
	cfg.GlobalFormat = strings.Contains(flags, "G")
	s := pnStart(cfg, noTracking)
	defer s.Stop()
	if strings.Contains(flags, "M") {
		s.C.Handlers.Add(girc.ALL_EVENTS, pnMutatingHandler)
	}

	var obs strings.Builder
	oracle := ""
	fail := func(cls, format string, a ...interface{}) {
		if oracle == "" {
			oracle = cls + ": " + fmt.Sprintf(format, a...)
		}
	}
	sigs := map[string]bool{}

	// the oracle's own bookkeeping, written from the statement
	req := nick            // nickname most recently asked for
	cur := nick            // current nickname: configured, then as 001 / our own NICK say
	stNick := ""           // what 001 / NICK established ("" before registration)
	base, k := nick, 0     // the run of consecutive collisions: nickname it started from, length
	rejected := []string{} // nicknames refused since the run started
	registered := false
	announced := map[string]int{} // NICKLEN / MAXNICKLEN as announced in 005 (coverage signature only)

	for i, a := range c[4:] {
		implCur := nick
		if !noTracking {
			if n, p := s.nick(); !p {
				implCur = n
			}
		}
		ev := pnDecodeEvent(a, req, implCur)
		panicsBefore := s.PanicCount()
		genBefore := atomic.LoadInt32(&s.general)
		if !s.C.VerifPNPrimeLimiter(0, 2*time.Second) {
			return Result{Obs: obs.String() + "?disconnected", Oracle: "stall: client disconnected", Sig: "stall"}
		}
		mark := s.Mark()
		var outs []string
		ok := true
		if ev.cmd == "!NICK" {
			x := ""
			if len(ev.params) > 0 {
				x = ev.params[0]
			}
			s.C.Cmd.Nick(x)
		}
		line, transportable := "", false
		if connected && ev.cmd != "!NICK" && ev.cmd != girc.RPL_WELCOME {
			line, transportable = pnLine(ev.cmd, ev.src, ev.hasSrc, ev.params)
		}
		if transportable {
			if err := s.Send(line); err != nil {
				return Result{Obs: obs.String() + "?peer-write", Oracle: "stall: peer write failed", Sig: "stall"}
			}
		} else if ev.cmd != "!NICK" { // (an event no line can carry is handed to the handlers directly)
			e := &girc.Event{Command: ev.cmd, Params: ev.params}
			if ev.hasSrc {
				e.Source = &girc.Source{Name: ev.src}
			}
			if ev.cmd == girc.RPL_WELCOME {
				// 001 has a background handler that sleeps 2 s (handleConnect). These suites are
				// about what the handlers write, not about dispatch: the event is run beside
				// the session (in every mode) so that a dispatcher that waits for background
				// handlers cannot slow the run down; pingnick.bg is the suite that looks at it.
				go s.C.RunHandlers(e)
			} else {
				s.C.RunHandlers(e)
			}
		}
		if ev.cmd == girc.RPL_WELCOME && len(ev.params) > 0 {
			if !s.waitGeneral(genBefore) {
				fail("stall", "event %d: 001 did not update the client", i)
			}
		}
		if connected {
			sent := fmt.Sprintf("~s~%d", i)
			if err := s.Send("PING :" + sent); err != nil {
				return Result{Obs: obs.String() + "?peer-write", Oracle: "stall: peer write failed", Sig: "stall"}
			}
			outs, ok = s.waitSentinel(mark, func(l string) bool { return l == "PONG "+sent || l == "PONG :"+sent }, 30*time.Second)
		} else {
			sent := fmt.Sprintf("~c~%d", i)
			s.C.Cmd.Ping(sent)
			outs, ok = s.waitSentinel(mark, func(l string) bool { return l == "PING "+sent }, 30*time.Second)
		}
		if !ok {
			return Result{Obs: obs.String() + "?stall", Oracle: fmt.Sprintf("stall: event %d: no sentinel within 30s", i), Sig: "stall"}
		}
		panicked := s.PanicCount() > panicsBefore
		wd, _ := s.C.VerifPNWriteDelay()
		route := "-"
		if len(outs) > 0 {
			route = "D"
			if wd != 0 {
				route = "L"
			}
		}
		nickNow, nickPanics := "", false
		if n, p := s.nick(); p {
			nickNow, nickPanics = "!", true
		} else {
			nickNow = Hex(n)
		}
		_ = nickPanics
		state := ";n=" + nickNow + ";l=" + s.opt("NICKLEN") + "/" + s.opt("MAXNICKLEN")
		if panicked {
			fmt.Fprintf(&obs, "|%d:!%s", i, state)
		} else {
			fmt.Fprintf(&obs, "|%d:%s;r=%s%s", i, HexList(outs), route, state)
		}

		// ---------------- oracle
		var nickLines []string // parameters of the NICK lines written for this event
		for _, l := range outs {
			if cmd, ps := rfcParse(l); cmd == "NICK" && len(ps) == 1 {
				nickLines = append(nickLines, ps[0])
			}
		}
		switch {
		case ev.cmd == "!NICK":
			sigs["user"] = true
			if len(ev.params) > 0 {
				x := ev.params[0]
				if pnWireValid(x) && (len(outs) != 1 || len(nickLines) != 1 || nickLines[0] != x) {
					fail("nick-altered", "event %d: Cmd.Nick(%q) wrote %q, want exactly NICK with that name (NICKLEN %s, MAXNICKLEN %s)", i, x, outs, s.opt("NICKLEN"), s.opt("MAXNICKLEN"))
				}
				if n, ok := announced["NICKLEN"]; ok && len(x) >= n {
					sigs["user-at-limit"] = true
				}
				req, base, k, rejected = x, x, 0, nil
			}
		case ev.cmd == girc.PING:
			sigs["ping"] = true
			if o := pnPongOracle(outs, ev.params); o != "" {
				fail(oracle_class17(o), "event %d: %s", i, o)
			}
			if route == "L" {
				fail("pong-limited", "event %d: the PONG went through the flood limiter", i)
			}
		case pnIsCollision(ev.cmd):
			where := "pre"
			if registered {
				where = "post"
			}
			if panicked {
				sigs["panic"] = true
				fail("collide-panic", "event %d: %s: the collision handler panicked and asked for nothing", i, ev.cmd)
				break
			}
			if cb != nil {
				want := cb(cur)
				sigs["cb-"+where] = true
				switch {
				case want == "" && len(outs) != 0:
					fail("callback-empty-ignored", "event %d: the callback returned \"\" but the client wrote %q", i, outs)
				case want != "" && len(outs) != 1:
					fail("callback-mismatch", "event %d: callback(%q)=%q, the client wrote %q", i, cur, want, outs)
				case want != "" && pnWireValid(want) && len(nickLines) == 1 && nickLines[0] != want && strings.HasPrefix(want, nickLines[0]):
					fail("nick-altered", "event %d: callback(%q)=%q, but the client asked for %q, a cut of it (NICKLEN %s, MAXNICKLEN %s)", i, cur, want, nickLines[0], s.opt("NICKLEN"), s.opt("MAXNICKLEN"))
				case want != "" && pnWireValid(want) && !strings.ContainsAny(want, "\x00") && (len(nickLines) != 1 || nickLines[0] != want):
					fail("callback-mismatch", "event %d: callback(%q)=%q, the client wrote %q", i, cur, want, outs)
				}
				if len(nickLines) == 1 {
					req = nickLines[0]
				}
				break
			}
			// default handler
			if len(outs) != 1 || len(nickLines) != 1 {
				fail("collide-count", "event %d: %s %q answered by %q, want exactly one NICK", i, ev.cmd, ev.params, outs)
				break
			}
			prop := nickLines[0]
			echo := len(ev.params) >= 2 && ev.params[1] == req
			if len(ev.params) >= 2 {
				rejected = append(rejected, ev.params[1])
			}
			switch {
			case echo && pnNickLike(req):
				k++
				kk := k
				if kk > 3 {
					kk = 3
				}
				sigs[fmt.Sprintf("echo-%s-k%d", where, kk)] = true
				if n, ok := announced["NICKLEN"]; ok && len(req) >= n {
					sigs["echo-at-limit"] = true
				}
				if want := base + strings.Repeat("_", k); prop != want && strings.HasPrefix(want, prop) {
					fail("nick-altered", "event %d: collision number %d on %q: the client asked for %q, a cut of %q (NICKLEN %s, MAXNICKLEN %s)", i, k, base, prop, want, s.opt("NICKLEN"), s.opt("MAXNICKLEN"))
				} else if prop != want {
					fail("collide-not-next", "event %d: collision number %d on %q proposes %q, want %q", i, k, base, prop, want)
				}
				for _, r := range rejected {
					if r == prop {
						fail("collide-reproposed", "event %d: %q was already refused and is proposed again", i, prop)
					}
				}
			case echo:
				sigs["echo-invalid-"+where] = true
				base, k = prop, 0
			default:
				sigs["noecho-"+where] = true
				if !strings.HasSuffix(prop, "_") && pnWireValid(prop) {
					fail("collide-not-next", "event %d: proposal %q does not end in '_'", i, prop)
				}
				base, k, rejected = prop, 0, nil
			}
			req = prop
		default:
			if len(outs) != 0 {
				fail("spurious-write", "event %d: %s answered by %q", i, ev.cmd, outs)
			}
			switch ev.cmd {
			case girc.RPL_WELCOME:
				sigs["001"] = true
				if len(ev.params) > 0 {
					stNick = ev.params[0]
					registered = true
					base, k, rejected = req, 0, nil
				}
			case girc.NICK:
				if !noTracking && ev.hasSrc && len(ev.params) >= 1 && specFold(ev.src) == specFold(stNick) {
					stNick = ev.params[len(ev.params)-1]
					sigs["ownnick"] = true
					base, k, rejected = req, 0, nil
				}
			case girc.RPL_ISUPPORT:
				sigs["005"] = true
				if !noTracking && len(ev.params) >= 2 && strings.HasSuffix(ev.params[len(ev.params)-1], "this server") {
					for _, t := range ev.params[1 : len(ev.params)-1] {
						if name, v, ok := strings.Cut(t, "="); ok && (name == "NICKLEN" || name == "MAXNICKLEN") {
							var n int
							if _, err := fmt.Sscanf(v, "%d", &n); err == nil && n > 0 {
								announced[name] = n
							}
						}
					}
				}
			default:
				sigs["other"] = true
			}
			if stNick == "" {
				cur = nick
			} else {
				cur = stNick
			}
		}
		if panicked && !pnIsCollision(ev.cmd) {
			fail("handler-panic", "event %d: %s: a handler panicked", i, ev.cmd)
		}
	}
	keys := make([]string, 0, len(sigs))
	for x := range sigs {
		keys = append(keys, x)
	}
	sort.Strings(keys)
	if len(keys) > 5 {
		keys = keys[:5]
	}
	sig := "cb" + kind + "/" + strings.Join(keys, "+")
	if noTracking {
		sig = "T/" + sig
	}
	return Result{Obs: obs.String(), Oracle: oracle, Sig: sig}
}

func oracle_class17(o string) string {
	if i := strings.IndexByte(o, ':'); i >= 0 {
		return o[:i]
	}
	return o
}

// ------------------------------------------------------------------ generators

const pnNickAlphabet = "abcdefXYZ019-_[]{}|^`\\"

func genPNNick(r *rand.Rand) string {
	first := "abcdefXYZ_[]{}|^`\\"
	n := r.Intn(9)
	switch r.Intn(12) {
	case 0:
		n = 25 + r.Intn(10)
	case 1:
		n = 0
	}
	s := string(first[r.Intn(len(first))]) + RandBytes(r, n, pnNickAlphabet)
	if r.Intn(6) == 0 {
		s += "_"
	}
	return s
}

// genPNToken draws a hostile PING token. wire: no LF, no trailing CR (a line can carry it).
func genPNToken(r *rand.Rand, wire bool) string {
	var s string
	switch r.Intn(14) {
	case 0:
		s = ""
	case 1:
		s = ":" + RandBytes(r, r.Intn(8), "ab: ")
	case 2:
		s = RandBytes(r, 1+r.Intn(12), "ab  :")
	case 3:
		s = " " + RandBytes(r, r.Intn(6), "ab ")
	case 4:
		s = RandBytes(r, 200+r.Intn(500), "abcdefghij0123456789.")
	case 5:
		s = Pick(r, "caf\xc3\xa9", "\xe2\x82\xac uro", "\xf0\x9f\x98\x80", "na\xc3\xafve token", "\xe2\x82\xac")
	case 6:
		s = RandBytes(r, 1+r.Intn(10), "") // arbitrary bytes, mostly invalid UTF-8
	case 7:
		s = "a\rb" + RandBytes(r, r.Intn(4), "\rab")
	case 8:
		s = "LAG" + fmt.Sprint(r.Int63())
	case 9:
		s = "irc." + RandBytes(r, 1+r.Intn(10), "abcdef") + ".example.net"
	case 10:
		s = RandBytes(r, 1+r.Intn(6), "a\x00\x01\x7f\t")
	case 11:
		s = RandBytes(r, 1+r.Intn(20), "ab \xc3\xa9:")
	default:
		s = RandBytes(r, 1+r.Intn(16), "abcdefABCDEF0123456789")
	}
	if wire {
		s = strings.ReplaceAll(s, "\n", "")
		s = strings.TrimRight(s, "\r")
	}
	return s
}

func genPNPingParams(r *rand.Rand, wire bool) []string {
	var ps []string
	switch r.Intn(10) {
	case 0: // no parameter at all
		return nil
	case 1, 2:
		ps = append(ps, Pick(r, "irc.test", "a", "srv1"))
		if r.Intn(3) == 0 {
			ps = append(ps, Pick(r, "irc2.test", "b"))
		}
	}
	return append(ps, genPNToken(r, wire))
}

func pnEv(cmd, src string, params ...string) string {
	return strings.Join(append([]string{cmd, src}, params...), "\n")
}

var pnNumerics = []string{girc.ERR_NICKNAMEINUSE, girc.ERR_NICKCOLLISION, girc.ERR_UNAVAILRESOURCE}

func genPNCollision(r *rand.Rand, hostile bool) string {
	num := pnNumerics[r.Intn(3)]
	if r.Intn(3) > 0 {
		num = girc.ERR_NICKNAMEINUSE
	}
	src := Pick(r, "=irc.test", "=irc.test", "")
	text := Pick(r, "Nickname is already in use.", "Nickname collision KILL", "Nick/channel is temporarily unavailable", "taken")
	if hostile && r.Intn(4) == 0 {
		switch r.Intn(9) {
		case 0:
			return pnEv(num, src)
		case 1:
			return pnEv(num, src, "*")
		case 2:
			return pnEv(num, src, "*", text)
		case 3:
			return pnEv(num, src, "$N", "#channel", text)
		case 4:
			return pnEv(num, src, "*", Pick(r, "other", "x_", "$N", "9lives", "-dash", "a b"), text)
		case 5:
			return pnEv(num, src, "$R")
		case 6:
			return pnEv(num, src, "*", "$R", "a", "b", text)
		case 7:
			return pnEv(num, src, "$R", text)
		default:
			return pnEv(num, src, "*", "")
		}
	}
	if r.Intn(5) == 0 {
		return pnEv(num, src, Pick(r, "*", "$N"), "$R")
	}
	return pnEv(num, src, Pick(r, "*", "$N"), "$R", text)
}

func genPNOther(r *rand.Rand) string {
	switch r.Intn(7) {
	case 0:
		return pnEv("PRIVMSG", "=bob", "$N", "hello there")
	case 1:
		return pnEv("NOTICE", "=irc.test", "*", "*** Looking up your hostname...")
	case 2:
		return pnEv("372", "=irc.test", "$N", "- message of the day")
	case 3:
		return pnEv("432", "=irc.test", "*", "$R", "Erroneous Nickname")
	case 4:
		return pnEv("NICK", "=bob", "bobby")
	case 5:
		return pnEv("251", "=irc.test", "$N", "There are 3 users")
	default:
		return pnEv("PONG", "=irc.test", "irc.test", "x")
	}
}

// genPN005 draws an ISUPPORT line whose NICKLEN / MAXNICKLEN sit around reqLen, the length
// of the nickname the client is about to ask for: absent, 1, reqLen-1, reqLen, reqLen+1, 30.
func genPN005(r *rand.Rand, reqLen int, hostile bool) (string, int) {
	limit := func() int {
		n := []int{0, 1, reqLen - 1, reqLen, reqLen, reqLen + 1, 30}[r.Intn(7)]
		if n < 0 {
			n = 1
		}
		return n
	}
	toks := []string{}
	nl := limit()
	if nl > 0 {
		toks = append(toks, fmt.Sprintf("NICKLEN=%d", nl))
	}
	if r.Intn(3) == 0 {
		if ml := limit(); ml > 0 {
			toks = append(toks, fmt.Sprintf("MAXNICKLEN=%d", ml))
			if nl == 0 {
				nl = ml
			}
		}
	}
	for _, t := range []string{"CHANTYPES=#&", "NETWORK=TestNet", "CASEMAPPING=rfc1459", "SAFELIST", "CHANNELLEN=50"} {
		if r.Intn(3) == 0 {
			toks = append(toks, t)
		}
	}
	if hostile && r.Intn(4) == 0 {
		toks = append(toks, Pick(r, "NICKLEN", "NICKLEN=", "=5", "NICKLEN=abc", "NICKLEN=-3", "NICKLEN=0", "MAXNICKLEN=", "NICKLEN=9=9"))
	}
	r.Shuffle(len(toks), func(i, j int) { toks[i], toks[j] = toks[j], toks[i] })
	text := "are supported by this server"
	if hostile && r.Intn(8) == 0 {
		text = Pick(r, "are supported", "this server", "")
	}
	return pnEv("005", "=irc.test", append(append([]string{"$N"}, toks...), text)...), nl
}

func genPNSeqCase(r *rand.Rand, hostile bool) Case {
	nick := genPNNick(r)
	kind, arg := "", ""
	if r.Intn(5) < 2 {
		kind = Pick(r, "c", "c", "a", "p")
		switch kind {
		case "c":
			arg = Pick(r, "", "", "alt", "Alt_2", nick, "LongAlternative_Nick", strings.Repeat("n", 35))
		case "a":
			arg = Pick(r, "", "-2", "_", "|away", "0", "_a_rather_long_suffix")
		default:
			arg = Pick(r, "x", "_", "", "long_prefix_")
		}
		if hostile && r.Intn(6) == 0 {
			arg = Pick(r, "a b", ":x", "caf\xc3\xa9") // (nicknames stay wire-transparent: "$R" is read back from the wire)
		}
	}
	flags := ""
	if r.Intn(4) == 0 {
		flags += "M"
	}
	fmtNicks := r.Intn(4) == 0
	if fmtNicks {
		flags += "G"
		nick = genPNFmtNick(r)
		switch kind {
		case "c":
			arg = Pick(r, "bot{i}", "{red}Alt", genPNFmtNick(r))
		case "a":
			arg = Pick(r, "{i}", "-{b}2", "_")
		case "p":
			arg = Pick(r, "{b}", "x{u}")
		}
	}
	c := Case{nick, kind, arg, flags}
	n := 1 + r.Intn(8)
	registered := false
	pendingReq := true  // a nickname request is outstanding
	reqLen := len(nick) // (estimated) length of the nickname last asked for
	limit := 0          // NICKLEN last announced (0: none)
	isupport := func() {
		ev, nl := genPN005(r, reqLen, hostile)
		c = append(c, ev)
		if nl > 0 {
			limit = nl
		}
	}
	grow := func() { // what the next proposal will roughly look like
		switch kind {
		case "":
			reqLen++
		case "c":
			reqLen = len(arg)
		default:
			reqLen = len(nick) + len(arg)
		}
	}
	for len(c)-4 < n {
		x := r.Intn(22)
		switch {
		case x < 9 && (pendingReq || hostile || r.Intn(4) == 0):
			if r.Intn(3) == 0 {
				isupport() // announced right before the run
			}
			runLen := 1 + r.Intn(6)
			for j := 0; j < runLen && len(c)-4 < n+3; j++ {
				c = append(c, genPNCollision(r, hostile))
				grow()
				switch r.Intn(8) {
				case 0:
					c = append(c, genPNOther(r))
				case 1:
					isupport() // ... or in the middle of it
				}
			}
			pendingReq = true
		case x >= 20:
			isupport()
		case x < 12 && pendingReq:
			if !registered {
				switch r.Intn(8) {
				case 0:
					c = append(c, pnEv("001", "=irc.test", genPNNick(r), "Welcome, renamed"))
				case 1:
					if hostile {
						c = append(c, pnEv("001", "=irc.test"))
						break
					}
					fallthrough
				default:
					c = append(c, pnEv("001", "=irc.test", "$R", "Welcome to the test network"))
				}
				registered = true
				if r.Intn(2) == 0 {
					isupport() // the usual place: right after 001
				}
			} else {
				c = append(c, pnEv("NICK", "=$N", "$R"))
			}
			pendingReq = false
		case x < 14:
			un := genPNNick(r)
			if limit > 0 && limit < 40 && r.Intn(2) == 0 { // at / over the announced limit
				un = "L" + RandBytes(r, limit-1+[]int{0, 0, 1, 5}[r.Intn(4)], pnNickAlphabet)
			}
			if fmtNicks && r.Intn(2) == 0 {
				un = genPNFmtNick(r)
			}
			reqLen = len(un)
			if hostile && r.Intn(5) == 0 {
				un = Pick(r, "9start", "caf\xc3\xa9", "with space", "")
			}
			c = append(c, pnEv("!NICK", "", un))
			pendingReq = true
		case x < 16:
			ps := genPNPingParams(r, true)
			for i := range ps {
				ps[i] = strings.ReplaceAll(ps[i], "\n", "")
			}
			if r.Intn(3) == 0 {
				ps = []string{Pick(r, "Tok En-42XYZ", "LAG-ABC", "Irc.Test.NET", "{b}Tok{i}")}
			}
			c = append(c, pnEv("PING", Pick(r, "", "=irc.test"), ps...))
		case x < 17 && hostile:
			switch r.Intn(4) {
			case 0:
				c = append(c, pnEv("NICK", "", "$R"))
			case 1:
				c = append(c, pnEv("NICK", "=$N"))
			case 2:
				c = append(c, pnEv("NICK", "=$N", "a", "$R"))
			default:
				c = append(c, pnEv("001", "=irc.test", ""))
			}
		default:
			c = append(c, genPNOther(r))
		}
	}
	return c
}

// pnFixedSeq: the sequences the statement names, for the default handler and the callbacks.
func pnFixedSeq() []Case {
	in := func(k int) []string {
		var out []string
		for i := 0; i < k; i++ {
			out = append(out, pnEv(pnNumerics[i%3], "=irc.test", "*", "$R", "Nickname is already in use."))
		}
		return out
	}
	welcome := pnEv("001", "=irc.test", "$R", "Welcome")
	own := pnEv("NICK", "=$N", "$R")
	isup := func(toks ...string) string {
		return pnEv("005", "=irc.test", append(append([]string{"$N"}, toks...), "are supported by this server")...)
	}
	var out []Case
	for k := 1; k <= 6; k++ {
		out = append(out, append(Case{"me", "", "", ""}, in(k)...))                                            // before 001
		out = append(out, append(append(Case{"me", "", "", ""}, in(k)...), welcome))                           // ... then accepted
		out = append(out, append(append(Case{"me", "", "", ""}, welcome, pnEv("!NICK", "", "new")), in(k)...)) // after 001
	}
	out = append(out,
		// 874a5b0: the second 433 must not propose me_ again
		append(Case{"me", "", "", ""}, in(2)...),
		// collisions, accepted, user-initiated change collides again, accepted through NICK
		append(append(append(Case{"bot", "", "", ""}, in(2)...), welcome, pnEv("!NICK", "", "bot")), append(in(3), own)...),
		// interleaved traffic does not disturb the run
		Case{"me", "", "", "", in(1)[0], pnEv("NOTICE", "=irc.test", "*", "hi"), pnEv("PING", "", "tok en"), in(1)[0], pnEv("NICK", "=bob", "bobby"), in(1)[0]},
		// numerics that do not carry the nickname: fall back to the current nickname
		Case{"me", "", "", "", pnEv("433", "=irc.test"), pnEv("433", "=irc.test", "*"), pnEv("437", "=irc.test", "$N", "#chan", "unavailable")},
		Case{"me", "", "", "", welcome, pnEv("437", "=irc.test", "$N", "#chan", "unavailable"), pnEv("NICK", "=$N", "$R"), pnEv("433", "=irc.test", "$N", "9x", "bad")},
		// server renames at 001
		Case{"me", "", "", "", pnEv("001", "=irc.test", "Guest1", "Welcome"), pnEv("!NICK", "", "me"), in(1)[0], in(1)[0]},
		// own NICK with different case
		Case{"Me[x]", "", "", "", pnEv("001", "=irc.test", "Me[x]", "Welcome"), pnEv("NICK", "=me{X}", "other"), pnEv("433", "=irc.test", "other", "9", "x")},
		// callbacks
		append(Case{"me", "c", "", ""}, in(3)...),
		append(Case{"me", "c", "alt", ""}, in(3)...),
		append(Case{"me", "a", "", ""}, in(3)...),
		append(append(Case{"me", "a", "-2", ""}, in(2)...), welcome, in(1)[0], own, in(1)[0]),
		append(append(Case{"me", "p", "x", ""}, in(1)...), pnEv("001", "=irc.test", "Guest7", "Welcome"), in(1)[0]),
		append(Case{"me", "c", "a b", ""}, in(1)...),
		// ISUPPORT NICKLEN / MAXNICKLEN must not change what is asked for (seeded regression C17-4:
		// Commands.Nick cutting the nickname to NICKLEN re-proposes the refused nickname)
		append(Case{"me", "", "", "", welcome, isup("NICKLEN=9"), pnEv("!NICK", "", "abcdefghi")}, in(3)...),
		append(Case{"me", "", "", "", welcome, isup("MAXNICKLEN=9", "NICKLEN=9", "NETWORK=TestNet"), pnEv("!NICK", "", "abcdefghijk")}, in(2)...),
		append(Case{"abcdefghi", "", "", "", isup("NICKLEN=9")}, in(3)...),
		append(Case{"me", "", "", "", isup("NICKLEN=1")}, in(2)...),
		append(Case{"me", "", "", "", isup("MAXNICKLEN=2")}, in(2)...),
		append(append(append(Case{"me", "", "", ""}, in(2)...), isup("NICKLEN=4")), append(in(2), append([]string{isup("NICKLEN=3", "MAXNICKLEN=30")}, in(1)...)...)...),
		append(Case{"me", "c", "LongAlternative_Nick", "", welcome, isup("NICKLEN=9")}, in(2)...),
		append(Case{"me", "a", "_a_rather_long_suffix", "", isup("NICKLEN=5")}, in(2)...),
		append(Case{"me", "p", "long_prefix_", "", welcome, isup("NICKLEN=2", "MAXNICKLEN=2")}, in(1)...),
		append(Case{"me", "", "", "", pnEv("005", "=irc.test", "$N", "NICKLEN", "NICKLEN=", "=5", "MAXNICKLEN=abc", "are supported by this server")}, in(1)...),
		append(Case{"me", "", "", "", pnEv("005", "=irc.test", "$N", "NICKLEN=2", "are supported"), pnEv("005", "=irc.test", "NICKLEN=2"), pnEv("005", "=irc.test")}, in(1)...),
		// an application handler that rewrites its own copy of the event (seeded C17-9), and
		// Config.GlobalFormat with {..} groups in nicknames (seeded C17-10), change nothing
		append(Case{"TestBot", "", "", "M"}, append(in(2), pnEv("PING", "", "Tok En-42XYZ"), welcome, pnEv("NICK", "=$N", "NewNick"), pnEv("PING", "=Irc.Test", "A", "B c"))...),
		append(Case{"TestBot", "a", "-X", "M"}, append(in(1), pnEv("001", "=irc.test", "GuestXY", "Welcome"), in(1)[0])...),
		append(Case{"[{b}]ot", "", "", "G"}, in(2)...),
		append(Case{"bot", "c", "bot{i}", "G"}, in(1)...),
		append(Case{"me", "", "", "G", welcome, pnEv("!NICK", "", "{red}x{b}")}, in(2)...),
		append(Case{"Test{b}Bot", "a", "{i}", "GM"}, in(2)...),
		// PING shapes
		Case{"me", "", "", "", pnEv("PING", "", "x"), pnEv("PING", ""), pnEv("PING", "", ""), pnEv("PING", "", ":x"), pnEv("PING", "", "a", "b c"), pnEv("PING", "=irc.test", "irc.test")},
	)
	return out
}

func pnFixedPing() []Case {
	long := strings.Repeat("0123456789", 60)
	return []Case{
		{}, {""}, {"x"}, {"irc.test"}, {"a b"}, {" a"}, {"a "}, {":"}, {":a"}, {"::"}, {": a"}, {"a:b"}, {"a", "b"}, {"a", "b c"}, {"a", ""},
		{"a", "b", "c"}, {long}, {"x " + long}, {"caf\xc3\xa9"}, {"\xe2\x82\xac \xf0\x9f\x98\x80"}, {"\xff"}, {"a\xc3"}, {"a\rb"}, {"a\nb"}, {"\r"}, {"a\r"},
		{"\x00"}, {"a\x00b c"}, {"\t"}, {"a\tb"}, {"LAG1700000000"}, {"@tag"}, {"a", ":b"}, {":a", "b"}, {"a b", "c"}, {"", "c"},
	}
}

func init() {
	Register(&Suite{
		Name:  "pingnick.ping",
		Prop:  []string{"C17"},
		Fixed: pnFixedPing,
		Gen: func(r *rand.Rand) Case {
			return Case(genPNPingParams(r, r.Intn(6) > 0))
		},
		Run: runPNPing,
	})
	Register(&Suite{
		Name: "pingnick.flood",
		Prop: []string{"C17"},
		Fixed: func() []Case {
			return []Case{{"x"}, {strings.Repeat("t", 400)}, {"a b"}, {""}}
		},
		Gen: func(r *rand.Rand) Case {
			ps := genPNPingParams(r, true)
			if r.Intn(2) == 0 {
				ps = []string{RandBytes(r, 300+r.Intn(200), "abcdef ")}
			}
			return Case(ps)
		},
		Run: runPNFlood,
	})
	Register(&Suite{
		Name: "pingnick.bg",
		Prop: []string{"C17"},
		Fixed: func() []Case {
			return []Case{{"g", "x"}, {"t", "x"}, {"w", "x"}, {"g", "a b"}, {"w", ""}, {"t", ":c"}}
		},
		Gen: func(r *rand.Rand) Case { // short tokens: a failing case is already minimal
			return Case{Pick(r, "g", "t", "w"), Pick(r, "x", "a b", "", ":", "t1", " y", "\xc3\xa9")}
		},
		Run: runPNBackground,
	})
	Register(&Suite{
		Name:  "pingnick.seq",
		Prop:  []string{"C17"},
		Fixed: pnFixedSeq,
		Gen:   func(r *rand.Rand) Case { return genPNSeqCase(r, r.Intn(3) == 0) },
		Run:   func(c Case) Result { return runPNSeq(c, false) },
	})
	Register(&Suite{
		Name:  "pingnick.collide",
		Prop:  []string{"C17"},
		Fixed: pnFixedSeq,
		Gen:   func(r *rand.Rand) Case { return genPNSeqCase(r, false) },
		Run:   func(c Case) Result { return runPNSeq(c, true) },
	})
	Register(&Suite{
		Name: "pingnick.edge",
		Prop: []string{"C17"},
		Fixed: func() []Case {
			in := pnEv("433", "=irc.test", "*", "$R", "Nickname is already in use.")
			return []Case{
				{"me", "", "", "T", in},
				{"me", "c", "alt", "T", in},
				{"me", "", "", "", pnEv("001", "=irc.test", "\xc3\xbc", "Welcome"), pnEv("!NICK", "", "\xc3\xa9"),
					pnEv("433", "=irc.test", "$N", "$R", "in use"), pnEv("433", "=irc.test", "$N", "$R", "in use")},
			}
		},
		Gen: func(r *rand.Rand) Case {
			c := genPNSeqCase(r, true)
			if r.Intn(2) == 0 {
				c[3] += "T"
			}
			return c
		},
		Run: func(c Case) Result { return runPNSeq(c, false) },
	})
}
