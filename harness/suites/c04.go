package suites

import (
	"bufio"
	"fmt"
	"io"
	"math/rand"
	"os"
	"os/exec"
	"path/filepath"
	"sort"
	"strconv"
	"strings"
	"sync"
	"time"

	"github.com/lrstanley/girc"
)

// C04: a network simulator that plays a correct IRC server towards one client. It keeps
// the true state of a small network (users, channels, memberships, privileges, modes)
// only to decide what a server may send next; what the client must make of the history
// is NOT taken from here but from the extracted reference model (Spec/NetRef.v, asked
// through ocaml/modeldrv, suite "state.ref").

// ---------- the simulated network ----------

type simUser struct {
	nick, ident, host, account, realname, away string
	told                                       bool // the client has been shown ident/host while the user was visible
}

type simMember struct{ q, a, o, h, v bool }

type simChan struct {
	name    string
	topic   string
	members map[*simUser]*simMember
	flags   map[byte]bool   // class D
	params  map[byte]string // class B and C
	in      bool            // we are in it
}

type modeProfile struct {
	chanmodes, prefix string // "" = not announced (RFC defaults apply)
	a, b, c, d        string
	pmodes, psyms     string
}

var modeProfiles = []modeProfile{
	{"", "", "beI", "k", "l", "imnpst", "ov", "@+"},
	{"beI,kf,lj,imnpstCM", "(qaohv)~&@%+", "beI", "kf", "lj", "imnpstCM", "qaohv", "~&@%+"},
	{"eIbq,k,flj,CFLMPQScgimnprstuz", "(ov)@+", "eIbq", "k", "flj", "CFLMPQScgimnprstuz", "ov", "@+"},
	{"IXbeg,k,FHJLfjl,ABCDKMNOPQRSTcimnprstuz", "(ohv)@%+", "IXbeg", "k", "FHJLfjl", "ABCDKMNOPQRSTcimnprstuz", "ohv", "@%+"},
	{"b,k,l,imnpst,extra", "(ov)@+", "b", "k", "l", "imnpst", "ov", "@+"},
}

type sim struct {
	r                             *rand.Rand
	me                            *simUser
	users                         []*simUser
	chans                         []*simChan
	multiPrefix, uhNames, extJoin bool
	whox, acctTag, acctNotify     bool
	prof                          modeProfile
	evs                           []Ev
	pending                       []func()
	cats                          map[string]bool
	serverName                    string
}

var (
	simNicks = []string{"alice", "Bob", "b[o]b", "carol^", "Dave-2", "e{ve}", "frank`", "x", "Nick|away", "Zed_", "q", "Mallory\\"}
	simChans = []string{"#chan", "#Chan2", "#c[1]", "&local", "#caf\xc3\xa9", "+m", "#x", "!ABCDEname", "#a|b^c"}
	simMes   = []string{"me", "Bot[1]", "gIRC^", "me`"}
)

// simRealname: realnames, some starting with digits (a hop count precedes them in RPL_WHOREPLY),
// consisting of digits only, or empty.
func simRealname(r *rand.Rand) string {
	return Pick(r, "Real Name", "real", "?", "two  spaces", "", "x y z", "42nd Street Bot", "3 Musketeers fan", "007", "0", "9 9 9", "1")
}

// caseVar respells a name in a random RFC1459 case variant. nickSafe keeps the result
// inside the nickname alphabet ('^' has no variant there: '~' is not a nick character).
func caseVar(r *rand.Rand, s string, nickSafe bool) string {
	if r.Intn(3) == 0 {
		return s
	}
	b := []byte(s)
	for i, c := range b {
		if r.Intn(2) != 0 {
			continue
		}
		switch {
		case c >= 'a' && c <= 'z':
			b[i] = c - 32
		case c >= 'A' && c <= 'Z':
			b[i] = c + 32
		case c >= '[' && c <= ']', c == '^' && !nickSafe:
			b[i] = c + 32
		case c >= '{' && c <= '}', c == '~':
			b[i] = c - 32
		}
	}
	return string(b)
}

func (s *sim) nickV(u *simUser) string     { return caseVar(s.r, u.nick, false) }
func (s *sim) nickSafeV(u *simUser) string { return caseVar(s.r, u.nick, true) }
func (s *sim) chanV(c *simChan) string {
	if strings.HasPrefix(c.name, "!") && len(c.name) > 6 {
		return c.name[:6] + caseVar(s.r, c.name[6:], false) // the 5-character id of a safe channel is upper case
	}
	return caseVar(s.r, c.name, false)
}

func (s *sim) emit(e Ev)    { s.evs = append(s.evs, e) }
func (s *sim) cat(c string) { s.cats[c] = true }
func (s *sim) srv(cmd string, params ...string) {
	s.emit(Ev{HasSrc: true, Name: s.serverName, Cmd: cmd, Params: params})
}

// from builds a message whose source is the user (full prefix; the nick in a valid spelling).
func (s *sim) from(u *simUser, cmd string, params ...string) Ev {
	e := Ev{HasSrc: true, Name: s.nickSafeV(u), Ident: u.ident, Host: u.host, Cmd: cmd, Params: params}
	if s.acctTag && u.account != "" && s.r.Intn(2) == 0 {
		e.HasAcct, e.Acct = true, u.account
	}
	return e
}

func (s *sim) visible(u *simUser) bool {
	for _, c := range s.chans {
		if c.in && c.members[u] != nil {
			return true
		}
	}
	return false
}

func (s *sim) joined() []*simChan {
	var out []*simChan
	for _, c := range s.chans {
		if c.in {
			out = append(out, c)
		}
	}
	return out
}

func (s *sim) visibleUsers(includeMe bool) []*simUser {
	var out []*simUser
	for _, u := range s.users {
		if s.visible(u) {
			out = append(out, u)
		}
	}
	if includeMe && s.visible(s.me) {
		out = append(out, s.me)
	}
	return out
}

func (s *sim) membersOf(c *simChan) []*simUser {
	var out []*simUser
	for u := range c.members {
		out = append(out, u)
	}
	sort.Slice(out, func(i, j int) bool { return out[i].nick < out[j].nick })
	return out
}

func (s *sim) nickTaken(n string) bool {
	k := girc.ToRFC1459(n)
	if girc.ToRFC1459(s.me.nick) == k {
		return true
	}
	for _, u := range s.users {
		if girc.ToRFC1459(u.nick) == k {
			return true
		}
	}
	return false
}

func (s *sim) freshNick() string {
	for i := 0; i < 50; i++ {
		n := simNicks[s.r.Intn(len(simNicks))]
		if s.r.Intn(3) == 0 {
			n += strconv.Itoa(s.r.Intn(9))
		}
		if !s.nickTaken(n) {
			return n
		}
	}
	return "u" + strconv.Itoa(len(s.evs)) + "x" + strconv.Itoa(s.r.Intn(1000))
}

func (m *simMember) syms(prof modeProfile, multi bool) string {
	out := ""
	for i := 0; i < len(prof.pmodes); i++ {
		on := false
		switch prof.pmodes[i] {
		case 'q':
			on = m.q
		case 'a':
			on = m.a
		case 'o':
			on = m.o
		case 'h':
			on = m.h
		case 'v':
			on = m.v
		}
		if on {
			out += string(prof.psyms[i])
			if !multi {
				break
			}
		}
	}
	return out
}

func (m *simMember) set(letter byte, on bool) {
	switch letter {
	case 'q':
		m.q = on
	case 'a':
		m.a = on
	case 'o':
		m.o = on
	case 'h':
		m.h = on
	case 'v':
		m.v = on
	}
}

// ---------- what the server sends ----------

func (s *sim) welcome(cfgNick string) {
	s.srv("001", s.me.nick, "Welcome to the test network "+s.me.nick)
	if s.r.Intn(3) != 0 {
		s.srv("002", s.me.nick, "Your host is "+s.serverName)
		s.srv("004", s.me.nick, s.serverName, Pick(s.r, "ircd-seven-1.1.9", "UnrealIRCd-6.1.0", "InspIRCd-3"), "DOQRSZaghilopsuwz", "CFILMPQSbcefgijklmnopqrstuvz", "bkloveqjfI")
		s.cat("004")
	}
	if s.prof.chanmodes != "" || s.r.Intn(2) == 0 {
		toks := []string{"NETWORK=TestNet", Pick(s.r, "SILENCE=", "SILENCE=15", "EXCEPTS="),
			// values that contain "=" themselves: only the first "=" separates key and value
			Pick(s.r, "EXTBAN=~,a=account,r=realname", "EXTBAN=$,ajrxz", "SECURELIST=60=", "KEYTOKEN=dGVzdA==", "X=="), "CASEMAPPING=rfc1459", "NICKLEN=" + strconv.Itoa(9+s.r.Intn(30)), "CHANTYPES=#&+!", "SAFELIST", "EXCEPTS", "INVEX=I", "TOPICLEN=390", "MODES=4"}
		if s.prof.chanmodes != "" {
			toks = append(toks, "CHANMODES="+s.prof.chanmodes, "PREFIX="+s.prof.prefix)
		}
		if s.r.Intn(3) == 0 {
			toks = append(toks, Pick(s.r, "LINELEN=1024", "USERLEN=12", "HOSTLEN=64", "MAXNICKLEN=31"))
		}
		s.r.Shuffle(len(toks), func(i, j int) { toks[i], toks[j] = toks[j], toks[i] })
		for len(toks) > 0 {
			n := 1 + s.r.Intn(len(toks))
			if n > 12 {
				n = 12
			}
			p := append([]string{s.me.nick}, toks[:n]...)
			s.srv("005", append(p, "are supported by this server")...)
			toks = toks[n:]
		}
		s.cat("005")
	}
	if s.r.Intn(2) == 0 {
		s.motd()
	}
}

func (s *sim) motd() {
	s.srv("375", s.me.nick, "- "+s.serverName+" Message of the day - ")
	for i, n := 0, s.r.Intn(4); i < n; i++ {
		s.srv("372", s.me.nick, Pick(s.r, "- Welcome!", "- ", "- rules: be nice", "-  two  spaces ", ""))
	}
	s.srv("376", s.me.nick, "End of /MOTD command.")
	s.cat("motd")
}

func (s *sim) who(c *simChan, u *simUser) {
	cn := "*"
	if c != nil {
		cn = s.chanV(c)
	}
	if s.whox {
		acct := u.account
		if acct == "" {
			acct = "0"
		}
		s.srv("354", s.me.nick, "1", cn, u.ident, u.host, s.nickV(u), acct, u.realname)
		s.cat("whox")
	} else {
		flags := "H"
		if u.away != "" {
			flags = "G"
		}
		if c != nil && c.members[u] != nil {
			flags += c.members[u].syms(s.prof, false)
		}
		s.srv("352", s.me.nick, cn, u.ident, u.host, s.serverName, s.nickV(u), flags, Pick(s.r, "0", "1", "3", "12", "107", "255")+" "+u.realname)
		s.cat("who")
	}
	if s.visible(u) {
		u.told = true
	}
}

func (s *sim) names(c *simChan) {
	ms := s.membersOf(c)
	s.r.Shuffle(len(ms), func(i, j int) { ms[i], ms[j] = ms[j], ms[i] })
	for len(ms) > 0 {
		n := 1 + s.r.Intn(len(ms))
		var parts []string
		for _, u := range ms[:n] {
			en := c.members[u].syms(s.prof, s.multiPrefix) + s.nickSafeV(u)
			if s.uhNames {
				en += "!" + u.ident + "@" + u.host
				u.told = true
			}
			parts = append(parts, en)
		}
		line := strings.Join(parts, " ")
		if s.r.Intn(3) == 0 {
			line += " " // many servers end the list with a space
		}
		s.srv("353", s.me.nick, Pick(s.r, "=", "@", "*"), s.chanV(c), line)
		ms = ms[n:]
	}
	s.srv("366", s.me.nick, s.chanV(c), "End of /NAMES list.")
	s.cat("names")
	if s.multiPrefix {
		s.cat("multi-prefix")
	}
	if s.uhNames {
		s.cat("uhnames")
	}
}

func (s *sim) modeIs(c *simChan) {
	flags, args := "+", []string{}
	var ks []int
	for k := range c.flags {
		ks = append(ks, int(k))
	}
	for k := range c.params {
		ks = append(ks, int(k))
	}
	sort.Ints(ks)
	for _, k := range ks {
		flags += string(byte(k))
		if v, ok := c.params[byte(k)]; ok {
			args = append(args, v)
		}
	}
	s.srv("324", append([]string{s.me.nick, s.chanV(c), flags}, args...)...)
	s.cat("324")
}

func (s *sim) joinEv(u *simUser, c *simChan) {
	// A user we know only from a plain NAMES line has no ident/host yet: the JOIN prefix tells
	// them. Sometimes the WHO reply the client asked for arrives first.
	if s.visible(u) && !u.told && u != s.me {
		if s.r.Intn(3) == 0 {
			s.who(nil, u)
		} else {
			s.cat("join-known-without-identity")
		}
	}
	e := s.from(u, "JOIN", s.chanV(c))
	if s.extJoin {
		acct := u.account
		if acct == "" {
			acct = "*"
		}
		e.Params = append(e.Params, acct, u.realname)
		if e.HasAcct {
			e.Acct = u.account
		}
		s.cat("extended-join")
	} else if e.HasAcct && !s.visible(u) {
		s.cat("tag-on-introducing-join")
	}
	c.members[u] = &simMember{}
	s.emit(e)
	u.told = true
}

func (s *sim) meJoin() {
	var cands []*simChan
	for _, c := range s.chans {
		if !c.in {
			cands = append(cands, c)
		}
	}
	if len(cands) == 0 {
		return
	}
	c := cands[s.r.Intn(len(cands))]
	s.joinEv(s.me, c)
	c.in = true
	if len(c.members) == 1 {
		c.members[s.me].o = true
	}
	s.cat("join-me")
	if c.topic != "" {
		s.srv("332", s.me.nick, s.chanV(c), c.topic)
		s.srv("333", s.me.nick, s.chanV(c), "someone!u@h", "1700000000")
		s.cat("332")
	}
	s.names(c)
	reply := func() {
		if c.in {
			s.modeIs(c)
			s.srv("329", s.me.nick, s.chanV(c), "1600000000")
		}
	}
	whoAll := func() {
		if !c.in {
			return
		}
		for _, u := range s.membersOf(c) {
			s.who(c, u)
		}
		s.srv("315", s.me.nick, s.chanV(c), "End of /WHO list.")
	}
	switch s.r.Intn(3) {
	case 0:
		whoAll()
		reply()
	case 1:
		s.pending = append(s.pending, whoAll, reply)
	default: // the WHO replies are still outstanding when the history ends
		s.pending = append(s.pending, reply)
	}
}

func (s *sim) dropInvisible() {
	for _, u := range s.users {
		if !s.visible(u) {
			u.told = false
		}
	}
	if !s.visible(s.me) {
		s.me.told = false
	}
}

func (s *sim) leave(c *simChan, u *simUser) {
	delete(c.members, u)
	if u == s.me {
		c.in = false
	}
	s.dropInvisible()
}

func (s *sim) randomModes(c *simChan) {
	n := 1 + s.r.Intn(4)
	flags, args := "", []string{}
	sign := byte(0)
	ms := s.membersOf(c)
	classes := ""
	for i := 0; i < n; i++ {
		add := s.r.Intn(5) < 3
		var letter byte
		arg, hasArg := "", false
		switch k := s.r.Intn(10); {
		case k < 2: // A
			letter = s.prof.a[s.r.Intn(len(s.prof.a))]
			arg, hasArg = Pick(s.r, "*!*@spam.example", "bad*!*@*", "*!~u@10.0.0.*", "$a:acct!x@y"), true
			classes += "A"
		case k < 4: // B
			letter = s.prof.b[s.r.Intn(len(s.prof.b))]
			arg, hasArg = Pick(s.r, "key", "s3cret", "5:10", "*"), true
			if add {
				c.params[letter] = arg
			} else {
				delete(c.params, letter)
			}
			classes += "B"
		case k < 6: // C
			letter = s.prof.c[s.r.Intn(len(s.prof.c))]
			if add {
				arg, hasArg = strconv.Itoa(1+s.r.Intn(99)), true
				c.params[letter] = arg
			} else {
				delete(c.params, letter)
			}
			classes += "C"
		case k < 8: // D
			letter = s.prof.d[s.r.Intn(len(s.prof.d))]
			if add {
				c.flags[letter] = true
			} else {
				delete(c.flags, letter)
			}
			classes += "D"
		default: // member privilege
			letter = s.prof.pmodes[s.r.Intn(len(s.prof.pmodes))]
			u := ms[s.r.Intn(len(ms))]
			arg, hasArg = s.nickV(u), true
			c.members[u].set(letter, add)
			classes += "P"
		}
		sg := byte('-')
		if add {
			sg = '+'
		}
		if sg != sign || s.r.Intn(6) == 0 {
			flags += string(sg)
			sign = sg
		}
		flags += string(letter)
		if hasArg {
			args = append(args, arg)
		}
	}
	var src *simUser
	if len(ms) > 0 && s.r.Intn(4) != 0 {
		src = ms[s.r.Intn(len(ms))]
	}
	ps := append([]string{s.chanV(c), flags}, args...)
	if src != nil {
		s.emit(s.from(src, "MODE", ps...))
	} else {
		s.srv("MODE", ps...)
	}
	for _, ch := range []byte("ABCDP") {
		if strings.IndexByte(classes, ch) >= 0 {
			s.cat("mode" + string(ch))
		}
	}
	if strings.Contains(classes, "P") && s.r.Intn(3) == 0 {
		// a NAMES refresh after privilege changes: the listed prefixes replace what was recorded
		s.pending = append(s.pending, func() {
			if c.in {
				s.names(c)
			}
		})
	}
	if strings.Contains(flags, "+") && strings.Contains(flags, "-") {
		s.cat("mode+-")
	}
}

func (s *sim) quit(u *simUser) {
	n := 0
	for _, c2 := range s.chans {
		if c2.in && c2.members[u] != nil {
			n++
		}
	}
	s.emit(s.from(u, "QUIT", Pick(s.r, "Quit: bye", "Ping timeout: 240 seconds", "")))
	for _, c2 := range s.chans {
		delete(c2.members, u)
	}
	for i, x := range s.users {
		if x == u {
			s.users = append(s.users[:i], s.users[i+1:]...)
			break
		}
	}
	s.dropInvisible()
	s.cat("quit")
	if n > 1 {
		s.cat("quit-multi")
	}
}

// renameUser: NICK to a fresh nick or to another spelling of the same nick.
func (s *sim) renameUser(u *simUser) {
	var nn string
	if s.r.Intn(3) == 0 {
		nn = caseVar(s.r, u.nick, true)
		if nn != u.nick {
			s.cat("nick-case")
		}
	} else {
		nn = s.freshNick()
		s.cat("nick")
	}
	e := s.from(u, "NICK", nn)
	u.nick = nn
	s.emit(e)
	if u == s.me {
		s.cat("nick-me")
	}
}

func (s *sim) step() {
	r := s.r
	if len(s.pending) > 0 && r.Intn(4) == 0 {
		f := s.pending[0]
		s.pending = s.pending[1:]
		f()
		return
	}
	js := s.joined()
	if len(js) == 0 {
		// we share no channel with anybody: the server can still rename us, ping us, ...
		switch r.Intn(6) {
		case 0, 1:
			s.renameUser(s.me)
			s.cat("nick-me-alone")
			return
		case 2:
			s.srv("PING", Pick(r, "irc.test", "12345"))
			return
		case 3:
			if len(s.users) > 0 {
				s.emit(s.from(s.users[r.Intn(len(s.users))], Pick(r, "PRIVMSG", "NOTICE"), s.me.nick, "hi there"))
				return
			}
		}
		s.meJoin()
		return
	}
	canJoin := false
	for _, c2 := range s.chans {
		canJoin = canJoin || !c2.in
	}
	if (!s.uhNames || canJoin) && r.Intn(25) == 0 {
		// services give us a vhost/cloak without CHGHOST (396 only): our next own JOIN shows the
		// new prefix; until then nothing the client tracks changes
		if r.Intn(2) == 0 {
			s.me.ident = Pick(r, "~user", "account", "me2")
		}
		s.me.host = Pick(r, "user/me", "cloak-"+strconv.Itoa(r.Intn(99))+".example", "203.0.113.7")
		s.srv("396", s.me.nick, s.me.host, "is now your hidden host")
		s.cat("own-vhost-silent")
		if s.uhNames || r.Intn(2) == 0 { // (a NAMES line with userhost-in-names would show the new host at once)
			s.meJoin()
		}
		return
	}
	if r.Intn(14) == 0 {
		s.meJoin()
		return
	}
	c := js[r.Intn(len(js))]
	ms := s.membersOf(c)
	if r.Intn(25) == 0 { // we leave one channel or (sometimes) all of them, one after the other
		all := r.Intn(3) == 0
		for _, c2 := range js {
			if !all && c2 != c {
				continue
			}
			ms2 := s.membersOf(c2)
			if r.Intn(3) == 0 {
				s.emit(s.from(ms2[r.Intn(len(ms2))], "KICK", s.chanV(c2), s.nickV(s.me), "bye"))
				s.cat("kick-me")
			} else {
				s.emit(s.from(s.me, "PART", s.chanV(c2)))
				s.cat("part-me")
			}
			s.leave(c2, s.me)
		}
		if len(s.joined()) == 0 {
			s.cat("zero-channels")
		}
		return
	}
	if r.Intn(12) == 0 && len(js) > 1 {
		// somebody we already track joins another channel we are in: (a) known only from a plain
		// NAMES line, so the JOIN prefix is the first we hear of ident/host; (b) logged out
		// without account-notify, so the "*" of the extended JOIN is the first we hear of it
		var cands []*simUser
		for _, u := range ms {
			if u != s.me && (!u.told || (s.extJoin && !s.acctNotify && u.account != "")) {
				cands = append(cands, u)
			}
		}
		if len(cands) > 0 {
			u := cands[r.Intn(len(cands))]
			for _, c2 := range js {
				if c2.members[u] == nil {
					if u.told {
						u.account = ""
						s.cat("extjoin-star-after-account")
					}
					s.joinEv(u, c2)
					return
				}
			}
		}
	}
	if !s.multiPrefix && len(s.prof.pmodes) > 1 && r.Intn(20) == 0 {
		// without multi-prefix a NAMES refresh lists only the highest prefix: it replaces
		// the privileges learnt from earlier MODE messages
		u := ms[r.Intn(len(ms))]
		lo, hi := s.prof.pmodes[len(s.prof.pmodes)-1], s.prof.pmodes[len(s.prof.pmodes)-2]
		c.members[u].set(lo, true)
		c.members[u].set(hi, true)
		s.srv("MODE", s.chanV(c), "+"+string(lo)+string(hi), s.nickV(u), s.nickV(u))
		s.names(c)
		s.cat("names-overwrite")
		return
	}
	if r.Intn(30) == 0 && len(ms) > 1 { // a case-only rename of somebody else, who then leaves
		u := ms[r.Intn(len(ms))]
		if u != s.me {
			nn := caseVar(r, u.nick, true)
			e := s.from(u, "NICK", nn)
			u.nick = nn
			s.emit(e)
			if r.Intn(2) == 0 {
				s.emit(s.from(u, "PART", s.chanV(c)))
				s.leave(c, u)
			} else {
				s.quit(u)
			}
			s.cat("nick-case-then-leave")
			return
		}
	}
	switch k := r.Intn(100); {
	case k < 14: // somebody joins a channel we are in
		var cands []*simUser
		for _, u := range s.users {
			if c.members[u] == nil {
				cands = append(cands, u)
			}
		}
		if len(cands) == 0 || (len(s.users) < 9 && r.Intn(3) == 0) {
			u := &simUser{nick: s.freshNick(), ident: Pick(r, "~id", "ident", "u"), host: Pick(r, "h.example", "10.0.0.7", "gateway/web/x"),
				realname: simRealname(r), account: Pick(r, "", "", "acct", "Other")}
			s.users = append(s.users, u)
			cands = []*simUser{u}
		}
		s.joinEv(cands[r.Intn(len(cands))], c)
		s.cat("join")
	case k < 22: // somebody parts
		u := ms[r.Intn(len(ms))]
		if u == s.me && r.Intn(3) != 0 {
			return
		}
		ps := []string{s.chanV(c)}
		if r.Intn(2) == 0 {
			ps = append(ps, Pick(r, "bye", "", "gone for good"))
		}
		s.emit(s.from(u, "PART", ps...))
		s.leave(c, u)
		if u == s.me {
			s.cat("part-me")
		} else {
			s.cat("part")
		}
	case k < 28: // somebody is kicked
		u := ms[r.Intn(len(ms))]
		if u == s.me && r.Intn(3) != 0 {
			return
		}
		by := ms[r.Intn(len(ms))]
		s.emit(s.from(by, "KICK", s.chanV(c), s.nickV(u), Pick(r, "out", by.nick, "")))
		s.leave(c, u)
		if u == s.me {
			s.cat("kick-me")
		} else {
			s.cat("kick")
		}
	case k < 33: // somebody quits
		u := ms[r.Intn(len(ms))]
		if u == s.me {
			return
		}
		s.quit(u)
	case k < 43: // nick change
		u := ms[r.Intn(len(ms))]
		if r.Intn(4) == 0 {
			u = s.me
		}
		s.renameUser(u)
	case k < 58:
		s.randomModes(c)
	case k < 64:
		c.topic = Pick(r, "topic", "", "a longer topic with  spaces", ":colon first", "t\xc3\xb6pic")
		s.emit(s.from(ms[r.Intn(len(ms))], "TOPIC", s.chanV(c), c.topic))
		s.cat("topic")
	case k < 69:
		u := ms[r.Intn(len(ms))]
		u.away = Pick(r, "", "", "gone", "be right back")
		if u.away == "" && r.Intn(2) == 0 {
			s.emit(s.from(u, "AWAY"))
		} else {
			s.emit(s.from(u, "AWAY", u.away))
		}
		s.cat("away")
	case k < 74:
		u := ms[r.Intn(len(ms))]
		u.account = Pick(r, "", "acct", "Other", "n[e]w")
		if !s.acctNotify {
			// no account-notify: the change shows only in later extended JOINs, WHOX replies and tags
			s.cat("account-silent")
			return
		}
		a := u.account
		if a == "" {
			a = "*"
		}
		e := s.from(u, "ACCOUNT", a)
		if e.HasAcct {
			e.Acct = u.account
			e.HasAcct = u.account != ""
		}
		s.emit(e)
		s.cat("account")
	case k < 79:
		u := ms[r.Intn(len(ms))]
		e := s.from(u, "CHGHOST", Pick(r, "newid", "~id", u.ident), Pick(r, "cloak.example", "user/"+strings.ToLower(strings.Trim(u.nick, "[]\\`^{|}_-")), u.host))
		u.ident, u.host = e.Params[0], e.Params[1]
		s.emit(e)
		s.cat("chghost")
	case k < 85: // ordinary traffic, possibly tagged with the sender's account
		u := ms[r.Intn(len(ms))]
		target := s.chanV(c)
		if r.Intn(4) == 0 {
			target = s.me.nick
		}
		e := s.from(u, Pick(r, "PRIVMSG", "NOTICE"), target, Pick(r, "hello", "\x01ACTION waves\x01", "#chan is nice", "MODE +o"))
		if e.HasAcct {
			s.cat("account-tag")
		}
		if u == s.me {
			return
		}
		s.emit(e)
	case k < 89:
		s.who(c, ms[r.Intn(len(ms))])
	case k < 92:
		s.names(c)
	case k < 94:
		s.modeIs(c)
	case k < 96:
		s.srv("PING", Pick(r, "irc.test", "12345"))
	case k < 97:
		s.srv("005", s.me.nick, Pick(r, "MONITOR=100", "WHOX", "KNOCK", "ELIST=CMNTU"), Pick(r, "SILENCE=15", "STATUSMSG=@+", "TARGMAX=PRIVMSG:4", "KNOCK=", "CALLERID=", "CLIENTTAGDENY=*,-a=b", "VTOKEN=YWJj="), "are supported by this server")
		s.cat("005-late")
	case k < 98:
		s.motd()
	default: // churn out of sight: must not be reflected
		for _, u := range s.users {
			if !s.visible(u) && r.Intn(2) == 0 {
				u.account = Pick(r, "", "hidden")
				u.host = Pick(r, "elsewhere.example", u.host)
			}
		}
	}
}

// genConformant builds one conformant history (mostly 10-70 lines, sometimes up to 300).
func genConformant(r *rand.Rand) Case { return genConformantN(r, false) }

// genConformantLong: 100-300 lines, from a generator stream of its own.
func genConformantLong(r *rand.Rand) Case {
	return genConformantN(rand.New(rand.NewSource(r.Int63()^0x5bd1e995)), true)
}

func genConformantN(r *rand.Rand, long bool) Case {
	s := &sim{r: r, cats: map[string]bool{}, serverName: "irc.test"}
	s.multiPrefix, s.uhNames, s.extJoin = r.Intn(2) == 0, r.Intn(2) == 0, r.Intn(2) == 0
	s.whox, s.acctTag = r.Intn(2) == 0, r.Intn(2) == 0
	s.acctNotify = r.Intn(3) != 0
	s.prof = modeProfiles[r.Intn(len(modeProfiles))]
	cfgNick := simMes[r.Intn(len(simMes))]
	s.me = &simUser{nick: cfgNick, ident: Pick(r, "~user", "user"), host: Pick(r, "my.host.example", "192.0.2.1"), realname: Pick(r, "Real Name", "1st bot", "007"), account: Pick(r, "", "myacct")}
	if r.Intn(5) == 0 {
		s.me.nick = cfgNick + "_" // the server may register us under another nick
	}
	nch := 2 + r.Intn(3)
	perm := r.Perm(len(simChans))
	for i := 0; i < nch; i++ {
		c := &simChan{name: simChans[perm[i]], members: map[*simUser]*simMember{}, flags: map[byte]bool{}, params: map[byte]string{}}
		if r.Intn(2) == 0 {
			c.topic = Pick(r, "old topic", "welcome")
		}
		s.chans = append(s.chans, c)
	}
	for i, n := 0, 2+r.Intn(5); i < n; i++ {
		u := &simUser{nick: s.freshNick(), ident: Pick(r, "~id", "ident", "u"), host: Pick(r, "h.example", "10.0.0.7", "gateway/web/x"),
			realname: simRealname(r), account: Pick(r, "", "", "acct", "Other")}
		s.users = append(s.users, u)
		for _, c := range s.chans {
			if r.Intn(2) == 0 {
				m := &simMember{}
				for j := 0; j < len(s.prof.pmodes); j++ {
					if r.Intn(4) == 0 {
						m.set(s.prof.pmodes[j], true)
					}
				}
				c.members[u] = m
			}
		}
	}
	s.welcome(cfgNick)
	target := 10 + r.Intn(60)
	if long || r.Intn(12) == 0 {
		target = 100 + r.Intn(200)
	}
	for guard := 0; len(s.evs) < target && guard < 2000; guard++ {
		s.step()
	}
	if len(s.evs) > 300 {
		s.evs = s.evs[:300]
	}
	return EncodeHistory("feed", cfgNick, "user", s.evs)
}

// ---------- the implementation's getters, dumped like Driver/DrvC04g.v ----------

func swap1459(s string) string {
	b := []byte(s)
	for i, c := range b {
		switch {
		case c >= 'a' && c <= 'z', c >= '{' && c <= '~':
			b[i] = c - 32
		case c >= 'A' && c <= 'Z', c >= '[' && c <= '^':
			b[i] = c + 32
		}
	}
	return string(b)
}

const probeAlphabet = "abcdefghijklmnopqrstuvwxyzABCDEFGHIJKLMNOPQRSTUVWXYZ"

var probeKeys = []string{"NETWORK", "CHANMODES", "PREFIX", "SERVER", "VERSION", "NOSUCHKEY"}

func sortByFold(l []string) []string {
	out := append([]string(nil), l...)
	sort.SliceStable(out, func(i, j int) bool { return girc.ToRFC1459(out[i]) < girc.ToRFC1459(out[j]) })
	return out
}

// GetterDump evaluates the public state API and renders it canonically.
func GetterDump(c *girc.Client) string {
	var sb strings.Builder
	fmt.Fprintf(&sb, "n=%s;i=%s;h=%s;m=%s;o=", Hex(c.GetNick()), Hex(c.GetIdent()), Hex(c.GetHost()), Hex(c.ServerMOTD()))
	keys, _ := c.VerifServerOptions()
	for i, k := range keys {
		if i > 0 {
			sb.WriteByte(',')
		}
		sb.WriteString(Hex(k))
		if v, ok := c.GetServerOption(k); ok {
			sb.WriteString("=" + Hex(v))
		} else {
			sb.WriteString("-")
		}
	}
	sb.WriteString(";p=")
	for i, k := range probeKeys {
		if i > 0 {
			sb.WriteByte(',')
		}
		if v, ok := c.GetServerOption(k); ok {
			sb.WriteString("=" + Hex(v))
		} else {
			sb.WriteString("-")
		}
	}
	cl, ul := c.ChannelList(), c.UserList()
	sb.WriteString(";cl=" + HexList(cl) + ";ul=" + HexList(ul) + ";c=")
	for i, name := range sortByFold(cl) {
		if i > 0 {
			sb.WriteByte('|')
		}
		v := swap1459(name)
		ch := c.LookupChannel(v)
		if ch == nil {
			sb.WriteString("?")
			continue
		}
		var probes []string
		for j := 0; j < len(probeAlphabet); j++ {
			x := probeAlphabet[j : j+1]
			if ch.Modes.HasMode(x) {
				if a, ok := ch.Modes.Get(x); ok {
					probes = append(probes, x+"="+Hex(a))
				} else {
					probes = append(probes, x+"-")
				}
			}
		}
		sb.WriteString(B(c.IsInChannel(v)) + ":" + Hex(ch.Name) + ":" + Hex(ch.Topic) + ":" + HexList(ch.UserList) + ":" + Hex(ch.Modes.String()) + ":" + strings.Join(probes, ","))
	}
	sb.WriteString(";u=")
	for i, nick := range sortByFold(ul) {
		if i > 0 {
			sb.WriteByte('|')
		}
		u := c.LookupUser(swap1459(nick))
		if u == nil {
			sb.WriteString("?")
			continue
		}
		var pl []string
		for _, cn := range u.ChannelList {
			if p, ok := u.Perms.Lookup(swap1459(cn)); ok {
				pl = append(pl, Hex(cn)+"="+permFlags(p))
			} else {
				pl = append(pl, Hex(cn)+"=?")
			}
		}
		sb.WriteString(Hex(u.Nick) + ":" + Hex(u.Ident) + ":" + Hex(u.Host) + ":" + HexList(u.ChannelList) + ":" + strings.Join(pl, ",") + ":" + Hex(u.Extras.Name) + ":" + Hex(u.Extras.Account) + ":" + Hex(u.Extras.Away))
	}
	return sb.String()
}

// ---------- the extracted reference model ----------

type refProc struct {
	mu  sync.Mutex
	cmd *exec.Cmd
	in  io.WriteCloser
	out *bufio.Reader
	err error
}

var theRef refProc

func modeldrvPath() string {
	if p := os.Getenv("VERIF_MODELDRV"); p != "" {
		return p
	}
	if exe, err := os.Executable(); err == nil {
		// <root>/work/bin/gircx -> <root>/ocaml/modeldrv
		p := filepath.Join(filepath.Dir(filepath.Dir(filepath.Dir(exe))), "ocaml", "modeldrv")
		if _, err := os.Stat(p); err == nil {
			return p
		}
	}
	for _, p := range []string{"../ocaml/modeldrv", "ocaml/modeldrv", "../../ocaml/modeldrv"} {
		if _, err := os.Stat(p); err == nil {
			return p
		}
	}
	return "modeldrv"
}

// RefTold asks the extracted reference model what a client has been told by the history.
func RefTold(c Case) (string, error) {
	p := &theRef
	p.mu.Lock()
	defer p.mu.Unlock()
	if p.cmd == nil && p.err == nil {
		cmd := exec.Command(modeldrvPath())
		in, e1 := cmd.StdinPipe()
		out, e2 := cmd.StdoutPipe()
		if e1 != nil || e2 != nil {
			p.err = fmt.Errorf("pipes: %v %v", e1, e2)
		} else if err := cmd.Start(); err != nil {
			p.err = err
		} else {
			p.cmd, p.in, p.out = cmd, in, bufio.NewReaderSize(out, 1<<20)
		}
	}
	if p.err != nil {
		return "", p.err
	}
	if _, err := io.WriteString(p.in, "state.ref\t"+EncodeCase(c)+"\n"); err != nil {
		p.err = err
		return "", err
	}
	line, err := p.out.ReadString('\n')
	if err != nil {
		p.err = err
		return "", err
	}
	return strings.TrimRight(line, "\n"), nil
}

var chanFieldNames = []string{"is-in-channel", "channel-name", "topic", "members", "modes-string", "modes"}
var userFieldNames = []string{"nick", "ident", "host", "user-channels", "privileges", "realname", "account", "away"}
var topFieldNames = map[string]string{"n": "own-nick", "i": "own-ident", "h": "own-host", "m": "motd", "o": "server-options", "p": "server-options",
	"cl": "channel-list", "ul": "user-list", "c": "channel", "u": "user"}

// diffDumps names the first component in which two getter dumps differ.
func diffDumps(impl, ref string) string {
	if impl == ref {
		return ""
	}
	fi, fr := strings.Split(impl, ";"), strings.Split(ref, ";")
	for k := 0; k < len(fi) && k < len(fr); k++ {
		if fi[k] == fr[k] {
			continue
		}
		name := fi[k]
		if j := strings.IndexByte(name, '='); j >= 0 {
			name = name[:j]
		}
		cls := topFieldNames[name]
		if cls == "" {
			cls = "field-" + name
		}
		if name == "c" || name == "u" {
			ei, er := strings.Split(fi[k][2:], "|"), strings.Split(fr[k][2:], "|")
			if len(ei) != len(er) {
				return fmt.Sprintf("told-%s-set: the API shows %d, the history implies %d [%s vs %s]", cls, len(ei), len(er), clip(fi[k]), clip(fr[k]))
			}
			names := chanFieldNames
			if name == "u" {
				names = userFieldNames
			}
			for x := range ei {
				if ei[x] == er[x] {
					continue
				}
				si, sr := strings.Split(ei[x], ":"), strings.Split(er[x], ":")
				for y := 0; y < len(si) && y < len(sr) && y < len(names); y++ {
					if si[y] != sr[y] {
						return fmt.Sprintf("told-%s-%s: the API shows %s, the history implies %s [in %s]", cls, names[y], clip(si[y]), clip(sr[y]), clip(er[x]))
					}
				}
				return fmt.Sprintf("told-%s: %s vs %s", cls, clip(ei[x]), clip(er[x]))
			}
		}
		return fmt.Sprintf("told-%s: the API shows %s, the history implies %s", cls, clip(fi[k]), clip(fr[k]))
	}
	return "told-shape: dumps have different shapes"
}

func clip(s string) string {
	if len(s) > 160 {
		return s[:160] + "…"
	}
	return s
}

func conformantSig(evs []Ev, obs string) string {
	if obs == "PANIC" || obs == "WEDGED" || obs == "NOPONG" {
		return strings.ToLower(obs)
	}
	f := map[string]bool{}
	me := ""
	for _, e := range evs {
		switch e.Cmd {
		case "001":
			if len(e.Params) > 0 {
				me = girc.ToRFC1459(e.Params[0])
			}
		case "NICK":
			if len(e.Params) > 0 {
				if girc.ToRFC1459(e.Name) == girc.ToRFC1459(e.Params[0]) {
					f["nick-case"] = true
				}
				if girc.ToRFC1459(e.Name) == me {
					f["nick-me"] = true
					me = girc.ToRFC1459(e.Params[0])
				}
			}
		case "JOIN":
			if len(e.Params) > 1 {
				f["extjoin"] = true
			}
		case "353":
			if len(e.Params) > 3 {
				for _, en := range strings.Fields(e.Params[3]) {
					if strings.Contains(en, "!") {
						f["uhnames"] = true
					}
					if len(en) > 1 && strings.ContainsAny(en[:1], "~&@%+") && strings.ContainsAny(en[1:2], "~&@%+") {
						f["multiprefix"] = true
					}
				}
			}
		case "MODE":
			if len(e.Params) > 1 && strings.Contains(e.Params[1], "-") && strings.Contains(e.Params[1], "+") {
				f["mode+-"] = true
			}
		case "354":
			f["whox"] = true
		case "KICK", "PART":
			f["leave"] = true
		}
		if e.HasAcct {
			f["tag"] = true
		}
	}
	var ks []string
	for k := range f {
		ks = append(ks, k)
	}
	sort.Strings(ks)
	b := func(n int) string {
		switch {
		case n == 0:
			return "0"
		case n <= 1:
			return "1"
		default:
			return "2+"
		}
	}
	nch := strings.Count(obs[strings.Index(obs, ";c="):strings.Index(obs, ";u=")], ":") / 4
	nus := strings.Count(obs[strings.Index(obs, ";u="):strings.Index(obs, ";k=")], ":") / 7
	return "ch" + b(nch) + "/us" + b(nus/2) + "/" + strings.Join(ks, ",")
}

// runHistoryGuarded is RunHistory under a watchdog: a handler that panics while it holds the
// state lock leaves every later handler blocked, and RunHandlers never returns.
func runHistoryGuarded(nick, user string, evs []Ev) (obs, oracle string, ss *StateSession) {
	type res struct {
		obs, oracle string
		ss          *StateSession
	}
	ch := make(chan res, 1)
	go func() {
		o, or, s := RunHistory(nick, user, evs)
		ch <- res{o, or, s}
	}()
	select {
	case r := <-ch:
		return r.obs, r.oracle, r.ss
	case <-time.After(45 * time.Second):
		return "WEDGED", "wedge: the client did not finish processing the history within 45s (a handler blocked, e.g. on a state lock left held)", nil
	}
}

func runConformant(c Case) Result {
	_, nick, user, evs, ok := DecodeHistory(c)
	if !ok {
		return Result{Obs: "?bad-args", Sig: ""}
	}
	obs, oracle, ss := runHistoryGuarded(nick, user, evs)
	if ss == nil || obs == "WEDGED" || obs == "NOPONG" { // Stop could block on a leaked lock
		return Result{Obs: obs, Oracle: oracle, Sig: "wedged"}
	}
	defer ss.Stop()
	sig := conformantSig(evs, obs)
	if oracle != "" || obs == "PANIC" {
		return Result{Obs: obs, Oracle: oracle, Sig: sig}
	}
	g := GetterDump(ss.C)
	obs += ";g=" + g
	told, err := RefTold(c)
	if err != nil {
		return Result{Obs: obs, Oracle: "spec-unavailable: cannot run the extracted reference model: " + err.Error(), Sig: sig}
	}
	// conf=T;abs=T;<dump>
	parts := strings.SplitN(told, ";", 3)
	if len(parts) != 3 || !strings.HasPrefix(parts[0], "conf=") || !strings.HasPrefix(parts[1], "abs=") {
		return Result{Obs: obs, Oracle: "spec-unavailable: unexpected answer " + clip(told), Sig: sig}
	}
	if parts[0] != "conf=T" {
		// not a history a correct server sends: the property says nothing about it, but
		// the simulator is supposed to produce conformant histories only
		bad := "?"
		if i, err := strconv.Atoi(strings.TrimPrefix(parts[0], "conf=F@")); err == nil && i < len(evs) {
			bad = fmt.Sprintf("event %d: %s %q (source %q)", i, evs[i].Cmd, evs[i].Params, evs[i].Name)
		}
		return Result{Obs: obs, Oracle: "generator-nonconformant: " + bad, Sig: "trivial-nonconformant"}
	}
	if d := diffDumps(g, parts[2]); d != "" {
		return Result{Obs: obs, Oracle: d, Sig: sig}
	}
	if parts[1] != "abs=T" {
		return Result{Obs: obs, Oracle: "model-abs: abs of the impl-model's state is not the told state although the API agrees", Sig: sig}
	}
	return Result{Obs: obs, Sig: sig}
}

func init() {
	Register(&Suite{
		Name: "state.conformant",
		Prop: []string{"C04"},
		Fixed: func() []Case {
			srv := func(cmd string, ps ...string) Ev { return Ev{HasSrc: true, Name: "irc.test", Cmd: cmd, Params: ps} }
			usr := func(n, cmd string, ps ...string) Ev {
				return Ev{HasSrc: true, Name: n, Ident: "~" + strings.ToLower(n[:1]), Host: "h.example", Cmd: cmd, Params: ps}
			}
			tagged := func(e Ev, acct string) Ev { e.HasAcct, e.Acct = true, acct; return e }
			return []Case{
				// the Example of Properties/C04.v
				EncodeHistory("feed", "me", "user", []Ev{
					srv("001", "me", "Welcome"),
					srv("005", "me", "CHANMODES=beI,k,l,imnpst", "PREFIX=(qaohv)~&@%+", "are supported by this server"),
					usr("me", "JOIN", "#Chan"),
					srv("353", "me", "=", "#chan", "me @+alice ~&bob "),
					usr("me", "JOIN", "&Two"),
					srv("353", "me", "@", "&two", "@me +alice"),
					usr("ALICE", "NICK", "Alice"),
					srv("MODE", "#CHAN", "+ntk", "key"),
					srv("MODE", "#chan", "-k", "key"),
					srv("MODE", "#chan", "+l", "5"),
					usr("bob", "PART", "#chan"),
				}),
				// mode removal: +m then -m
				EncodeHistory("feed", "me", "user", []Ev{
					srv("001", "me", "Welcome"), usr("me", "JOIN", "#c"), srv("MODE", "#c", "+m"), srv("MODE", "#c", "-m"),
				}),
				// (former finding) a user known from a plain NAMES line (no ident/host yet) joins another channel
				EncodeHistory("feed", "me", "user", []Ev{
					srv("001", "me", "Welcome"), usr("me", "JOIN", "#a"), srv("353", "me", "=", "#a", "me alice"),
					usr("me", "JOIN", "#b"), srv("353", "me", "=", "#b", "me"), usr("alice", "JOIN", "#b"),
				}),
				// (former finding) extended-join shows "*" for a user we knew as logged in (no account-notify)
				EncodeHistory("feed", "me", "user", []Ev{
					srv("001", "me", "Welcome"), usr("me", "JOIN", "#a"), usr("me", "JOIN", "#b"),
					usr("alice", "JOIN", "#a", "acct", "Alice"), usr("alice", "JOIN", "#b", "*", "Alice"),
				}),
				// (former finding) account-tag without extended-join on the JOIN of somebody new
				EncodeHistory("feed", "me", "user", []Ev{
					srv("001", "me", "Welcome"), usr("me", "JOIN", "#a"), tagged(usr("alice", "JOIN", "#a"), "acct"),
				}),
				// (former finding) an ISUPPORT token with an empty value
				EncodeHistory("feed", "me", "user", []Ev{
					srv("001", "me", "Welcome"), srv("005", "me", "SILENCE=", "NETWORK=Test", "are supported by this server"),
				}),
				// an ISUPPORT value that contains "=": key and value split at the first one only
				EncodeHistory("feed", "me", "user", []Ev{
					srv("001", "me", "Welcome"), srv("005", "me", "EXTBAN=~,a=account,r=realname", "KEYTOKEN=dGVzdA==", "are supported by this server"),
				}),
				// our own nick kicked in another spelling
				EncodeHistory("feed", "me[]", "user", []Ev{
					srv("001", "me[]", "Welcome"), usr("me[]", "JOIN", "#c"), srv("353", "me[]", "=", "#c", "me[] @op"), usr("op", "KICK", "#c", "ME{}", "out"),
				}),
			}
		},
		Gen: genConformant,
		Run: runConformant,
	})
	Register(&Suite{Name: "state.conformant.long", Prop: []string{"C04"}, Gen: genConformantLong, Run: runConformant})
}
