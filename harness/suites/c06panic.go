package suites

import (
	"bytes"
	"context"
	"fmt"
	"math/rand"
	"os"
	"os/exec"
	"strings"
	"sync"
	"time"

	"gircverif/drive"

	"github.com/lrstanley/girc"
)

// ---- dispatch.panic: a panicking handler with a recover function, in a process of its own ----
//
// Case: kind, cmd.  kind: "fg" Add, "bg" AddBg, "tmp" AddTmp (cmd = the command they are
// registered for); "cw" CTCP.Set("*"), "cw+" the same with a harmless handler for the queried
// CTCP command as well, "cs" CTCP.Set(cmd) (cmd = the CTCP command queried); "cwb", "cwb+",
// "csb" the same with CTCP.SetBg (the handler runs in a goroutine of its own).  The handler
// always panics; a wildcard recorder is registered; RecoverFunc is installed; two events are
// run (for the CTCP kinds: two CTCP queries).  The statement: the panic does not stop later
// events from being delivered (and the recover function is told).  An unrecovered panic in a
// goroutine kills the process and a dispatcher that waits for ever never returns, so the case
// runs in a child process with a hard deadline: the death of the child is the verdict
// panic-not-isolated, its being killed at the deadline the verdict
// dispatcher-wedged-after-recovered-panic, with the case as replay.

const (
	panicStepLimit  = 15 * time.Second // one step inside the child
	panicChildLimit = 60 * time.Second // the whole child
)

func panicDirect(c Case) Result {
	if len(c) < 2 {
		return Result{Obs: "?args"}
	}
	kind, cmd := c[0], c[1]
	var mu sync.Mutex
	recovered, delivered, panicked := 0, 0, 0
	count := func() (int, int, int) { mu.Lock(); defer mu.Unlock(); return recovered, delivered, panicked }
	token := func() string { r, d, p := count(); return itoa(r) + "/" + itoa(d) + "/" + itoa(p) }
	cfg := drive.BaseConfig()
	cfg.PingDelay = -1
	cfg.RecoverFunc = func(_ *girc.Client, _ *girc.HandlerError) { mu.Lock(); recovered++; mu.Unlock() }
	s := drive.Start(cfg)
	cl := s.C
	isMark := func(e girc.Event) bool { return e.Source != nil && e.Source.Name == "c06other" }
	cl.Handlers.Add("*", func(_ *girc.Client, e girc.Event) {
		if isMark(e) {
			mu.Lock()
			delivered++
			mu.Unlock()
		}
	})
	boom := func() { mu.Lock(); panicked++; mu.Unlock(); panic("c06: handler panic") }
	src := &girc.Source{Name: "c06other", Ident: "u", Host: "h"}
	ev := &girc.Event{Source: src, Command: strings.ToUpper(cmd), Params: []string{"me", "x"}}
	if ev.Command == "*" {
		ev.Command = "FOO"
	}
	switch kind {
	case "bg":
		cl.Handlers.AddBg(cmd, func(_ *girc.Client, e girc.Event) {
			if isMark(e) {
				boom()
			}
		})
	case "tmp":
		cl.Handlers.AddTmp(cmd, 0, func(_ *girc.Client, e girc.Event) bool {
			if isMark(e) {
				boom()
			}
			return false
		})
	case "cw", "cw+", "cs", "cwb", "cwb+", "csb":
		ev = &girc.Event{Source: src, Command: "PRIVMSG", Params: []string{"me", "\x01" + strings.ToUpper(cmd) + " arg\x01"}}
		switch kind {
		case "cs":
			cl.CTCP.Set(cmd, func(_ *girc.Client, _ girc.CTCPEvent) { boom() })
		case "csb":
			cl.CTCP.SetBg(cmd, func(_ *girc.Client, _ girc.CTCPEvent) { boom() })
		case "cwb", "cwb+":
			cl.CTCP.SetBg("*", func(_ *girc.Client, _ girc.CTCPEvent) { boom() })
		default:
			cl.CTCP.Set("*", func(_ *girc.Client, _ girc.CTCPEvent) { boom() })
		}
		if kind == "cw+" || kind == "cwb+" {
			cl.CTCP.Set(cmd, func(_ *girc.Client, _ girc.CTCPEvent) {})
		}
	default:
		cl.Handlers.Add(cmd, func(_ *girc.Client, e girc.Event) {
			if isMark(e) {
				boom()
			}
		})
	}
	oracle := ""
	for round := 1; round <= 2 && oracle == ""; round++ {
		done := make(chan struct{})
		go func() { cl.RunHandlers(ev.Copy()); close(done) }()
		returned := false
		if !c06Await(func() bool {
			select {
			case <-done:
				returned = true
			default:
			}
			return returned
		}, token, panicStepLimit) {
			_, _, p := count()
			if p > 0 {
				oracle = fmt.Sprintf("dispatcher-wedged-after-recovered-panic: RunHandlers of event %d did not return after a handler had panicked", round)
			} else {
				oracle = fmt.Sprintf("handlers-never-finish: RunHandlers of event %d did not return", round)
			}
			break
		}
		// the panicking handler has run for this event and the recover function has been told
		if !c06Await(func() bool { r, d, p := count(); return p >= round && r >= p && d >= round }, token, panicStepLimit) {
			r, d, p := count()
			oracle = fmt.Sprintf("panic-not-isolated: after event %d the wildcard handler saw %d events, the panicking handler ran %d times, the recover function was called %d times", round, d, p, r)
		}
	}
	r, d, p := count()
	if oracle == "" && (d != 2 || p != 2 || r != 2) {
		oracle = fmt.Sprintf("panic-not-isolated: two events, the wildcard handler saw %d, the panicking handler ran %d times, the recover function was called %d times", d, p, r)
	}
	go s.Stop() // the verdict does not wait for the connection to wind down
	return Result{Obs: fmt.Sprintf("recovered=%d;delivered=%d;panicker=%d", r, d, p), Oracle: oracle, Sig: kind}
}

// runPanicCase runs the case in a child process (the same binary, `eval`) that is killed at
// panicChildLimit.
func runPanicCase(c Case) Result {
	if os.Getenv("VERIF_ISOLATED_CHILD") == "1" {
		return panicDirect(c)
	}
	exe, err := os.Executable()
	if err != nil {
		return panicDirect(c)
	}
	ctx, cancel := context.WithTimeout(context.Background(), panicChildLimit)
	defer cancel()
	cmd := exec.CommandContext(ctx, exe, "eval")
	cmd.Env = append(os.Environ(), "VERIF_ISOLATED_CHILD=1")
	cmd.Stdin = strings.NewReader("dispatch.panic\t" + EncodeCase(c) + "\n")
	var stdout, stderr bytes.Buffer
	cmd.Stdout, cmd.Stderr = &stdout, &stderr
	cmd.WaitDelay = 5 * time.Second
	runErr := cmd.Run()
	for _, ln := range strings.Split(stdout.String(), "\n") {
		if i := strings.Index(ln, "\t=>\t"); i >= 0 {
			f := strings.Split(ln[i+4:], "\t")
			for len(f) < 3 {
				f = append(f, "")
			}
			return Result{Obs: Unesc(f[0]), Oracle: Unesc(f[1]), Sig: f[2]}
		}
	}
	if ctx.Err() != nil {
		return Result{Obs: "WEDGED", Sig: "wedged", Oracle: fmt.Sprintf("dispatcher-wedged-after-recovered-panic: the process running the two events did not finish within %s and was killed", panicChildLimit)}
	}
	msg := strings.TrimSpace(stderr.String())
	if j := strings.Index(msg, "\n"); j >= 0 {
		first := msg[:j]
		if k := strings.Index(msg, "goroutine "); k >= 0 {
			rest := msg[k:]
			if l := strings.Index(rest, "\n"); l >= 0 {
				rest = rest[l+1:]
			}
			first += " @ " + strings.TrimSpace(strings.SplitN(rest, "\n", 2)[0])
		}
		msg = first
	}
	return Result{Obs: "DIED", Sig: "died", Oracle: fmt.Sprintf("panic-not-isolated: with a recover function installed the panic of the handler killed the process (%v): %s", runErr, msg)}
}

func init() {
	Register(&Suite{
		Name: "dispatch.panic",
		Prop: []string{"C06"},
		Fixed: func() []Case {
			var out []Case
			for _, k := range []string{"fg", "bg", "tmp"} {
				for _, cmd := range []string{"FOO", "foo", "*"} {
					out = append(out, Case{k, cmd})
				}
			}
			for _, k := range []string{"cw", "cw+", "cs", "cwb", "cwb+", "csb"} {
				for _, cmd := range []string{"C06Q", "version"} {
					out = append(out, Case{k, cmd})
				}
			}
			return out
		},
		Exhaustive: "every kind of handler (Add, AddBg, AddTmp on a command and on the wildcard; CTCP.Set and CTCP.SetBg on the wildcard with and without a handler for the queried command and on the command) panicking with a recover function installed",
		Gen: func(r *rand.Rand) Case {
			if r.Intn(2) == 0 {
				return Case{Pick(r, "cw", "cw+", "cs", "cwb", "cwb+", "csb"), Pick(r, "C06Q", "Ping", "TIME", "c06x")}
			}
			return Case{Pick(r, "fg", "bg", "tmp"), Pick(r, "FOO", "Foo", "bar", "*", "PRIVMSG", "notice")}
		},
		Run: runPanicCase,
	})
}
