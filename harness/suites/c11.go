package suites

import (
	"fmt"
	"math/rand"
	"strconv"
	"strings"
	"sync"
	"time"
	"unicode/utf8"

	"gircverif/drive"

	"github.com/lrstanley/girc"
)

// ---- C11: outgoing messages respect the line limit without losing content ----
//
// The oracles below are written from the statement of the property, not from the control
// flow of splitMessage / Event.split / Join / handleISUPPORT.

// splitSpecWords is the statement's reading of "the words of a text": the maximal runs
// of non-separator characters of the (valid UTF-8, edge-trimmed) text, separators being
// TAB, VT, FF, SPACE, NEL, NBSP and the line breaks CR / LF.
func splitSpecWords(text string) []string {
	t := strings.TrimSpace(strings.ToValidUTF8(text, "?"))
	return strings.FieldsFunc(t, func(r rune) bool {
		switch r {
		case '\t', '\v', '\f', ' ', '\n', '\r', 0x85, 0xA0:
			return true
		}
		return false
	})
}

// splitHasCodes: does the text carry one of the seven formatting control codes?
func splitHasCodes(text string) bool {
	return strings.ContainsAny(text, "\x01\x02\x03\x0f\x16\x1d\x1f")
}

// splitReconstruct is the executable form of C11_content: the SPACE separated tokens of
// the pieces, in order, are the words, an over-long word possibly cut into consecutive
// non-empty chunks; a word that continues ends its piece and its continuation starts the
// next one. Returns "" or what is wrong.
func splitReconstruct(ws []string, pieces []string) string {
	wi, off := 0, 0
	for pi, p := range pieces {
		if p == "" {
			return fmt.Sprintf("piece %d is empty", pi)
		}
		toks := strings.Split(p, " ")
		for ti, t := range toks {
			if t == "" {
				return fmt.Sprintf("piece %d has a leading, trailing or doubled separator", pi)
			}
			if wi >= len(ws) {
				return fmt.Sprintf("piece %d carries text %q beyond the original's last word", pi, t)
			}
			if ti > 0 && off != 0 {
				return fmt.Sprintf("piece %d: the continuation of word %d does not start the piece", pi, wi)
			}
			if !strings.HasPrefix(ws[wi][off:], t) {
				return fmt.Sprintf("piece %d token %d is %q, expected (a prefix of) %q", pi, ti, t, ws[wi][off:])
			}
			off += len(t)
			if off == len(ws[wi]) {
				wi, off = wi+1, 0
			} else if ti != len(toks)-1 {
				return fmt.Sprintf("piece %d: word %d is cut but the line goes on (words fused or text lost)", pi, wi)
			}
		}
	}
	if wi != len(ws) || off != 0 {
		return fmt.Sprintf("the pieces end at word %d/%d offset %d: text lost", wi, len(ws), off)
	}
	return ""
}

// splitPieceOracle checks pieces of text against width: byte bound (one character may
// exceed a width below utf8.UTFMax), UTF-8 validity, and for plain text the content.
func splitPieceOracle(class string, text string, width int, pieces []string) string {
	for i, p := range pieces {
		if len(p) > width && !(width < utf8.UTFMax && utf8.RuneCountInString(p) == 1) {
			return fmt.Sprintf("%s-too-long: piece %d has %d bytes, limit %d", class, i, len(p), width)
		}
		if !utf8.ValidString(p) {
			return fmt.Sprintf("%s-invalid-utf8: piece %d is cut inside a character", class, i)
		}
		if strings.ContainsAny(p, "\r\n") {
			return fmt.Sprintf("%s-newline: piece %d contains a line break", class, i)
		}
	}
	if !splitHasCodes(text) {
		if m := splitReconstruct(splitSpecWords(text), pieces); m != "" {
			return class + "-content: " + m
		}
	}
	return ""
}

// ---- generators ----

var splitScripts = []string{
	"abcdefghijklmnopqrstuvwxyzABCDEFGHIJKLMNOPQRSTUVWXYZ0123456789",
	"a-b+c_d=e|f/g~h:i;j,k.l!?%&()[]{}<>'\"@#$^*",
	"\u00e9\u00fc\u00f1\u00df\u00e5\u00f8",             // 2-byte Latin-1
	"\u043f\u0440\u0438\u0432\u0435\u0442",             // 2-byte Cyrillic
	"\u65e5\u672c\u8a9e\u4e2d\u6587\u2014\u2026\u2003", // 3-byte CJK, dashes, EM SPACE (not a separator)
	"\U0001F600\U0001F680\U0001F9D1\u200d\U0001F4BB",   // 4-byte emoji + ZWJ
	"e\u0301a\u0308n\u0303",                            // combining marks
}

var splitSpecials = []string{"12:30", "100%", "%zz", "ab%", "aaaa-bbbb", "time:now", "a+b", "x=y", ":)", ":colon", "-", "%", "c'est", "http://a.b/c?d=e&f=g#h", "https://example.com/a/very/long/path/", "user@host.example", "/path/to/file.txt", "C:\\dir\\file"}

var splitSeps = []string{" ", " ", " ", " ", " ", "  ", "\t", "\u00a0", "\u0085", "\v", "\f", "\n", "\r\n", " \n ", "\n\n", "\r", " \t "}

var splitCodes = []string{"\x02", "\x1d", "\x1f", "\x16", "\x0f", "\x03", "\x0304", "\x034", "\x034,12", "\x0399,1", "\x0312,", "\x03,5", "\x01", "\x0301,02"}

var splitInvalid = []string{"\xff", "\xc3", "\xe2\x82", "\xed\xa0\x80", "\xf0\x9f", "\x80", "\xc0\xaf", "\xf4\x90\x80\x80"}

// splitWord makes a word of about n bytes from one script.
func splitWord(r *rand.Rand, n int) string {
	if n <= 0 {
		n = 1
	}
	if r.Intn(8) == 0 {
		return Pick(r, splitSpecials...)
	}
	if r.Intn(12) == 0 {
		w := "https://example.com/"
		for len(w) < n {
			w += string("abcdef0123456789/-_.%?=&"[r.Intn(24)])
		}
		return w
	}
	script := []rune(splitScripts[r.Intn(len(splitScripts))])
	if r.Intn(3) == 0 {
		script = []rune(splitScripts[0])
	}
	var sb strings.Builder
	for sb.Len() < n {
		sb.WriteRune(script[r.Intn(len(script))])
	}
	return sb.String()
}

func splitWordLen(r *rand.Rand, w int) int {
	w = splitClamp(w, 1, 700)
	switch r.Intn(10) {
	case 0, 1, 2, 3:
		return 1 + r.Intn(10)
	case 4:
		return w - 2 + r.Intn(5)
	case 5:
		return w/2 - 1 + r.Intn(3)
	case 6:
		return 2*w - 1 + r.Intn(3)
	case 7:
		if w <= 120 {
			return 5*w - 2 + r.Intn(5)
		}
		return w + 1 + r.Intn(w)
	default:
		return 1 + r.Intn(w+3)
	}
}

// splitText: mode 0 plain, 1 with control codes, 2 with invalid UTF-8, 3 raw bytes.
func splitText(r *rand.Rand, w int, mode int) string {
	if mode == 3 {
		return RandBytes(r, r.Intn(3*splitClamp(w, 4, 200)), "")
	}
	budget := 2*splitClamp(w, 1, 700) + r.Intn(4*splitClamp(w, 1, 400)+20)
	var sb strings.Builder
	if r.Intn(6) == 0 {
		sb.WriteString(Pick(r, " ", "\n", "\u3000", "\t ", "\u00a0", "\u2003"))
	}
	nwords := 1 + r.Intn(14)
	for i := 0; i < nwords && sb.Len() < budget; i++ {
		if i > 0 {
			sb.WriteString(splitSeps[r.Intn(len(splitSeps))])
		}
		word := splitWord(r, splitWordLen(r, w))
		if mode == 1 && r.Intn(2) == 0 {
			k := 1 + r.Intn(3)
			for j := 0; j < k; j++ {
				pos := r.Intn(len(word) + 1)
				for pos < len(word) && !utf8.RuneStart(word[pos]) {
					pos++
				}
				word = word[:pos] + splitCodes[r.Intn(len(splitCodes))] + word[pos:]
			}
		}
		if mode == 2 && r.Intn(2) == 0 {
			pos := r.Intn(len(word) + 1)
			word = word[:pos] + splitInvalid[r.Intn(len(splitInvalid))] + word[pos:]
		}
		sb.WriteString(word)
	}
	if r.Intn(6) == 0 {
		sb.WriteString(Pick(r, " ", "\n", "\r\n", "\u3000", "\u2028", "  "))
	}
	if r.Intn(40) == 0 {
		return strings.Repeat(Pick(r, " ", "\t", "\n", "\u00a0 "), 1+r.Intn(2*splitClamp(w, 1, 300)))
	}
	return sb.String()
}

func splitClamp(x, lo, hi int) int {
	if x < lo {
		return lo
	}
	if x > hi {
		return hi
	}
	return x
}

func splitWidth(r *rand.Rand) int {
	switch r.Intn(20) {
	case 0:
		return -r.Intn(200)
	case 1:
		return 1000 + r.Intn(4000)
	case 2, 3, 4, 5:
		return 1 + r.Intn(12)
	case 6, 7, 8, 9, 10, 11:
		return 13 + r.Intn(68)
	default:
		return 81 + r.Intn(520)
	}
}

func splitMode(r *rand.Rand) int {
	switch x := r.Intn(20); {
	case x < 11:
		return 0
	case x < 16:
		return 1
	case x < 19:
		return 2
	default:
		return 3
	}
}

func splitTextClass(text string) string {
	switch {
	case !utf8.ValidString(text):
		return "invalid"
	case splitHasCodes(text):
		return "codes"
	}
	for i := 0; i < len(text); i++ {
		if text[i] >= 0x80 {
			return "multibyte"
		}
	}
	return "ascii"
}

func splitCountClass(n int) string {
	switch {
	case n == 0:
		return "0"
	case n == 1:
		return "1"
	case n <= 3:
		return "2-3"
	default:
		return "4+"
	}
}

func splitWidthClass(w int) string {
	switch {
	case w <= 0:
		return "w<=0"
	case w < 4:
		return "w<4"
	case w <= 12:
		return "w<=12"
	case w <= 80:
		return "w<=80"
	default:
		return "w>80"
	}
}

func splitCounted(l []string) string { return strconv.Itoa(len(l)) + ":" + HexList(l) }

func splitMessageFixed() []Case {
	texts := []string{
		"", " ", "    ", "\n", "a", "ab%", "ab% cd", "aaaa-bbbb", "time:now", "aaaa bbbb cccc", "abc 100", "12:30 100% %zz",
		"hello world this is a test", "a  b\tc\u00a0d\u0085e\vf\fg", "line one\nline two\r\nline three", "\nfoo", "foo\n", "a\n\n\nb", "a \n b",
		"https://example.com/a/very/long/path/with/many/segments?and=query&more=1", "\u65e5\u672c\u8a9e\u306e\u30c6\u30ad\u30b9\u30c8 \u3067\u3059",
		"\U0001F600\U0001F600\U0001F600 \U0001F680", "\u00e9\u00e9\u00e9\u00e9\u00e9\u00e9\u00e9\u00e9", "\u3000padded\u3000", "\u2003in\u2003word\u2003",
		"\x02bold\x02 plain \x0304red text\x03 more", "\x0304,12colored words go here and on", "\x02\x1d\x1f\x16 all on \x0f off", "\x03", "\x0399,1z \x031x \x0345",
		"bad\xffutf8 \xc3 here\xe2\x82", "\xff\xff\xff", strings.Repeat(" ", 40), strings.Repeat("x", 50), strings.Repeat("\u00e9", 30) + " tail",
		"\x01ACTION waves\x01", "a b c d e f g h i j k l m n o p", "\xc2", "\xc2\x85", "x\xc2\xa0", "a\r\rb",
	}
	var out []Case
	for _, t := range texts {
		for w := -1; w <= 24; w++ {
			out = append(out, Case{t, strconv.Itoa(w)})
		}
		out = append(out, Case{t, "80"}, Case{t, "395"}, Case{t, "-50"})
	}
	return out
}

func init() {
	Register(&Suite{
		Name:  "split.message",
		Prop:  []string{"C11"},
		Fixed: splitMessageFixed,
		Gen: func(r *rand.Rand) Case {
			w := splitWidth(r)
			return Case{splitText(r, w, splitMode(r)), strconv.Itoa(w)}
		},
		Run: func(c Case) Result {
			if len(c) < 2 {
				return Result{Obs: "?bad-args"}
			}
			w, _ := strconv.Atoi(c[1])
			pieces := girc.VerifSplitMessage(c[0], w)
			res := Result{Obs: splitCounted(pieces)}
			ws := splitSpecWords(c[0])
			chunked := "fit"
			for _, x := range ws {
				if len(x) > w {
					chunked = "longword"
					break
				}
			}
			res.Sig = splitWidthClass(w) + "/" + splitTextClass(c[0]) + "/" + splitCountClass(len(pieces)) + "/" + chunked
			res.Oracle = splitPieceOracle("split", c[0], w, pieces)
			return res
		},
	})
}

// ---- split.event: Event.split through VerifEventSplit ----

// splitSpecCTCP is the statement's reading of "is a CTCP": exactly two parameters, the
// last one \x01 TAG [SPACE text] \x01 with TAG a non-empty run of A-Z / 0-9.
func splitSpecCTCP(cmd string, params []string) (ok bool, tag, text string) {
	if (cmd != "PRIVMSG" && cmd != "NOTICE") || len(params) != 2 {
		return false, "", ""
	}
	p := params[1]
	if len(p) < 3 || p[0] != 1 || p[len(p)-1] != 1 {
		return false, "", ""
	}
	body := p[1 : len(p)-1]
	tag = body
	if i := strings.IndexByte(body, ' '); i >= 0 {
		tag, text = body[:i], body[i+1:]
	}
	if tag == "" {
		return false, "", ""
	}
	for i := 0; i < len(tag); i++ {
		if !((tag[i] >= 'A' && tag[i] <= 'Z') || (tag[i] >= '0' && tag[i] <= '9')) {
			return false, "", ""
		}
	}
	return true, tag, text
}

// splitWireLen is the length of "COMMAND p1 ... [:]pn" (+ tag overhead): what the
// statement bounds. Independent of Event.LenOpts.
func splitWireLen(tagov int, cmd string, params []string) int {
	n := tagov + len(cmd)
	for i, p := range params {
		n += 1 + len(p)
		if i == len(params)-1 && (p == "" || p[0] == ':' || strings.Contains(p, " ")) {
			n++
		}
	}
	return n
}

func splitTags(n int) girc.Tags {
	if n < 2 {
		return nil
	}
	return girc.Tags{strings.Repeat("k", n-2): ""}
}

func splitTagOv(t girc.Tags) int {
	if len(t) == 0 {
		return 0
	}
	return t.Len() + 1
}

func splitShowSource(s *girc.Source) string {
	if s == nil {
		return "-"
	}
	return Hex(s.Name) + "!" + Hex(s.Ident) + "@" + Hex(s.Host)
}

func showSplitEvent(e *girc.Event) string {
	return Hex(e.Command) + "/" + strconv.Itoa(len(e.Params)) + "/" + HexList(e.Params) + "/" + splitShowSource(e.Source) + "/" + strconv.Itoa(splitTagOv(e.Tags))
}

// splitEventOracle evaluates the statement on the pieces of one event.
func splitEventOracle(tagov int, src *girc.Source, cmd string, params []string, max int, pieces []*girc.Event) string {
	same := func(p *girc.Event) bool {
		return p.Command == cmd && sameStrings(p.Params, params)
	}
	if (cmd != "PRIVMSG" && cmd != "NOTICE") || len(params) == 0 {
		if len(pieces) != 1 || !same(pieces[0]) {
			return "event-other-changed: an event that is not a PRIVMSG/NOTICE with text was altered"
		}
		return ""
	}
	n := len(params)
	full := splitWireLen(tagov, cmd, params)
	isCTCP, tag, text := splitSpecCTCP(cmd, params)
	head := splitWireLen(tagov, cmd, append(append([]string{}, params[:n-1]...), "")) // "CMD target :"
	wrap := 0
	if isCTCP {
		wrap = len(tag) + 3 // \x01 TAG SPACE ... \x01
	} else {
		text = params[n-1]
	}
	unsplit := len(pieces) == 1 && same(pieces[0])
	if unsplit && (full <= max || head+wrap+1 > max) {
		// left alone: fine when it fits, or when command and target (and the CTCP frame)
		// leave no room for text at all
		return ""
	}
	var payloads []string
	for i, p := range pieces {
		if p.Command != cmd || len(p.Params) != n || !sameStrings(p.Params[:n-1], params[:n-1]) {
			return fmt.Sprintf("event-shape: piece %d does not keep command and target", i)
		}
		if (p.Source == nil) != (src == nil) || (src != nil && *p.Source != *src) || splitTagOv(p.Tags) != tagov {
			return fmt.Sprintf("event-shape: piece %d does not keep source and tags", i)
		}
		last := p.Params[n-1]
		if isCTCP {
			pre := "\x01" + tag + " "
			if !strings.HasPrefix(last, pre) || !strings.HasSuffix(last, "\x01") || len(last) < len(pre)+1 {
				return fmt.Sprintf("event-ctcp: piece %d is not wrapped as CTCP %s", i, tag)
			}
			last = last[len(pre) : len(last)-1]
		} else if ok, _, _ := splitSpecCTCP(cmd, p.Params); ok && !splitHasCodes(text) {
			return fmt.Sprintf("event-ctcp: piece %d of a plain message reads as a CTCP", i)
		}
		payloads = append(payloads, last)
		if l := splitWireLen(tagov, cmd, p.Params); l > max && !(max-head-wrap < utf8.UTFMax && utf8.RuneCountInString(last) == 1) {
			if unsplit {
				return fmt.Sprintf("event-unsplit: %d bytes against a limit of %d and room for %d bytes of text", full, max, max-head-wrap)
			}
			return fmt.Sprintf("event-too-long: piece %d is %d bytes, limit %d", i, l, max)
		}
	}
	if m := splitPieceOracle("event", text, 1<<30, payloads); m != "" {
		return m
	}
	return ""
}

func splitTarget(r *rand.Rand) string {
	switch r.Intn(10) {
	case 0:
		return "#" + splitWord(r, 1+r.Intn(40))
	case 1:
		return "nick" + strconv.Itoa(r.Intn(100))
	case 2:
		return "#" + strings.Repeat("c", 40+r.Intn(200))
	default:
		return Pick(r, "#chan", "#go-nuts", "someone", "&local", "#a")
	}
}

// splitLimitFor draws a limit the way a server produces one: LINELEN - 2 - (4+n+u+h).
func splitLimitFor(r *rand.Rand) int {
	l := 512
	switch r.Intn(6) {
	case 0:
		l = 1 + r.Intn(8192)
	case 1:
		l = splitPickInt(r, 1024, 2048, 4096, 8192, 200, 300)
	}
	nick, user, host := 30, 18, 63
	if r.Intn(3) == 0 {
		nick = 1 + r.Intn(64)
	}
	if r.Intn(4) == 0 {
		user = 18 + r.Intn(30)
	}
	if r.Intn(4) == 0 {
		host = 63 + r.Intn(200)
	}
	return l - 2 - (4 + nick + user + host)
}

func splitPickInt(r *rand.Rand, xs ...int) int { return xs[r.Intn(len(xs))] }

func splitEventCase(tagov int, src *girc.Source, cmd string, max int, params []string) Case {
	c := Case{strconv.Itoa(tagov), "-", "", "", "", cmd, strconv.Itoa(max)}
	if src != nil {
		c[1], c[2], c[3], c[4] = "s", src.Name, src.Ident, src.Host
	}
	return append(c, params...)
}

func splitEventFixed() []Case {
	var out []Case
	long := strings.Repeat("word ", 120)
	for _, max := range []int{395, 100, 30, 22, 21, 20, 19, 18, 17, 16, 15, 14, 10, 0, -5} {
		out = append(out,
			splitEventCase(0, nil, "PRIVMSG", max, []string{"#chan", long}),
			splitEventCase(0, nil, "NOTICE", max, []string{"nick", "short"}),
			splitEventCase(0, nil, "PRIVMSG", max, []string{"#chan", "\x01ACTION " + long + "\x01"}),
			splitEventCase(0, nil, "PRIVMSG", max, []string{"#chan", "\x01VERSION\x01"}),
			splitEventCase(0, nil, "PRIVMSG", max, []string{"#chan", "\x01ACTION " + strings.Repeat(" ", 300) + "\x01"}),
			splitEventCase(0, nil, "PRIVMSG", max, []string{long}),
			splitEventCase(0, nil, "PRIVMSG", max, []string{"a", "b", long}),
			splitEventCase(0, nil, "PRIVMSG", max, nil),
			splitEventCase(0, nil, "JOIN", max, []string{strings.Repeat("#c,", 200)}),
			splitEventCase(12, &girc.Source{Name: "me", Ident: "u", Host: "h"}, "PRIVMSG", max, []string{"#chan", long}),
			splitEventCase(0, nil, "PRIVMSG", max, []string{"#chan", ":" + long}),
			splitEventCase(0, nil, "PRIVMSG", max, []string{"#chan", strings.Repeat("\u65e5\u672c", 100)}),
		)
	}
	// one character that is wider than the room left (1..3 bytes): sent alone, over the limit
	for max := 10; max <= 16; max++ {
		out = append(out,
			splitEventCase(0, nil, "NOTICE", max, []string{"#a", "\u6587"}),
			splitEventCase(0, nil, "NOTICE", max, []string{"#a", "\u6587\u6587 \u6587"}),
			splitEventCase(0, nil, "NOTICE", max, []string{"#a", "\U0001F600"}),
			splitEventCase(0, nil, "PRIVMSG", max+12, []string{"#a", "\x01ACTION \u6587\x01"}),
		)
	}
	return out
}

func init() {
	Register(&Suite{
		Name:  "split.event",
		Prop:  []string{"C11"},
		Fixed: splitEventFixed,
		Gen: func(r *rand.Rand) Case {
			max := splitLimitFor(r)
			if r.Intn(8) == 0 {
				max = r.Intn(120) - 10
			}
			cmd := Pick(r, "PRIVMSG", "PRIVMSG", "PRIVMSG", "NOTICE", "NOTICE", "TOPIC", "privmsg")
			target := splitTarget(r)
			w := max - len(cmd) - len(target) - 3
			if r.Intn(3) == 0 {
				w = splitClamp(w, 1, 60) // several short lines instead of one long one
				max = w + len(cmd) + len(target) + 3
			}
			text := splitText(r, splitClamp(w, 1, 500), splitMode(r))
			if r.Intn(12) == 0 {
				// hardly any room: 0..5 bytes for text, short multi-byte words
				w = r.Intn(6)
				max = w + len(cmd) + len(target) + 3
				text = splitText(r, 3, 0)
			}
			switch r.Intn(10) {
			case 0, 1, 2:
				tag := Pick(r, "ACTION", "ACTION", "PING", "VERSION", "X1", "action", "A-B")
				text = "\x01" + tag + " " + strings.ReplaceAll(text, "\x01", "") + "\x01"
			case 3:
				text = "\x01" + Pick(r, "VERSION", "TIME", "") + "\x01"
			}
			params := []string{target, text}
			switch r.Intn(16) {
			case 0:
				params = []string{text}
			case 1:
				params = []string{target, "extra", text}
			case 2:
				params = nil
			}
			tagov := 0
			if r.Intn(8) == 0 {
				tagov = 2 + r.Intn(60)
			}
			var src *girc.Source
			if r.Intn(6) == 0 {
				src = &girc.Source{Name: "me", Ident: Pick(r, "", "ident"), Host: Pick(r, "", "host.example")}
			}
			return splitEventCase(tagov, src, cmd, max, params)
		},
		Run: func(c Case) Result {
			if len(c) < 7 {
				return Result{Obs: "?bad-args"}
			}
			tagov, _ := strconv.Atoi(c[0])
			if tagov == 1 {
				tagov = 0
			}
			max, _ := strconv.Atoi(c[6])
			params := append([]string{}, c[7:]...)
			e := &girc.Event{Command: c[5], Params: append([]string(nil), params...), Tags: splitTags(tagov)}
			if strings.HasPrefix(c[1], "s") {
				e.Source = &girc.Source{Name: c[2], Ident: c[3], Host: c[4]}
			}
			src := e.Source.Copy()
			pieces := girc.VerifEventSplit(e, max)
			shown := make([]string, len(pieces))
			for i, p := range pieces {
				shown[i] = showSplitEvent(p)
			}
			res := Result{Obs: strconv.Itoa(len(pieces)) + ":" + strings.Join(shown, "|")}
			isCTCP, _, _ := splitSpecCTCP(c[5], params)
			kind := "plain"
			if isCTCP {
				kind = "ctcp"
			}
			if c[5] != "PRIVMSG" && c[5] != "NOTICE" {
				kind = "other"
			}
			last := ""
			if len(params) > 0 {
				last = params[len(params)-1]
			}
			res.Sig = kind + "/" + splitTextClass(last) + "/" + splitCountClass(len(pieces))
			if tagov > 0 {
				res.Sig += "/tags"
			}
			res.Oracle = splitEventOracle(tagov, src, c[5], params, max, pieces)
			return res
		},
	})
}

// ---- split.limit: ISUPPORT sequences -> limits ----

var splitNumVals = []string{"", "abc", "-5", "0", "1", "9", "30", "31", "50", "64", "100", "200", "255", "512", "1024", "2048", "4096", "8192", "99999999999999999999", "+40", "12x", " 7"}

func splitNum(r *rand.Rand, lo, hi int) string {
	if r.Intn(6) == 0 {
		return splitNumVals[r.Intn(len(splitNumVals))]
	}
	return strconv.Itoa(lo + r.Intn(hi-lo+1))
}

// splitISupportLine draws the parameters of one RPL_ISUPPORT line.
func splitISupportLine(r *rand.Rand) []string {
	ps := []string{"me"}
	for k := r.Intn(6); k > 0; k-- {
		switch r.Intn(12) {
		case 0, 1:
			ps = append(ps, "LINELEN="+splitNum(r, 1, 8192))
		case 2:
			ps = append(ps, "LINELEN="+Pick(r, "512", "1024", "2048", "4096", "8192", "200", "150", "116", "117", "118"))
		case 3, 4:
			ps = append(ps, "NICKLEN="+splitNum(r, 1, 100))
		case 5:
			ps = append(ps, "MAXNICKLEN="+splitNum(r, 1, 100))
		case 6:
			ps = append(ps, "USERLEN="+splitNum(r, 1, 100))
		case 7:
			ps = append(ps, "HOSTLEN="+splitNum(r, 1, 400))
		case 8:
			ps = append(ps, Pick(r, "LINELEN", "NICKLEN", "LINELEN=", "=5", "HOSTLEN=", "linelen=100"))
		default:
			ps = append(ps, Pick(r, "CHANTYPES=#&", "NETWORK=Test", "CASEMAPPING=rfc1459", "EXCEPTS", "PREFIX=(ov)@+", "CHANLIMIT=#:120"))
		}
	}
	switch r.Intn(14) {
	case 0:
		ps = append(ps, "are supported on this network")
	case 1:
		return ps[:1]
	case 2:
		ps = append(ps, "this server")
	default:
		ps = append(ps, "are supported by this server")
	}
	return ps
}

func splitLinesArgs(lines [][]string) []string {
	out := []string{strconv.Itoa(len(lines))}
	for _, l := range lines {
		out = append(out, strconv.Itoa(len(l)))
		out = append(out, l...)
	}
	return out
}

// splitTakeLines is the inverse of splitLinesArgs; rest is what follows the lines.
func splitTakeLines(args []string) (lines [][]string, rest []string) {
	if len(args) == 0 {
		return nil, nil
	}
	n, _ := strconv.Atoi(args[0])
	rest = args[1:]
	for i := 0; i < n; i++ {
		if len(rest) == 0 {
			return lines, nil
		}
		k, _ := strconv.Atoi(rest[0])
		rest = rest[1:]
		if k < 0 {
			k = 0
		}
		if k > len(rest) {
			k = len(rest)
		}
		lines = append(lines, append([]string(nil), rest[:k]...))
		rest = rest[k:]
	}
	return lines, rest
}

// splitConnArgs encodes the 005 lines of a previous connection of the same client (none:
// first connection) and those of the current one.
func splitConnArgs(prev, cur [][]string) []string {
	return append(splitLinesArgs(prev), splitLinesArgs(cur)...)
}

func splitTakeConn(args []string) (prev, cur [][]string, rest []string) {
	prev, rest = splitTakeLines(args)
	cur, rest = splitTakeLines(rest)
	return prev, cur, rest
}

// splitPrevLines: what an earlier server of the same client object may have advertised
// (extended line length, other name lengths), so that limits learnt there would show if
// they survived the reconnect.
func splitPrevLines(r *rand.Rand) [][]string {
	t := "are supported by this server"
	switch r.Intn(5) {
	case 0:
		return [][]string{{"me", "LINELEN=2048", t}}
	case 1:
		return [][]string{{"me", "LINELEN=" + strconv.Itoa(150+r.Intn(8000)), "NICKLEN=" + strconv.Itoa(1+r.Intn(60)), t}}
	case 2:
		return [][]string{{"me", "NICKLEN=" + strconv.Itoa(31+r.Intn(60)), "HOSTLEN=" + strconv.Itoa(64+r.Intn(200)), "USERLEN=" + strconv.Itoa(19+r.Intn(30)), t}}
	case 3:
		return [][]string{{"me", "LINELEN=" + strconv.Itoa(120+r.Intn(120)), t}, splitISupportLine(r)}
	default:
		var lines [][]string
		for k := 1 + r.Intn(3); k > 0; k-- {
			lines = append(lines, splitISupportLine(r))
		}
		return lines
	}
}

// splitFreshLimits: the limits of a brand-new client that is told only `cur`: what the
// statement derives MaxEventLength from ("the server's advertised line length ..." — this
// server's, not an earlier one's).
func splitFreshLimits(cur [][]string) (line, prefix, mel int) {
	cl := girc.New(drive.BaseConfig())
	splitFeedLines(cl, cur)
	line, prefix = cl.VerifLimits()
	return line, prefix, cl.MaxEventLength()
}

func splitFeedLines(c *girc.Client, lines [][]string) {
	for _, l := range lines {
		c.RunHandlers(&girc.Event{Command: "005", Params: append([]string(nil), l...), Timestamp: time.Now()})
	}
}

// splitLimitOracle: the statement's formula, evaluated on the options the client holds.
func splitLimitOracle(c *girc.Client) string {
	line, prefix := c.VerifLimits()
	mel := c.MaxEventLength()
	if mel != line-prefix {
		return fmt.Sprintf("limit-mel: MaxEventLength %d is not line %d - prefix %d", mel, line, prefix)
	}
	keys, vals := c.VerifServerOptions()
	opts := map[string]string{}
	for i := range keys {
		opts[keys[i]] = vals[i]
	}
	num := func(k string) (int, bool) {
		v, ok := opts[k]
		if !ok {
			return 0, false
		}
		n, err := strconv.Atoi(v)
		return n, err == nil
	}
	adv := 512 // advertised line length including CR LF
	if l, ok := num("LINELEN"); ok {
		adv = l
	} else if _, present := opts["LINELEN"]; present {
		return "" // advertised but not a number: the statement makes no claim
	}
	if line != adv-2 {
		return fmt.Sprintf("limit-linelen: advertised line length %d but %d bytes allowed (want %d)", adv, line, adv-2)
	}
	nick, user, host := 30, 18, 63
	if n, ok := num("NICKLEN"); ok {
		nick = n
	}
	if n, ok := num("MAXNICKLEN"); ok && n > nick {
		nick = n
	}
	if n, ok := num("USERLEN"); ok && n > user {
		user = n
	}
	if n, ok := num("HOSTLEN"); ok && n > host {
		host = n
	}
	p := 4 + nick + user + host
	guard := adv
	if _, present := opts["LINELEN"]; !present {
		guard = 510
	}
	if p < guard && prefix != p {
		return fmt.Sprintf("limit-prefix: prefix estimate %d, NICKLEN/USERLEN/HOSTLEN give %d", prefix, p)
	}
	return ""
}

func init() {
	Register(&Suite{
		Name: "split.limit",
		Prop: []string{"C11"},
		Fixed: func() []Case {
			mk := func(lines ...[]string) Case { return Case(splitConnArgs(nil, lines)) }
			re := func(prev [][]string, cur ...[]string) Case { return Case(splitConnArgs(prev, cur)) }
			t := "are supported by this server"
			ext := [][]string{{"me", "LINELEN=2048", t}}
			names := [][]string{{"me", "NICKLEN=60", "USERLEN=40", "HOSTLEN=200", t}}
			return []Case{
				// reconnects: what an earlier server advertised must not survive
				re(ext), re(names), re(ext, []string{"me", "NICKLEN=20", t}), re(names, []string{"me", "LINELEN=1024", t}),
				re(ext, []string{"me", "LINELEN=100", "NICKLEN=50", t}), // give-up path of this connection
				re([][]string{{"me", "LINELEN=200", "NICKLEN=9", t}}, []string{"me", "CHANTYPES=#", t}),
				re(ext, []string{"me", "LINELEN=2048", t}),
				mk(),
				mk([]string{"me", "LINELEN=1024", t}),
				mk([]string{"me", "LINELEN=512", t}),
				mk([]string{"me", "LINELEN=8192", "NICKLEN=31", "USERLEN=10", "HOSTLEN=64", t}),
				mk([]string{"me", "NICKLEN=50", t}, []string{"me", "LINELEN=100", t}),
				mk([]string{"me", "LINELEN=100", "NICKLEN=50", t}),
				mk([]string{"me", "LINELEN=200", t}, []string{"me", "LINELEN=abc", t}),
				mk([]string{"me", "LINELEN=116", t}), mk([]string{"me", "LINELEN=117", t}), mk([]string{"me", "LINELEN=118", t}),
				mk([]string{"me", "NICKLEN=9", "MAXNICKLEN=40", t}),
				mk([]string{"me", "LINELEN=1024", "not the suffix"}),
				mk([]string{"LINELEN=1024 this server"}),
				mk([]string{"me", "HOSTLEN=500", t}),
				mk([]string{"me", "LINELEN=-9", t}),
			}
		},
		Gen: func(r *rand.Rand) Case {
			var prev, lines [][]string
			if r.Intn(3) == 0 {
				prev = splitPrevLines(r)
			}
			for k := r.Intn(5); k > 0; k-- {
				lines = append(lines, splitISupportLine(r))
			}
			return Case(splitConnArgs(prev, lines))
		},
		Run: func(c Case) (res Result) {
			// one client object: an earlier connection (its 005 lines), then what
			// internalConnect does before every connection, then this connection's lines
			prev, lines, _ := splitTakeConn(c)
			cfg := drive.BaseConfig()
			cl := girc.New(cfg)
			splitFeedLines(cl, prev)
			cl.VerifResetState()
			splitFeedLines(cl, lines)
			line, prefix := cl.VerifLimits()
			res = Result{Obs: fmt.Sprintf("%d,%d,%d", line, prefix, cl.MaxEventLength())}
			defer func() {
				if len(prev) > 0 {
					res.Sig += "/reconnect"
				}
				// what an earlier server said must be gone: same limits as a brand-new client
				// that is told this connection's lines only
				if fl, fp, fm := splitFreshLimits(lines); fl != line || fp != prefix || fm != cl.MaxEventLength() {
					res.Oracle = fmt.Sprintf("limit-stale: after a reconnect the limits are line %d, prefix %d (MaxEventLength %d); this server's 005 lines alone give %d, %d (%d)", line, prefix, cl.MaxEventLength(), fl, fp, fm)
				}
			}()
			switch {
			case line == 510 && prefix == 115:
				res.Sig = "default"
			case line != 510 && prefix != 115:
				res.Sig = "both"
			case line != 510:
				res.Sig = "line"
			default:
				res.Sig = "prefix"
			}
			if line-prefix <= 0 {
				res.Sig += "/nonpositive"
			}
			res.Oracle = splitLimitOracle(cl)
			return res
		},
	})
}

// ---- split.batches / split.send: the connected route ----

type splitSess struct {
	s *drive.Session
	n int
}

var (
	splitSessMu  sync.Mutex
	splitSessVal [2]*splitSess
)

// splitSession: the shared connected client, without or with Config.GlobalFormat.
func splitSession(gf bool) *splitSess {
	splitSessMu.Lock()
	defer splitSessMu.Unlock()
	i := 0
	if gf {
		i = 1
	}
	if splitSessVal[i] == nil {
		cfg := drive.BaseConfig()
		cfg.PingDelay = -1
		cfg.GlobalFormat = gf
		splitSessVal[i] = &splitSess{s: drive.Start(cfg)}
	}
	return splitSessVal[i]
}

// sync sends a marker through the client's own send queue and returns what the client
// wrote since mark up to the marker (without CRLF).
func (x *splitSess) sync(mark int) []string {
	x.n++
	tok := "VSPLIT " + strconv.Itoa(x.n)
	x.s.C.Send(&girc.Event{Command: "VSPLIT", Params: []string{strconv.Itoa(x.n)}})
	deadline := time.Now().Add(10 * time.Second)
	for {
		lines := x.s.Since(mark)
		for i, l := range lines {
			if l == tok+"\r\n" {
				out := make([]string, 0, i)
				for _, p := range lines[:i] {
					out = append(out, strings.TrimSuffix(p, "\r\n"))
				}
				return out
			}
		}
		if time.Now().After(deadline) {
			return append(lines, "?sync-timeout")
		}
		time.Sleep(20 * time.Microsecond)
	}
}

// splitSimpleName: a parameter that reaches the wire as itself.
func splitSimpleName(s string) bool {
	return s != "" && s[0] != ':' && utf8.ValidString(s) && !strings.ContainsAny(s, " ,\r\n\x00")
}

// splitWireOracle evaluates the statement on the lines one Cmd call produced.
func splitWireOracle(op string, gf bool, mel int, rest []string, lines []string) string {
	switch op {
	case "join", "list":
		cmd := strings.ToUpper(op)
		for _, ch := range rest {
			if !splitSimpleName(ch) {
				return ""
			}
		}
		if len(rest) == 0 {
			if op == "list" && (len(lines) != 1 || lines[0] != "LIST") {
				return "batch-list-all: List() did not send a bare LIST"
			}
			if op == "join" && len(lines) != 0 {
				return "batch-join-none: Join() sent something"
			}
			return ""
		}
		var got []string
		for i, l := range lines {
			if !strings.HasPrefix(l, cmd+" ") || len(l) == len(cmd)+1 {
				return fmt.Sprintf("batch-shape: line %d is %q", i, l)
			}
			names := strings.Split(l[len(cmd)+1:], ",")
			if len(l) > mel && len(names) > 1 {
				return fmt.Sprintf("batch-too-long: line %d has %d bytes, limit %d, and holds %d channels", i, len(l), mel, len(names))
			}
			got = append(got, names...)
		}
		if !sameStrings(got, rest) {
			return fmt.Sprintf("batch-channels: %d channels given, the lines carry %d (skipped, repeated or reordered)", len(rest), len(got))
		}
	case "msg", "notice", "action":
		if len(rest) < 2 || !splitSimpleName(rest[0]) {
			return ""
		}
		cmd := "PRIVMSG"
		if op == "notice" {
			cmd = "NOTICE"
		}
		// the last parameter as Send splits it: Action's frame, then (GlobalFormat) Fmt
		target, last := rest[0], rest[1]
		if op == "action" {
			last = "\x01ACTION " + last + "\x01"
		}
		if gf && last != "" {
			last = girc.Fmt(last)
		}
		// every piece is CTCP-wrapped (same tag) iff the message, as formatted, is a CTCP
		text, wrapL, wrapR := last, "", ""
		if ok, tag, inner := splitSpecCTCP(cmd, []string{target, last}); ok {
			if !strings.Contains(last[1:], " ") {
				return "" // a bare tag: nothing to split
			}
			text, wrapL, wrapR = inner, "\x01"+tag+" ", "\x01"
		}
		head := cmd + " " + target + " "
		room := mel - len(head) - 1 - len(wrapL) - len(wrapR)
		full := splitWireLen(0, cmd, []string{target, last})
		if len(lines) == 1 && full <= mel {
			return "" // sent as it is
		}
		if len(lines) == 1 && room < 1 {
			return "" // command and target (and the CTCP frame) leave no room for text
		}
		var payloads []string
		for i, l := range lines {
			if !strings.HasPrefix(l, head) {
				return fmt.Sprintf("send-shape: line %d does not keep command and target", i)
			}
			p := strings.TrimPrefix(l[len(head):], ":")
			if !strings.HasPrefix(p, wrapL) || !strings.HasSuffix(p, wrapR) || len(p) < len(wrapL)+len(wrapR) {
				return fmt.Sprintf("send-ctcp: line %d does not keep the CTCP frame", i)
			}
			p = p[len(wrapL) : len(p)-len(wrapR)]
			payloads = append(payloads, p)
			if len(l) > mel && !(room < utf8.UTFMax && utf8.RuneCountInString(p) == 1) {
				return fmt.Sprintf("send-too-long: line %d has %d bytes, MaxEventLength is %d", i, len(l), mel)
			}
		}
		if splitHasCodes(text) {
			return ""
		}
		if m := splitReconstruct(splitSpecWords(text), payloads); m != "" {
			return "send-content: " + m
		}
	}
	return ""
}

func splitChannels(r *rand.Rand, mel int) []string {
	n := r.Intn(40)
	if r.Intn(5) == 0 {
		n = r.Intn(4)
	}
	out := make([]string, 0, n)
	avg := 3 + r.Intn(30)
	for i := 0; i < n; i++ {
		l := 1 + r.Intn(avg)
		switch r.Intn(30) {
		case 0:
			l = splitClamp(mel-5+r.Intn(5)-2, 1, 600) // alone about as long as the limit
		case 1:
			l = splitClamp(mel/2, 1, 300)
		}
		out = append(out, "#"+RandBytes(r, l, "abcdefghijklmnopqrstuvwxyz0123456789-_"))
	}
	if len(out) > 0 && r.Intn(25) == 0 {
		out[r.Intn(len(out))] = Pick(r, "", "#a,b", "#sp ace", ":colon", "#\xff", "#caf\u00e9")
	}
	return out
}

// splitBatchLines: ISUPPORT lines that mostly leave a small positive limit, so that a
// handful of channels already needs several lines.
func splitBatchLines(r *rand.Rand) [][]string {
	t := "are supported by this server"
	switch r.Intn(6) {
	case 0:
		return nil
	case 1:
		var lines [][]string
		for k := 1 + r.Intn(3); k > 0; k-- {
			lines = append(lines, splitISupportLine(r))
		}
		return lines
	default:
		p := 4 + 30 + 18 + 63
		return [][]string{{"me", "LINELEN=" + strconv.Itoa(p+2+6+r.Intn(150)), t}}
	}
}

func splitRunWire(c Case) Result {
	if len(c) < 2 {
		return Result{Obs: "?bad-args"}
	}
	op := c[0]
	gf := strings.HasPrefix(op, "g") // gmsg, gnotice, gaction: Config.GlobalFormat
	sig := op
	if gf {
		op = op[1:]
	}
	prev, lines, rest := splitTakeConn(c[1:])
	x := splitSession(gf)
	splitSessMu.Lock()
	defer splitSessMu.Unlock()
	cl := x.s.C
	// The session is shared by all cases. Bring the limits to their defaults by what a
	// server can say (so that a case never depends on the case before it, whatever reset
	// does), then: previous connection's lines, the reset internalConnect performs, this
	// connection's lines.
	cl.VerifResetState()
	splitFeedLines(cl, [][]string{{"me", "LINELEN=512", "NICKLEN=30", "USERLEN=18", "HOSTLEN=63", "are supported by this server"}})
	cl.VerifResetState()
	splitFeedLines(cl, prev)
	cl.VerifResetState()
	splitFeedLines(cl, lines)
	mel := cl.MaxEventLength()
	_, _, want := splitFreshLimits(lines)
	mark := x.s.Mark()
	switch op {
	case "join":
		cl.Cmd.Join(rest...)
	case "list":
		cl.Cmd.List(rest...)
	case "msg", "notice", "action":
		if len(rest) >= 2 {
			switch op {
			case "msg":
				cl.Cmd.Message(rest[0], rest[1])
			case "notice":
				cl.Cmd.Notice(rest[0], rest[1])
			default:
				cl.Cmd.Action(rest[0], rest[1])
			}
		}
	}
	wrote := x.sync(mark)
	res := Result{Obs: strconv.Itoa(mel) + ";" + splitCounted(wrote)}
	res.Sig = sig + "/" + splitCountClass(len(wrote))
	if gf && len(rest) >= 2 {
		if ok, _, _ := splitSpecCTCP("PRIVMSG", []string{"x", rest[1]}); !ok {
			if ok2, _, _ := splitSpecCTCP("PRIVMSG", []string{"x", girc.Fmt(rest[1])}); ok2 {
				res.Sig += "/ctcp-by-fmt"
			}
		}
	}
	if mel <= 0 {
		res.Sig += "/nonpositive"
	}
	for _, l := range wrote {
		if len(l) > mel {
			res.Sig += "/over"
			break
		}
	}
	if len(prev) > 0 {
		res.Sig += "/reconnect"
	}
	// the lines are judged against the limit of THIS connection
	res.Oracle = splitWireOracle(op, gf, want, rest, wrote)
	if res.Oracle == "" && mel != want {
		res.Oracle = fmt.Sprintf("limit-stale: MaxEventLength is %d after the reconnect, this server's 005 lines give %d", mel, want)
	}
	return res
}

func init() {
	t := "are supported by this server"
	Register(&Suite{
		Name: "split.batches",
		Prop: []string{"C11"},
		Fixed: func() []Case {
			mk := func(op string, lines [][]string, rest ...string) Case {
				return append(append(Case{op}, splitConnArgs(nil, lines)...), rest...)
			}
			small := [][]string{{"me", "LINELEN=137", t}} // MaxEventLength 20
			var out []Case
			for _, op := range []string{"join", "list"} {
				// reconnect: the earlier server allowed 2048-byte lines, this one says nothing
				many := Case{op}
				many = append(many, splitConnArgs([][]string{{"me", "LINELEN=2048", t}}, nil)...)
				for i := 0; i < 60; i++ {
					many = append(many, "#channel-"+strconv.Itoa(1000+i))
				}
				out = append(out, many)
				out = append(out,
					mk(op, nil),
					mk(op, nil, "#a"),
					mk(op, small, "#aaaa", "#bbbb", "#cccc", "#dddd", "#eeee"),
					mk(op, small, "#aaaaaaaaaaaaaa", "#b"),
					mk(op, small, "#aaaaaaaaaaaaaaa", "#b"),
					mk(op, small, "#aaaaaaaaaaaaaaaa", "#b"),
					mk(op, small, "#a", "#"+strings.Repeat("x", 40), "#b"),
					mk(op, small, "#a", "#b", "#"+strings.Repeat("x", 40)),
					mk(op, small, "#1234567", "#1234567", "#1234567"),
					mk(op, [][]string{{"me", "LINELEN=50", t}}, "#a", "#b"),
					mk(op, nil, "", "#a"), mk(op, nil, "#a", "", "#b"), mk(op, nil, ""),
				)
			}
			return out
		},
		Gen: func(r *rand.Rand) Case {
			lines := splitBatchLines(r)
			mel := 395
			if len(lines) == 1 && len(lines[0]) == 3 && strings.HasPrefix(lines[0][1], "LINELEN=") {
				if l, err := strconv.Atoi(lines[0][1][8:]); err == nil {
					mel = l - 2 - 115
				}
			}
			var prev [][]string
			if r.Intn(4) == 0 {
				prev = splitPrevLines(r)
			}
			c := append(Case{Pick(r, "join", "join", "list")}, splitConnArgs(prev, lines)...)
			return append(c, splitChannels(r, mel)...)
		},
		Run: splitRunWire,
	})
	Register(&Suite{
		Name: "split.send",
		Prop: []string{"C11"},
		Fixed: func() []Case {
			mk := func(op string, lines [][]string, rest ...string) Case {
				return append(append(Case{op}, splitConnArgs(nil, lines)...), rest...)
			}
			re := func(op string, prev, lines [][]string, rest ...string) Case {
				return append(append(Case{op}, splitConnArgs(prev, lines)...), rest...)
			}
			small := [][]string{{"me", "LINELEN=147", t}} // MaxEventLength 30
			ext := [][]string{{"me", "LINELEN=2048", t}}
			long := strings.Repeat("lorem ipsum dolor sit amet ", 30)
			var out []Case
			for _, op := range []string{"msg", "notice", "action"} {
				out = append(out,
					// reconnects: an 810-byte text after a server with 2048-byte lines
					re(op, ext, nil, "#chan", long), re(op, ext, small, "#chan", long),
					re(op, [][]string{{"me", "NICKLEN=9", "LINELEN=4096", t}}, [][]string{{"me", "NICKLEN=31", t}}, "#chan", long))
				out = append(out,
					mk(op, nil, "#chan", "hello"), mk(op, nil, "#chan", long), mk(op, small, "#chan", long),
					mk(op, small, "#chan", "aaaa-bbbb cccc:dddd 12:30 100% ab% https://example.com/x/y/z?q=1"),
					mk(op, small, "#chan", strings.Repeat("\u65e5\u672c\u8a9e", 20)),
					mk(op, small, "#chan", "one\ntwo\r\nthree"),
					mk(op, small, "#chan", strings.Repeat(" ", 80)),
					mk(op, small, "#"+strings.Repeat("c", 40), "text that cannot fit"),
					mk(op, nil, "#chan", ""),
				)
			}
			// Config.GlobalFormat: {ctcp}...{ctcp} becomes a CTCP only through Fmt
			act := "{ctcp}ACTION " + strings.Repeat("waves and waves ", 40) + "{ctcp}"
			for _, op := range []string{"gmsg", "gnotice", "gaction"} {
				out = append(out,
					mk(op, nil, "#chan", act), mk(op, small, "#chan", act), mk(op, nil, "#chan", "{ctcp}ACTION waves{ctcp}"),
					mk(op, small, "#chan", "{ctcp}VERSION{ctcp}"), mk(op, small, "#chan", "{b}bold{b} {red}red {red,blue}both{c} "+long),
					mk(op, small, "#chan", "{unknown} {} { } {b {red,} {,blue} }{ "+long), mk(op, small, "#chan", "plain "+long),
					mk(op, small, "#chan", "\x01ACTION {b}"+long+"{ctcp}"), mk(op, nil, "#chan", ""), mk(op, nil, "#chan", "{b}"),
					re(op, ext, nil, "#chan", act))
			}
			return out
		},
		Gen: func(r *rand.Rand) Case {
			lines := splitBatchLines(r)
			mel := 395
			if len(lines) == 1 && len(lines[0]) == 3 && strings.HasPrefix(lines[0][1], "LINELEN=") {
				if l, err := strconv.Atoi(lines[0][1][8:]); err == nil {
					mel = l - 2 - 115
				}
			}
			op := Pick(r, "msg", "msg", "notice", "action")
			target := splitTarget(r)
			w := splitClamp(mel-len(target)-10, 1, 400)
			if r.Intn(10) == 0 {
				// hardly any room for text: -2..6 bytes after "PRIVMSG target :"
				room := r.Intn(9) - 2
				lines = [][]string{{"me", "LINELEN=" + strconv.Itoa(117+len("PRIVMSG ")+len(target)+2+room), t}}
				w = 3
			}
			var prev [][]string
			if r.Intn(4) == 0 {
				prev = splitPrevLines(r)
			}
			text := splitText(r, w, splitMode(r))
			if r.Intn(4) == 0 {
				// a client with Config.GlobalFormat: format tokens, known and unknown, and CTCPs
				// written with the {ctcp} token
				op = "g" + op
				toks := []string{"{b}", "{red}", "{red,blue}", "{c}", "{r}", "{i}", "{ul}", "{ctcp}", "{unknown}", "{RED}", "{}", "{", "}", "{red,}", "{,blue}", "{b }"}
				ws := strings.Split(text, " ")
				for k := r.Intn(4); k > 0 && len(ws) > 0; k-- {
					i := r.Intn(len(ws))
					ws[i] = toks[r.Intn(len(toks))] + ws[i]
				}
				text = strings.Join(ws, " ")
				switch r.Intn(5) {
				case 0, 1:
					text = "{ctcp}" + Pick(r, "ACTION", "ACTION", "PING", "X1") + " " + strings.ReplaceAll(text, "\x01", "") + "{ctcp}"
				case 2:
					text = "{ctcp}" + Pick(r, "VERSION", "action x", "") + "{ctcp}"
				}
			}
			c := append(Case{op}, splitConnArgs(prev, lines)...)
			return append(c, target, text)
		},
		Run: splitRunWire,
	})
}
