// Package suites holds the correspondence suites: generators of cases, the
// implementation-side observation of each case, and the property oracle evaluated on
// the implementation.
package suites

import (
	"encoding/hex"
	"fmt"
	"math/rand"
	"sort"
	"strings"
)

// Case is the argument list of one case: raw byte strings.
type Case []string

// Result is what the implementation did on a case.
type Result struct {
	Obs    string // observation, compared verbatim with the model's
	Oracle string // "" when the property holds on this case, else "class: detail"
	Sig    string // coarse signature for the coverage histogram ("" = trivial)
}

// Suite is one differential suite.
type Suite struct {
	Name       string
	Prop       []string            // property ids served
	Fixed      func() []Case       // corpus / complete enumerations, run first
	Exhaustive string              // non-empty: description of the finite space Fixed enumerates completely
	Gen        func(r *rand.Rand) Case
	Run        func(c Case) Result
}

var registry = map[string]*Suite{}

func Register(s *Suite) {
	if _, dup := registry[s.Name]; dup {
		panic("duplicate suite " + s.Name)
	}
	registry[s.Name] = s
}

func Get(name string) *Suite { return registry[name] }

func Names() []string {
	var out []string
	for n := range registry {
		out = append(out, n)
	}
	sort.Strings(out)
	return out
}

// SafeRun runs the suite on a case, turning a Go panic into the observation PANIC.
func SafeRun(s *Suite, c Case) (res Result) {
	defer func() {
		if r := recover(); r != nil {
			res = Result{Obs: "PANIC", Oracle: fmt.Sprintf("panic: %v", r), Sig: "panic"}
		}
	}()
	return s.Run(c)
}

// EncodeCase renders a case as the driver's input line (without the suite name).
func EncodeCase(c Case) string {
	parts := make([]string, len(c))
	for i, a := range c {
		if a == "" {
			parts[i] = "."
		} else {
			parts[i] = hex.EncodeToString([]byte(a))
		}
	}
	return strings.Join(parts, "\t")
}

func DecodeCase(fields []string) (Case, error) {
	c := make(Case, 0, len(fields))
	for _, f := range fields {
		if f == "-" {
			continue
		}
		if f == "." {
			c = append(c, "")
			continue
		}
		b, err := hex.DecodeString(f)
		if err != nil {
			return nil, err
		}
		c = append(c, string(b))
	}
	return c, nil
}

// ---- observation helpers (must match Lib/Bytes.v) ----

func B(b bool) string {
	if b {
		return "T"
	}
	return "F"
}

func Hex(s string) string { return hex.EncodeToString([]byte(s)) }

func HexList(l []string) string {
	p := make([]string, len(l))
	for i, s := range l {
		p[i] = Hex(s)
	}
	return strings.Join(p, ",")
}

func OptHex(s *string) string {
	if s == nil {
		return "-"
	}
	return "=" + Hex(*s)
}

// Esc escapes an observation the way ocaml/driver.ml prints one.
func Esc(s string) string {
	var sb strings.Builder
	for i := 0; i < len(s); i++ {
		c := s[i]
		if c >= 32 && c <= 126 && c != '\\' {
			sb.WriteByte(c)
		} else {
			fmt.Fprintf(&sb, "\\x%02x", c)
		}
	}
	return sb.String()
}

// ---- generator helpers ----

func Pick(r *rand.Rand, xs ...string) string { return xs[r.Intn(len(xs))] }

func RandBytes(r *rand.Rand, n int, alphabet string) string {
	b := make([]byte, n)
	for i := range b {
		if alphabet == "" {
			b[i] = byte(r.Intn(256))
		} else {
			b[i] = alphabet[r.Intn(len(alphabet))]
		}
	}
	return string(b)
}
