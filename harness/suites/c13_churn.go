package suites

// C13, suite heap.churn: snapshots taken WHILE another goroutine feeds server events.
// A big channel is tracked; the churn goroutine makes one user (sorting first) part and
// re-join it and renames another one (sorting last) back and forth, through RunHandlers,
// so the tracked membership only ever has four legal values. The main goroutine takes
// LookupChannel / Channels / LookupUser / Users snapshots and checks that each is one of
// the states the client went through: strictly sorted, nobody twice, nobody missing.
// A getter that reads tracked memory after releasing the state lock hands out the in-place
// PART shift / JOIN append-and-sort half done: oracle class snapshot-torn. Evaluated on the
// implementation only (the model's observation is the constant "consistent"); on a tree
// where the getters copy under the lock no schedule can produce a torn snapshot, so the
// scenario cannot raise a false alarm, it can only miss.

import (
	"fmt"
	"math/rand"
	"sort"
	"strconv"
	"strings"
	"sync"
	"sync/atomic"
	"time"

	"github.com/lrstanley/girc"
)

func churnClip(v, lo, hi int) int {
	if v < lo {
		return lo
	}
	if v > hi {
		return hi
	}
	return v
}

// churnCheckList: list must equal full except that first (full[0]) may be absent and the last
// entry may be either of lastA / lastB.
func churnCheckList(list, full []string, lastA, lastB string) string {
	want := full
	switch len(list) {
	case len(full):
	case len(full) - 1:
		want = full[1:]
	default:
		return fmt.Sprintf("%d members, want %d or %d", len(list), len(full), len(full)-1)
	}
	for i := range list {
		if list[i] == want[i] {
			continue
		}
		if i == len(list)-1 && (list[i] == lastA || list[i] == lastB) {
			continue
		}
		prev := ""
		if i > 0 {
			prev = list[i-1]
		}
		return fmt.Sprintf("with %d members differs from every membership the client tracked at index %d: got %q after %q, want %q", len(list), i, list[i], prev, want[i])
	}
	return ""
}

func churnRun(c Case) Result {
	if len(c) < 3 {
		return Result{Obs: "consistent", Sig: "trivial-bad"}
	}
	n := churnClip(natArg(c[0]), 50, 60000)
	variant := natArg(c[1])
	budget := time.Duration(churnClip(natArg(c[2]), 50, 8000)) * time.Millisecond

	ss := StartState("me", "user")
	defer ss.Stop()
	cl := ss.C
	feed := func(name, cmd string, params ...string) {
		cl.RunHandlers(&girc.Event{Source: &girc.Source{Name: name, Ident: "u", Host: "h"}, Command: cmd, Params: params, Timestamp: time.Now()})
	}
	ss.Apply(Ev{HasSrc: true, Name: "srv", Cmd: "001", Params: []string{"me", "hi"}})
	feed("me", "JOIN", "#big")
	feed("me", "JOIN", "#other")
	const first, lastA, lastB = "a0", "zz9", "zz8"
	names := []string{first}
	for i := 0; i < n; i++ {
		names = append(names, fmt.Sprintf("u%06d", i))
	}
	names = append(names, lastA)
	for i := 0; i < len(names); i += 400 { // ascending order keeps the per-name sort cheap
		j := i + 400
		if j > len(names) {
			j = len(names)
		}
		feed("srv", "353", "me", "=", "#big", strings.Join(names[i:j], " "))
	}
	feed("srv", "353", "me", "=", "#other", first+" "+lastA)
	big := cl.LookupChannel("#big")
	if big == nil || len(big.UserList) != n+3 {
		return Result{Obs: "?setup", Oracle: "harness: big channel was not built", Sig: "trivial-setup"}
	}
	full := append([]string(nil), big.UserList...) // a0, me, u000000.., zz9 (sorted)
	if !sort.StringsAreSorted(full) || full[0] != first || full[len(full)-1] != lastA {
		return Result{Obs: "?setup", Oracle: "harness: unexpected order of the big channel", Sig: "trivial-setup"}
	}

	var stop int32
	var rounds int64
	var wg sync.WaitGroup
	wg.Add(1)
	go func() {
		defer wg.Done()
		for atomic.LoadInt32(&stop) == 0 {
			feed(first, "PART", "#big")
			feed(first, "JOIN", "#big")
			if variant%2 == 0 {
				feed(lastA, "NICK", lastB)
				feed(lastB, "NICK", lastA)
			}
			atomic.AddInt64(&rounds, 1)
		}
	}()

	torn := ""
	snaps := 0
	checkUser := func(u *girc.User, who string) {
		if u == nil || torn != "" {
			return
		}
		l := u.ChannelList
		ok := (len(l) == 2 && l[0] == "#big" && l[1] == "#other") || (len(l) == 1 && l[0] == "#other")
		if !ok {
			torn = fmt.Sprintf("%s: ChannelList of %s is %q, the client only ever tracked [#big #other] or [#other]", who, u.Nick, l)
		}
	}
	deadline := time.Now().Add(budget)
	for i := 0; torn == "" && time.Now().Before(deadline); i++ {
		switch {
		case i%16 == 15 && variant%4 < 2:
			for _, ch := range cl.Channels() {
				if ch.Name == "#big" {
					if m := churnCheckList(ch.UserList, full, lastA, lastB); m != "" {
						torn = "Channels(): #big " + m
					}
				}
			}
		case i%64 == 31:
			for _, u := range cl.Users() {
				if u.Nick == first {
					checkUser(u, "Users()")
				}
			}
		case i%4 == 3:
			checkUser(cl.LookupUser(first), "LookupUser")
		default:
			ch := cl.LookupChannel("#big")
			if ch == nil {
				torn = "LookupChannel(#big) = nil"
			} else if m := churnCheckList(ch.UserList, full, lastA, lastB); m != "" {
				torn = "LookupChannel: #big " + m
			}
		}
		snaps++
	}
	atomic.StoreInt32(&stop, 1)
	wg.Wait()
	if ss.PanicCount() > 0 {
		return Result{Obs: "PANIC", Oracle: "panic: a handler panicked during the churn", Sig: "panic"}
	}
	sig := "members" + strconv.Itoa(n/5000*5000) + "+ snapshots" + map[bool]string{true: ">=100", false: "<100"}[snaps >= 100] +
		" rounds" + map[bool]string{true: ">=20", false: "<20"}[atomic.LoadInt64(&rounds) >= 20]
	if torn != "" {
		return Result{Obs: "TORN", Oracle: fmt.Sprintf("snapshot-torn: snapshot %d (after %d churn rounds, %d members): %s", snaps, atomic.LoadInt64(&rounds), n, torn), Sig: sig}
	}
	return Result{Obs: "consistent", Sig: sig}
}

func init() {
	Register(&Suite{Name: "heap.churn", Prop: []string{"C13"},
		Gen: func(r *rand.Rand) Case {
			return Case{strconv.Itoa(3000 + r.Intn(9000)), strconv.Itoa(r.Intn(4)), strconv.Itoa(1200 + r.Intn(800))}
		}, Run: churnRun})
}
