package suites

import (
	"math/rand"

	"github.com/lrstanley/girc"
)

// Grammar tables written from the doc comments of format.go (the oracle): a byte set
// per position class, not the control flow of the validators.
var (
	setLetter, setDigit, setSpecial [256]bool
)

func init() {
	for b := 0; b < 256; b++ {
		setLetter[b] = (b >= 0x41 && b <= 0x5A) || (b >= 0x61 && b <= 0x7A)
		setDigit[b] = b >= 0x30 && b <= 0x39
		setSpecial[b] = (b >= 0x5B && b <= 0x60) || (b >= 0x7B && b <= 0x7D)
	}
}

func specNick(s string) bool {
	if len(s) == 0 {
		return false
	}
	for i := 0; i < len(s); i++ {
		b := s[i]
		if i == 0 {
			if !(setLetter[b] || setSpecial[b] || b == '?') {
				return false
			}
		} else if !(setLetter[b] || setDigit[b] || setSpecial[b] || b == '-') {
			return false
		}
	}
	return true
}

func specUser(s string) bool {
	if len(s) > 0 && s[0] == '~' {
		s = s[1:]
	}
	if len(s) == 0 {
		return false
	}
	for i := 0; i < len(s); i++ {
		b := s[i]
		if i == 0 {
			if !(setLetter[b] || setDigit[b]) {
				return false
			}
		} else if !(setLetter[b] || setDigit[b] || setSpecial[b] || b == '-' || b == '.') {
			return false
		}
	}
	return true
}

func specChannel(s string) bool {
	if len(s) < 2 || len(s) > 50 {
		return false
	}
	switch s[0] {
	case '#', '+', '&', '*', '~':
	case '!':
		if len(s) < 7 {
			return false
		}
		for i := 1; i <= 5; i++ {
			if !(setDigit[s[i]] || (s[i] >= 'A' && s[i] <= 'Z')) {
				return false
			}
		}
	default:
		return false
	}
	for i := 1; i < len(s); i++ {
		switch s[i] {
		case 0x00, 0x07, 0x0D, 0x0A, 0x20, 0x2C, 0x3A:
			return false
		}
	}
	return true
}

func specFold(s string) string {
	out := []byte(s)
	for i, b := range out {
		if (b >= 'A' && b <= 'Z') || b == '[' || b == '\\' || b == ']' || b == '^' {
			out[i] = b + 32
		}
	}
	return string(out)
}

// allShort enumerates every byte string of length <= 2 (65 793 strings).
func allShort() []Case {
	out := make([]Case, 0, 65793)
	out = append(out, Case{""})
	for a := 0; a < 256; a++ {
		out = append(out, Case{string([]byte{byte(a)})})
	}
	for a := 0; a < 256; a++ {
		for b := 0; b < 256; b++ {
			out = append(out, Case{string([]byte{byte(a), byte(b)})})
		}
	}
	return out
}

// frames: every byte value at every position class of otherwise valid frames.
func frames(frameList []string, positions [][]int) []Case {
	var out []Case
	for fi, f := range frameList {
		for _, p := range positions[fi] {
			for b := 0; b < 256; b++ {
				x := []byte(f)
				x[p] = byte(b)
				out = append(out, Case{string(x)})
			}
		}
	}
	return out
}

func rep(s string, n int) string {
	b := make([]byte, 0, n*len(s))
	for i := 0; i < n; i++ {
		b = append(b, s...)
	}
	return string(b)
}

func validatorSuite(name string, impl, spec func(string) bool, fixed func() []Case, alphabet string) *Suite {
	return &Suite{
		Name:       name,
		Prop:       []string{"C15"},
		Fixed:      fixed,
		Exhaustive: "all byte strings of length <= 2, plus every byte value at each position class of valid frames",
		Gen: func(r *rand.Rand) Case {
			n := r.Intn(60)
			if r.Intn(4) == 0 {
				return Case{RandBytes(r, n, "")}
			}
			s := []byte(RandBytes(r, n, alphabet))
			if len(s) > 0 && r.Intn(3) == 0 {
				s[r.Intn(len(s))] = byte(r.Intn(256))
			}
			return Case{string(s)}
		},
		Run: func(c Case) Result {
			got := impl(c[0])
			res := Result{Obs: B(got), Sig: B(got)}
			if len(c[0]) <= 2 {
				res.Sig += "/short"
			} else {
				res.Sig += "/long"
			}
			if got != spec(c[0]) {
				res.Oracle = name + ": validator disagrees with the documented grammar"
			}
			return res
		},
	}
}

func init() {
	Register(validatorSuite("names.nick", girc.IsValidNick, specNick, func() []Case {
		return append(allShort(), frames([]string{"nick-name_1", "a" + rep("b", 40)}, [][]int{{0, 1, 5, 10}, {0, 20, 40}})...)
	}, "abcXYZ019-_[]{}|^`\\?~."))
	Register(validatorSuite("names.user", girc.IsValidUser, specUser, func() []Case {
		return append(allShort(), frames([]string{"~user.name-1", "user_name", "~a"}, [][]int{{0, 1, 2, 5, 11}, {0, 1, 8}, {0, 1}})...)
	}, "abcXYZ019-_[]{}|^`\\?~.@"))
	Register(validatorSuite("names.channel", girc.IsValidChannel, specChannel, func() []Case {
		c50 := "#" + rep("x", 49)
		c51 := "#" + rep("x", 50)
		c49 := "#" + rep("x", 48)
		id := "!AB12Cname"
		id7 := "!AB12Cn"
		id6 := "!AB12C"
		fr := frames([]string{"#chan-nel", id, id7, c50, c49},
			[][]int{{0, 1, 4, 8}, {0, 1, 2, 3, 4, 5, 6, 9}, {0, 5, 6}, {0, 1, 25, 48, 49}, {48}})
		fr = append(fr, Case{c51}, Case{id6}, Case{"!AB12"}, Case{"!ab12Cname"}, Case{"#a:b"}, Case{"#a,b"}, Case{"#a b"})
		for b := 0; b < 256; b++ { // position 50 (0-based) of a 51-byte name: always too long
			x := []byte(c51)
			x[50] = byte(b)
			fr = append(fr, Case{string(x)})
		}
		return append(allShort(), fr...)
	}, "#&+!*~abcXYZ019-_:, \x07\x00\r\n\xc3\xa9"))

	Register(&Suite{
		Name: "names.fold",
		Prop: []string{"C15"},
		Fixed: func() []Case {
			var out []Case
			out = append(out, Case{""})
			for b := 0; b < 256; b++ {
				out = append(out, Case{string([]byte{byte(b)})})
			}
			out = append(out, Case{"#caf\xc3\xa9"}, Case{"Nick[away]\\^"}, Case{"\xff\xfe\x80"})
			return out
		},
		Exhaustive: "all single bytes",
		Gen: func(r *rand.Rand) Case {
			if r.Intn(3) == 0 {
				return Case{RandBytes(r, r.Intn(40), "")}
			}
			return Case{RandBytes(r, r.Intn(40), "abcXYZ[]\\^{}|~@`_09#\xc3\xa9\xe2\x82\xac")}
		},
		Run: func(c Case) Result {
			got := girc.ToRFC1459(c[0])
			res := Result{Obs: Hex(got), Sig: "same"}
			if got != c[0] {
				res.Sig = "folded"
			}
			for i := 0; i < len(c[0]); i++ {
				if c[0][i] >= 0x80 {
					res.Sig += "/nonascii"
					break
				}
			}
			switch {
			case len(got) != len(c[0]):
				res.Oracle = "fold-length: ToRFC1459 is not length-preserving"
			case got != specFold(c[0]):
				res.Oracle = "fold-table: ToRFC1459 differs from the byte-wise fold"
			case girc.ToRFC1459(got) != got:
				res.Oracle = "fold-idempotent: ToRFC1459 is not idempotent"
			}
			return res
		},
	})

	// Source.ID / Source.Equals: name-keyed through the fold only (model: coq/Model/SourceEq.v)
	Register(&Suite{
		Name: "names.source",
		Prop: []string{"C15"},
		Fixed: func() []Case {
			var out []Case
			for b := 0; b < 256; b++ { // every byte against its fold image and against itself +32
				n := "n" + string([]byte{byte(b)}) + "x"
				out = append(out, Case{"0", n, "u", "h", "0", specFold(n), "u", "h"})
				out = append(out, Case{"0", n, "u", "h", "0", "n" + string([]byte{byte(b + 32)}) + "x", "u", "h"})
			}
			out = append(out, Case{"1", "", "", "", "1", "", "", ""}, Case{"1", "", "", "", "0", "a", "", ""}, Case{"0", "a", "", "", "1", "", "", ""},
				Case{"0", "Nick[a]^", "u", "h", "0", "nICK{A}~", "u", "h"}, Case{"0", "a", "U", "h", "0", "a", "u", "h"}, Case{"0", "a", "u", "H", "0", "a", "u", "h"})
			return out
		},
		Exhaustive: "every byte value inside a name against its fold image and against byte+32",
		Gen: func(r *rand.Rand) Case {
			alpha := "abcXYZ[]\\^{}|~@`_09\xc3\xa9"
			n1 := RandBytes(r, 1+r.Intn(10), alpha)
			n2 := n1
			switch r.Intn(4) {
			case 0:
				n2 = RandBytes(r, 1+r.Intn(10), alpha)
			case 1, 2: // a random case variant of n1
				b := []byte(n1)
				for i := range b {
					if r.Intn(2) == 0 {
						switch {
						case b[i] >= 'A' && b[i] <= '^':
							b[i] += 32
						case b[i] >= 'a' && b[i] <= '~':
							b[i] -= 32
						}
					}
				}
				n2 = string(b)
			}
			i1, h1 := RandBytes(r, r.Intn(4), "uU~"), RandBytes(r, r.Intn(4), "hH.")
			i2, h2 := i1, h1
			if r.Intn(5) == 0 {
				i2 = RandBytes(r, r.Intn(4), "uU~")
			}
			if r.Intn(5) == 0 {
				h2 = RandBytes(r, r.Intn(4), "hH.")
			}
			nil1, nil2 := "0", "0"
			if r.Intn(15) == 0 {
				nil1 = "1"
			}
			if r.Intn(15) == 0 {
				nil2 = "1"
			}
			return Case{nil1, n1, i1, h1, nil2, n2, i2, h2}
		},
		Run: func(c Case) Result {
			if len(c) != 8 {
				return Result{Obs: "?args", Sig: "trivial"}
			}
			mk := func(n, a, i, h string) *girc.Source {
				if n == "1" {
					return nil
				}
				return &girc.Source{Name: a, Ident: i, Host: h}
			}
			x, y := mk(c[0], c[1], c[2], c[3]), mk(c[4], c[5], c[6], c[7])
			id := func(s *girc.Source) string {
				if s == nil {
					return "nil"
				}
				return Hex(s.ID())
			}
			eq := x.Equals(y)
			res := Result{Obs: id(x) + " " + id(y) + " " + B(eq), Sig: "eq=" + B(eq)}
			if x != nil && y != nil {
				sameFold := specFold(c[1]) == specFold(c[5])
				want := sameFold && c[2] == c[6] && c[3] == c[7]
				if sameFold && c[1] != c[5] {
					res.Sig += "/variant"
				}
				switch {
				case sameFold != (x.ID() == y.ID()):
					res.Oracle = "source-id: Source.ID differs for names with the same fold (or agrees for different folds)"
				case eq != want:
					res.Oracle = "source-equals: Source.Equals does not compare names through their fold"
				case y.Equals(x) != eq:
					res.Oracle = "source-equals-sym: Source.Equals is not symmetric"
				}
				// the same two values reached through an earlier life under another name (a Source
				// is a plain exported struct: decoded into, copied over and renamed by its holders)
				x2, y2 := &girc.Source{Name: c[5] + "[Z", Ident: c[6], Host: c[7]}, &girc.Source{Name: c[1] + "{q", Ident: c[2], Host: c[3]}
				_, _, _ = x2.ID(), y2.ID(), x2.Equals(y2)
				x2.Name, x2.Ident, x2.Host = c[1], c[2], c[3]
				y2.Name, y2.Ident, y2.Host = c[5], c[6], c[7]
				if res.Oracle == "" && (x2.ID() != x.ID() || y2.ID() != y.ID() || x2.Equals(y2) != eq || x2.Equals(y) != eq || x.Equals(y2) != eq) {
					res.Oracle = "source-history: Source.ID/Equals of a value depend on names it carried earlier, not on its present name"
				}
			}
			return res
		},
	})
}
