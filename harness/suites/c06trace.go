package suites

import (
	"fmt"
	"math/rand"
	"os"
	"runtime"
	"sort"
	"strconv"
	"strings"
	"sync"
	"sync/atomic"
	"time"

	"gircverif/drive"

	"github.com/lrstanley/girc"
)

// ---- C06, dispatch.trace: observed traces of the dispatcher are traces of the machine ----
//
// A scenario (handlers, events, registrar programs) is run against a connected client.
// Recording handlers, the registrars, the feeder and the done-channel watchers stamp what
// they do with one global atomic counter; the stamped actions in counter order are the
// observed trace.  The generator runs the implementation and puts scenario, a proposed
// complete schedule (observed actions plus the internal steps of the machine, see
// c06Guess) and the observed trace into the case, so that a case replays the same trace:
//
//	recover, nH, nH x [cmd, flags], nInit, nInit x [h], nE, nE x [cmd, source nick, client's nick when read], nC, nC x [clear
//	command], nT, nT x [count, count x [op]], nCert, nCert x [action], observed actions
//
// flags: b background, t AddTmp, d AddTmp with a deadline, i internal, g gated (see hangup).
// recover: "1" RecoverFunc installed; "o" appended: a burst larger than the receive queue arrives
// while event 0 is still being handled; "r" appended: the last registrar program is run by
// handler 0 from inside its function (operation k while it handles event 2k+1); "h" appended: the server hangs up while event 0 is still
// being handled (everything it sent before must still be delivered); "t": the run stalled.
// op:     a<h> Add.. creating handler h | m<h> Remove(cuid of h) | k<j> Clear(clear command j) | K ClearAll
// action: v.n arrive | d.n deliver | s.n.k snapshot of phase k | g.n.h bg wrapper signals |
//         S.n.h start | E.n.h.o end (o: 0/1 returned false/true, p panicked) | b.n.k barrier |
//         c.i.op call | l.i.op takes effect | r.i.op.res return | t.h finish calls Remove | x.h close(done)
//
// Run evaluates the property on the observed trace (the four predicates, directly) and
// answers "accept"; the model runs its checker `accepts` on schedule and trace.

type trHandler struct {
	cmd                     string
	bg, tmp, deadline, intl bool
	gated                   bool // hang-up scenarios: on event 0 the function returns only after the server has hung up
}

func (h trHandler) flags() string {
	s := ""
	if h.bg {
		s += "b"
	}
	if h.tmp {
		s += "t"
	}
	if h.deadline {
		s += "d"
	}
	if h.intl {
		s += "i"
	}
	if h.gated {
		s += "g"
	}
	return s
}

// trEvent is one line from the server as far as dispatch is concerned: its command, the nick
// part of its source ("" = no source) and the nick the client has when the line is read.
type trEvent struct {
	cmd  string
	src  string
	nick string
}

// trFold is RFC1459 case folding as the statement has it: A-Z and [ \ ] ^ are the upper case
// of a-z and { | } ~.
func trFold(s string) string {
	b := []byte(s)
	for i, c := range b {
		if c >= 'A' && c <= '^' {
			b[i] = c + 32
		}
	}
	return string(b)
}

// isEcho: an echo of the client's own message — a PRIVMSG or NOTICE whose source is the
// client's current nick, in any RFC1459 case.
func (e trEvent) isEcho() bool {
	return (e.cmd == "PRIVMSG" || e.cmd == "NOTICE") && e.src != "" && trFold(e.src) == trFold(e.nick)
}

// trEv: an event of a scenario in which the client keeps the nick "me".
func trEv(cmd string, echo bool) trEvent {
	switch {
	case cmd != "PRIVMSG" && cmd != "NOTICE":
		return trEvent{cmd, "irc.test", "me"}
	case echo:
		return trEvent{cmd, "me", "me"}
	}
	return trEvent{cmd, "other", "me"}
}

type trOp struct {
	kind byte // 'a', 'm', 'k', 'K'
	arg  int
}

func (o trOp) String() string {
	if o.kind == 'K' {
		return "K"
	}
	return string(o.kind) + strconv.Itoa(o.arg)
}

type trScenario struct {
	timedOut bool // the run stalled (twice): the trace may lack late actions
	hangup   bool // the server sends all events and hangs up while event 0 is still being handled
	inline   bool // the last registrar program is run from inside handler 0: its k-th operation while handling event 2k+1
	overflow bool // the server sends more events than the receive queue holds while event 0 is still being handled
	recover  bool
	handlers []trHandler
	init     []int
	events   []trEvent
	clears   []string
	threads  [][]trOp
}

// one action of the alphabet shared with the model
type trAct struct {
	kind byte // v d s g S E b c l r t x
	n    int  // event number, or registrar index (c l r)
	h    int  // handler, or phase (s b)
	o    byte // E: '0' '1' 'p'; r: '0' '1'
	op   trOp // c l r
}

func (a trAct) String() string {
	switch a.kind {
	case 'v', 'd':
		return fmt.Sprintf("%c.%d", a.kind, a.n)
	case 's', 'b', 'g', 'S':
		return fmt.Sprintf("%c.%d.%d", a.kind, a.n, a.h)
	case 'E':
		return fmt.Sprintf("E.%d.%d.%c", a.n, a.h, a.o)
	case 'c', 'l':
		return fmt.Sprintf("%c.%d.%s", a.kind, a.n, a.op)
	case 'r':
		return fmt.Sprintf("r.%d.%s.%c", a.n, a.op, a.o)
	default: // t x
		return fmt.Sprintf("%c.%d", a.kind, a.h)
	}
}

func trParseOp(s string) (trOp, bool) {
	if s == "K" {
		return trOp{kind: 'K'}, true
	}
	if len(s) < 2 || (s[0] != 'a' && s[0] != 'm' && s[0] != 'k') {
		return trOp{}, false
	}
	n, err := strconv.Atoi(s[1:])
	if err != nil || n < 0 {
		return trOp{}, false
	}
	return trOp{kind: s[0], arg: n}, true
}

func trParseAct(s string) (trAct, bool) {
	f := strings.Split(s, ".")
	if len(f) < 2 || len(f[0]) != 1 {
		return trAct{}, false
	}
	num := func(x string) int {
		n, err := strconv.Atoi(x)
		if err != nil || n < 0 {
			return -1
		}
		return n
	}
	a := trAct{kind: f[0][0]}
	switch {
	case strings.IndexByte("vd", a.kind) >= 0 && len(f) == 2:
		a.n = num(f[1])
		return a, a.n >= 0
	case strings.IndexByte("sbgS", a.kind) >= 0 && len(f) == 3:
		a.n, a.h = num(f[1]), num(f[2])
		return a, a.n >= 0 && a.h >= 0
	case a.kind == 'E' && len(f) == 4 && len(f[3]) == 1:
		a.n, a.h, a.o = num(f[1]), num(f[2]), f[3][0]
		return a, a.n >= 0 && a.h >= 0
	case (a.kind == 'c' || a.kind == 'l') && len(f) == 3:
		var ok bool
		a.n = num(f[1])
		a.op, ok = trParseOp(f[2])
		return a, ok && a.n >= 0
	case a.kind == 'r' && len(f) == 4 && len(f[3]) == 1:
		var ok bool
		a.n, a.o = num(f[1]), f[3][0]
		a.op, ok = trParseOp(f[2])
		return a, ok && a.n >= 0
	case (a.kind == 't' || a.kind == 'x') && len(f) == 2:
		a.h = num(f[1])
		return a, a.h >= 0
	}
	return trAct{}, false
}

func trEncode(sc *trScenario, cert, obs []trAct) Case {
	c := Case{"1"}
	if !sc.recover {
		c[0] = "0"
	}
	if sc.timedOut {
		c[0] += "t"
	}
	if sc.hangup {
		c[0] += "h"
	}
	if sc.overflow {
		c[0] += "o"
	}
	if sc.inline {
		c[0] += "r"
	}
	c = append(c, strconv.Itoa(len(sc.handlers)))
	for _, h := range sc.handlers {
		c = append(c, h.cmd, h.flags())
	}
	c = append(c, strconv.Itoa(len(sc.init)))
	for _, h := range sc.init {
		c = append(c, strconv.Itoa(h))
	}
	c = append(c, strconv.Itoa(len(sc.events)))
	for _, e := range sc.events {
		c = append(c, e.cmd, e.src, e.nick)
	}
	c = append(c, strconv.Itoa(len(sc.clears)))
	c = append(c, sc.clears...)
	c = append(c, strconv.Itoa(len(sc.threads)))
	for _, t := range sc.threads {
		c = append(c, strconv.Itoa(len(t)))
		for _, o := range t {
			c = append(c, o.String())
		}
	}
	c = append(c, strconv.Itoa(len(cert)))
	for _, a := range cert {
		c = append(c, a.String())
	}
	for _, a := range obs {
		c = append(c, a.String())
	}
	return c
}

func trDecode(c Case) (sc *trScenario, cert, obs []trAct, ok bool) {
	i := 0
	next := func() (string, bool) {
		if i >= len(c) {
			return "", false
		}
		i++
		return c[i-1], true
	}
	count := func() (int, bool) {
		s, ok := next()
		if !ok {
			return 0, false
		}
		n, err := strconv.Atoi(s)
		if err != nil || n < 0 || n > len(c) {
			return 0, false
		}
		return n, true
	}
	sc = &trScenario{}
	rc, ok1 := next()
	nh, ok2 := count()
	if !ok1 || !ok2 {
		return nil, nil, nil, false
	}
	sc.recover = strings.Contains(rc, "1")
	sc.timedOut = strings.Contains(rc, "t")
	sc.hangup = strings.Contains(rc, "h")
	sc.overflow = strings.Contains(rc, "o")
	sc.inline = strings.Contains(rc, "r")
	for j := 0; j < nh; j++ {
		cmd, a := next()
		fl, b := next()
		if !a || !b {
			return nil, nil, nil, false
		}
		sc.handlers = append(sc.handlers, trHandler{cmd: cmd, bg: strings.Contains(fl, "b"), tmp: strings.Contains(fl, "t"),
			deadline: strings.Contains(fl, "d"), intl: strings.Contains(fl, "i"), gated: strings.Contains(fl, "g")})
	}
	ni, ok3 := count()
	if !ok3 {
		return nil, nil, nil, false
	}
	for j := 0; j < ni; j++ {
		s, a := next()
		n, err := strconv.Atoi(s)
		if !a || err != nil || n < 0 || n >= len(sc.handlers) {
			return nil, nil, nil, false
		}
		sc.init = append(sc.init, n)
	}
	ne, ok4 := count()
	if !ok4 {
		return nil, nil, nil, false
	}
	for j := 0; j < ne; j++ {
		cmd, a := next()
		src, b := next()
		nick, d := next()
		if !a || !b || !d {
			return nil, nil, nil, false
		}
		sc.events = append(sc.events, trEvent{cmd, src, nick})
	}
	nc, ok5 := count()
	if !ok5 {
		return nil, nil, nil, false
	}
	for j := 0; j < nc; j++ {
		s, a := next()
		if !a {
			return nil, nil, nil, false
		}
		sc.clears = append(sc.clears, s)
	}
	nt, ok6 := count()
	if !ok6 {
		return nil, nil, nil, false
	}
	for j := 0; j < nt; j++ {
		m, a := count()
		if !a {
			return nil, nil, nil, false
		}
		var prog []trOp
		for k := 0; k < m; k++ {
			s, b := next()
			op, d := trParseOp(s)
			if !b || !d {
				return nil, nil, nil, false
			}
			prog = append(prog, op)
		}
		sc.threads = append(sc.threads, prog)
	}
	ncert, ok7 := count()
	if !ok7 {
		return nil, nil, nil, false
	}
	for j := 0; j < ncert; j++ {
		s, a := next()
		act, b := trParseAct(s)
		if !a || !b {
			return nil, nil, nil, false
		}
		cert = append(cert, act)
	}
	for i < len(c) {
		s, _ := next()
		act, b := trParseAct(s)
		if !b {
			return nil, nil, nil, false
		}
		obs = append(obs, act)
	}
	return sc, cert, obs, true
}

// ---- routing as the statement has it -----------------------------------------------------

// trRoute: the phase in which handler h runs for event e (0 bg "*", 1 bg cmd, 2 fg "*",
// 3 fg cmd), -1 when the event is not for it.
func trRoute(h trHandler, e trEvent) int {
	up := strings.ToUpper(h.cmd)
	switch {
	case up == "*" && h.bg:
		return 0
	case up == "*":
		return 2
	case up == e.cmd && !e.isEcho() && h.bg:
		return 1
	case up == e.cmd && !e.isEcho():
		return 3
	}
	return -1
}

// ---- running a scenario against the implementation ------------------------------------------

// trLog is the stamp counter: actions in the order in which they were stamped (a mutex,
// so the order is consistent with happens-before and a reader never sees a half-written slot).
type trLog struct {
	mu   sync.Mutex
	acts []trAct
}

func (l *trLog) stamp(a trAct) {
	l.mu.Lock()
	l.acts = append(l.acts, a)
	l.mu.Unlock()
}

func (l *trLog) result() []trAct {
	l.mu.Lock()
	defer l.mu.Unlock()
	return append([]trAct(nil), l.acts...)
}

func (l *trLog) count() int {
	l.mu.Lock()
	defer l.mu.Unlock()
	return len(l.acts)
}

func (l *trLog) closedSeen(h int) bool {
	l.mu.Lock()
	defer l.mu.Unlock()
	for _, a := range l.acts {
		if a.kind == 'x' && a.h == h {
			return true
		}
	}
	return false
}

func trMix(seed int64, a, b, c int) uint64 {
	x := uint64(seed)*0x9e3779b97f4a7c15 + uint64(a)*0xbf58476d1ce4e5b9 + uint64(b)*0x94d049bb133111eb + uint64(c)*0x2545f4914f6cdd1d
	x ^= x >> 31
	x *= 0xd6e8feb86659fd93
	x ^= x >> 29
	return x
}

const trEndToken = "c06end"

// trForeign is the event number stamped for an event that no line of the server stands for.
const trForeign = 900000

// trRun executes the scenario and returns the observed trace; stalled reports that a wait was
// abandoned by the watchdog (nothing at all progressed for c06StallLimit; the trace may then
// lack late actions).  No wait in here ends because time has passed.
func trRun(sc *trScenario, seed int64, procs int) (obs []trAct, stalled bool) {
	c06DumpUsable() // its self-test must run while no handler of a scenario is around
	prev := runtime.GOMAXPROCS(procs)
	defer runtime.GOMAXPROCS(prev)

	cfg := drive.BaseConfig()
	cfg.PingDelay = -1
	s := drive.Start(cfg)
	stopped := false
	defer func() {
		if !stopped {
			s.Stop()
		}
	}()
	timedOut := false
	gate := make(chan struct{}) // closed when gated handlers may return
	if !sc.hangup && !sc.overflow {
		close(gate)
	}

	log := &trLog{acts: make([]trAct, 0, 4096)}
	stop := make(chan struct{})
	var watchers sync.WaitGroup
	cuids := make([]string, len(sc.handlers))
	dones := make([]chan struct{}, len(sc.handlers))
	var cuidMu sync.Mutex

	// The text of a scenario's line is "<n>" or, for a long line, "<n> xxxx...x <n>".  seqOf: the
	// event number; -1 for lines that are not the scenario's (registration, NICK, PING, ...);
	// trForeign for an event that carries a number but is not a line the server sent (a piece
	// of a long line).
	seqOf := func(e girc.Event) int {
		if len(e.Params) == 0 {
			return -1
		}
		f := strings.Fields(e.Params[len(e.Params)-1])
		if len(f) == 0 {
			return -1
		}
		first, err1 := strconv.Atoi(f[0])
		last, err2 := strconv.Atoi(f[len(f)-1])
		switch {
		case err1 == nil && err2 == nil && first == last && first >= 0 && (len(f) == 1 || len(f) == 3):
			return first
		case (err1 == nil || err2 == nil) && len(f) > 1:
			return trForeign
		}
		return -1
	}
	var inlineOp func(n int) // runs the operation the scenario has handler 0 issue while it handles event n
	body := func(h int) func(girc.Event) bool {
		return func(e girc.Event) bool {
			n := seqOf(e)
			if n < 0 {
				return false // the registration burst, the end marker
			}
			log.stamp(trAct{kind: 'S', n: n, h: h})
			if sc.handlers[h].gated && n == 0 {
				<-gate
			}
			if sc.inline && h == 0 && inlineOp != nil {
				inlineOp(n)
			}
			x := trMix(seed, 1, h, n)
			if x%2 == 0 {
				time.Sleep(time.Duration(x>>8%3000) * time.Microsecond)
			}
			if trMix(seed, 2, h, n)%9 == 0 && sc.recover && !(sc.inline && h == 0) {
				log.stamp(trAct{kind: 'E', n: n, h: h, o: 'p'})
				panic("c06: handler panic")
			}
			ret := sc.handlers[h].tmp && trMix(seed, 3, h, n)%3 == 0
			o := byte('0')
			if ret {
				o = '1'
			}
			log.stamp(trAct{kind: 'E', n: n, h: h, o: o})
			return ret
		}
	}
	register := func(h int) {
		d := sc.handlers[h]
		f := body(h)
		var cuid string
		switch {
		case d.tmp:
			var dl time.Duration
			if d.deadline {
				dl = time.Duration(4+trMix(seed, 4, h, 0)%16) * time.Millisecond
			}
			var done chan struct{}
			cuid, done = s.C.Handlers.AddTmp(d.cmd, dl, func(_ *girc.Client, e girc.Event) bool { return f(e) })
			cuidMu.Lock()
			dones[h] = done
			cuidMu.Unlock()
			watchers.Add(1)
			go func() {
				defer watchers.Done()
				select {
				case <-done:
					log.stamp(trAct{kind: 'x', h: h})
				case <-stop:
				}
			}()
		case d.bg:
			cuid = s.C.Handlers.AddBg(d.cmd, func(_ *girc.Client, e girc.Event) { f(e) })
		case h%2 == 0:
			cuid = s.C.Handlers.Add(d.cmd, func(_ *girc.Client, e girc.Event) { f(e) })
		default:
			cuid = s.C.Handlers.AddHandler(d.cmd, girc.HandlerFunc(func(_ *girc.Client, e girc.Event) { f(e) }))
		}
		cuidMu.Lock()
		cuids[h] = cuid
		cuidMu.Unlock()
	}

	for _, h := range sc.init {
		register(h)
	}
	progress := func() string { return itoa(log.count()) + "/" + itoa(s.Mark()) }

	// registrars: Add/Remove may overlap each other, Clear/ClearAll run alone (their order
	// against a concurrent Add of the same command could not be told from the trace)
	var regMu sync.RWMutex
	var regs sync.WaitGroup
	if sc.inline && len(sc.threads) > 0 {
		ti := len(sc.threads) - 1
		inlineOp = func(n int) {
			k := (n - 1) / 2
			if n%2 == 0 || k >= len(sc.threads[ti]) {
				return
			}
			op := sc.threads[ti][k]
			log.stamp(trAct{kind: 'c', n: ti, op: op})
			res := byte('1')
			switch op.kind {
			case 'm':
				cuidMu.Lock()
				cuid := cuids[op.arg]
				cuidMu.Unlock()
				if !s.C.Handlers.Remove(cuid) {
					res = '0'
				}
			case 'k':
				s.C.Handlers.Clear(sc.clears[op.arg])
			}
			log.stamp(trAct{kind: 'r', n: ti, op: op, o: res})
		}
	}
	for i, prog := range sc.threads {
		if sc.inline && i == len(sc.threads)-1 {
			continue // run from inside handler 0
		}
		regs.Add(1)
		go func(i int, prog []trOp) {
			defer regs.Done()
			for j, op := range prog {
				if x := trMix(seed, 5, i, j); x%3 != 0 {
					time.Sleep(time.Duration(x>>8%2500) * time.Microsecond)
				}
				excl := op.kind == 'k' || op.kind == 'K'
				if excl {
					regMu.Lock()
				} else {
					regMu.RLock()
				}
				log.stamp(trAct{kind: 'c', n: i, op: op})
				res := byte('1')
				switch op.kind {
				case 'a':
					register(op.arg)
				case 'm':
					cuidMu.Lock()
					cuid := cuids[op.arg]
					cuidMu.Unlock()
					if !s.C.Handlers.Remove(cuid) {
						res = '0'
					}
				case 'k':
					s.C.Handlers.Clear(sc.clears[op.arg])
				case 'K':
					s.C.Handlers.ClearAll()
				}
				log.stamp(trAct{kind: 'r', n: i, op: op, o: res})
				if excl {
					regMu.Unlock()
				} else {
					regMu.RUnlock()
				}
			}
		}(i, prog)
	}

	// the event stream.  The client's nick changes where the scenario says so: by the 001 that
	// opens a scenario with nick changes, and by NICK lines.  The echo flag of a line is
	// computed when the line is READ, so a line that follows a nick change is sent only after the
	// client has handled the change (its answer to a PING sent after the NICK is on the wire; for
	// 001, whose handler runs in the background, GetNick shows the new nick).
	send := func(line string) bool {
		s.Peer.SetWriteDeadline(time.Now().Add(2 * c06StallLimit)) // the client reads nothing for two minutes
		if s.Send(line) != nil {
			timedOut = true
			trStall(1)
			return false
		}
		return true
	}
	cur := "me"
	barriers := 0
	feedOK := true
	if len(sc.events) > 0 && sc.events[0].nick != cur {
		cur = sc.events[0].nick
		feedOK = send(":irc.test 001 " + cur + " :Welcome")
		if feedOK && !c06Await(func() bool { return s.C.GetNick() == cur }, progress, c06StallLimit) {
			timedOut = true
			trStall(9)
		}
	}
	var written int64 // lines of the scenario the client has taken off the wire
	feed := func() {
		for n, e := range sc.events {
			if !feedOK {
				break
			}
			if x := trMix(seed, 6, n, 0); x%4 == 0 && !sc.overflow {
				time.Sleep(time.Duration(x>>8%1500) * time.Microsecond)
			}
			if e.nick != cur {
				barriers++
				tok := "c06nick" + strconv.Itoa(barriers)
				if !send(":"+cur+"!user@host NICK "+e.nick) || !send("PING :"+tok) {
					break
				}
				cur = e.nick
				if !c06Await(func() bool {
					for _, l := range s.Since(0) {
						if strings.HasPrefix(l, "PONG") && strings.HasSuffix(strings.TrimSpace(l), tok) {
							return true
						}
					}
					return false
				}, progress, c06StallLimit) {
					timedOut = true
					trStall(10)
					break
				}
			}
			text := strconv.Itoa(n)
			tags := ""
			if x := trMix(seed, 7, n, 0); x%8 == 0 {
				// a long line (legal with message tags): 4000-9000 bytes, still one event
				text = text + " " + strings.Repeat("x", 2500+int(x>>8%5000)) + " " + text
				tags = "@c06=" + strings.Repeat("t", 1000+int(x>>24%1500)) + " "
			}
			line := tags + ":" + e.src + " " + e.cmd + " " + cur + " :" + text
			if e.cmd == "PRIVMSG" || e.cmd == "NOTICE" {
				line = tags + ":" + e.src + "!user@host " + e.cmd + " #chan :" + text
			}
			log.stamp(trAct{kind: 'v', n: n})
			feedOK = send(line)
			atomic.AddInt64(&written, 1)
		}
	}
	if sc.overflow {
		// Burst behind a held-back foreground handler: the server writes more lines than the
		// receive queue (25) holds while the function of the gated handler has not returned.
		// 26 writes complete in any case (event 0 is being handled, 25 are queued); that is the
		// condition the gate waits for.  The pause after it only lets a client that takes lines
		// faster than it may (the rest of the burst) do so; it decides nothing.
		fed := make(chan struct{})
		go func() { feed(); close(fed) }()
		if !c06Await(func() bool { return atomic.LoadInt64(&written) >= 26 || len(sc.events) < 27 },
			func() string { return progress() + "/" + itoa(int(atomic.LoadInt64(&written))) }, c06StallLimit) {
			timedOut = true
			trStall(11)
		}
		for until := time.Now().Add(50 * time.Millisecond); int(atomic.LoadInt64(&written)) < len(sc.events) && time.Now().Before(until); {
			time.Sleep(200 * time.Microsecond)
		}
		close(gate)
		done := false
		if !c06Await(func() bool {
			select {
			case <-fed:
				done = true
			default:
			}
			return done
		}, func() string { return progress() + "/" + itoa(int(atomic.LoadInt64(&written))) }, c06StallLimit) {
			timedOut = true
			trStall(12)
		}
	} else {
		feed()
	}
	regsDone := make(chan struct{})
	go func() { regs.Wait(); close(regsDone) }()
	if !c06Await(func() bool {
		select {
		case <-regsDone:
			return true
		default:
			return false
		}
	}, progress, c06StallLimit) {
		timedOut = true
		trStall(2)
	}
	if sc.hangup {
		// The server hangs up.  readLoop queues every line it was sent before it sees the end
		// of the stream; only then is the function of the gated handler allowed to return, so
		// that the events are still queued when the connection's loops are told to stop.
		s.Peer.Close()
		if c06DumpUsable() {
			until := time.Now().Add(5 * time.Second) // bounds how sharp the scenario is, decides nothing
			for strings.Contains(c06Dump(), "girc.(*Client).readLoop") && time.Now().Before(until) {
				time.Sleep(100 * time.Microsecond)
			}
		}
		close(gate)
		// Connect returns when execLoop has flushed the queue and every loop has ended
		returned := false
		if !c06Await(func() bool {
			select {
			case <-s.Done:
				returned = true
			default:
			}
			return returned
		}, progress, c06StallLimit) {
			timedOut = true
			trStall(3)
		}
		stopped = returned
	} else {
		// every foreground handler has returned once the answer to a final PING is on the wire
		s.Peer.SetWriteDeadline(time.Now().Add(2 * c06StallLimit))
		if s.Send("PING :"+trEndToken) != nil {
			timedOut = true
			trStall(4)
		}
		if !c06Await(func() bool {
			for _, l := range s.Since(0) {
				if strings.HasPrefix(l, "PONG") && strings.Contains(l, trEndToken) {
					return true
				}
			}
			return false
		}, progress, c06StallLimit) {
			timedOut = true
			trStall(5)
		}
	}
	// background handlers, AddTmp wrappers and deadline goroutines: wait until no goroutine is
	// busy with handler dispatch any more
	if !c06Idle(progress) {
		timedOut = true
		trStall(6)
	}
	// a done channel that is closed by now has been seen closed by its watcher before the
	// trace is taken
	for h := range sc.handlers {
		cuidMu.Lock()
		done := dones[h]
		cuidMu.Unlock()
		if done == nil {
			continue
		}
		select {
		case <-done:
			if !c06Await(func() bool { return log.closedSeen(h) }, progress, c06StallLimit) {
				timedOut = true
				trStall(7)
			}
		default:
		}
	}
	obs = log.result()
	close(stop)
	watchers.Wait()
	return obs, timedOut
}

// ---- the property on an observed trace (the oracle) ------------------------------------------

func trOracle(sc *trScenario, obs []trAct) string {
	type nh struct{ n, h int }
	starts := map[nh][]int{}
	ends := map[nh][]int{}
	endTrue := map[int]bool{}
	arrive := map[int]int{}
	closes := map[int][]int{}
	addCall, addRet := map[int]int{}, map[int]int{}
	type span struct {
		op        trOp
		call, ret int
		res       byte
	}
	var ops []span
	open := map[int]int{} // registrar -> index in ops of its running op
	firstStartAfter := make([]int, len(sc.events)+1)
	for i := range firstStartAfter {
		firstStartAfter[i] = len(obs)
	}
	for p, a := range obs {
		switch a.kind {
		case 'v':
			arrive[a.n] = p
		case 'S':
			if a.n == trForeign {
				return fmt.Sprintf("foreign-event: handler %d was run for an event that is not a line the server sent (a piece of a longer line)", a.h)
			}
			if a.n >= len(sc.events) || a.h >= len(sc.handlers) {
				return fmt.Sprintf("unknown-event-or-handler: %s", a)
			}
			starts[nh{a.n, a.h}] = append(starts[nh{a.n, a.h}], p)
			for m := 0; m < a.n; m++ {
				if p < firstStartAfter[m] {
					firstStartAfter[m] = p
				}
			}
		case 'E':
			ends[nh{a.n, a.h}] = append(ends[nh{a.n, a.h}], p)
			if a.o == '1' {
				endTrue[a.h] = true
			}
		case 'x':
			closes[a.h] = append(closes[a.h], p)
		case 'c':
			open[a.n] = len(ops)
			ops = append(ops, span{op: a.op, call: p, ret: len(obs)})
			if a.op.kind == 'a' {
				addCall[a.op.arg] = p
			}
		case 'r':
			if j, ok := open[a.n]; ok {
				ops[j].ret, ops[j].res = p, a.o
				if a.op.kind == 'a' {
					addRet[a.op.arg] = p
				}
			}
		}
	}
	isInit := map[int]bool{}
	for _, h := range sc.init {
		isInit[h] = true
	}
	covers := func(op trOp, h int) bool {
		d := sc.handlers[h]
		switch op.kind {
		case 'm':
			return op.arg == h
		case 'k':
			return !d.intl && strings.ToUpper(sc.clears[op.arg]) == strings.ToUpper(d.cmd)
		case 'K':
			return !d.intl
		}
		return false
	}
	for n, e := range sc.events {
		for h, d := range sc.handlers {
			k := nh{n, h}
			st := starts[k]
			route := trRoute(d, e)
			// exactly once, to the right handlers
			if len(st) > 1 {
				return fmt.Sprintf("delivered-twice: event %d (%s) started handler %d (%s) %d times", n, e.cmd, h, d.cmd, len(st))
			}
			if len(st) == 1 && route < 0 {
				if e.isEcho() && strings.ToUpper(d.cmd) != "*" {
					return fmt.Sprintf("echo-to-command-handler: echo %d (%s) reached handler %d registered for %s", n, e.cmd, h, d.cmd)
				}
				return fmt.Sprintf("misrouted: event %d (%s) reached handler %d registered for %s", n, e.cmd, h, d.cmd)
			}
			if len(st) == 1 {
				if a, ok := arrive[n]; !ok || st[0] < a {
					return fmt.Sprintf("start-before-arrival: handler %d saw event %d before it was sent", h, n)
				}
				if c, ok := addCall[h]; !isInit[h] && (!ok || st[0] < c) {
					return fmt.Sprintf("start-before-registration: handler %d ran for event %d before it was registered", h, n)
				}
			}
			if route < 0 {
				continue
			}
			// surely registered while event n was dispatched: registered before it was sent,
			// and nothing that could remove it had begun before a later event was seen
			regBefore := isInit[h]
			if r, ok := addRet[h]; ok && r < arrive[n] {
				regBefore = true
			}
			bound := firstStartAfter[n]
			removable := d.tmp // wrappers and deadline goroutines remove on their own
			for _, o := range ops {
				if covers(o.op, h) && o.call < bound {
					removable = true
				}
			}
			if _, sent := arrive[n]; sent && regBefore && !removable && len(st) == 0 {
				return fmt.Sprintf("missed-delivery: event %d (%s) never reached handler %d (%s), registered throughout", n, e.cmd, h, d.cmd)
			}
			// removed while a foreground wildcard handler was still handling event n: the command
			// handlers of n are selected only after every foreground wildcard handler has returned
			if len(st) == 1 && route == 3 {
				for hw, dw := range sc.handlers {
					if trRoute(dw, e) != 2 || len(starts[nh{n, hw}]) != 1 || len(ends[nh{n, hw}]) != 1 {
						continue
					}
					for _, o := range ops {
						if o.op.kind == 'm' && o.op.arg == h && o.res == '1' && o.ret < ends[nh{n, hw}][0] {
							return fmt.Sprintf("removed-handler-invoked: handler %d ran for event %d although Remove had returned true before the foreground wildcard handler %d returned from that event", h, n, hw)
						}
					}
				}
			}
			// surely removed before event n was sent
			if len(st) == 1 {
				a := arrive[n]
				for _, o := range ops {
					if !covers(o.op, h) || o.ret >= a {
						continue
					}
					if o.op.kind == 'm' && o.res == '1' {
						return fmt.Sprintf("removed-handler-invoked: handler %d ran for event %d sent after Remove returned true", h, n)
					}
					if r, ok := addRet[h]; o.op.kind != 'm' && (isInit[h] || (ok && r < o.call)) {
						return fmt.Sprintf("removed-handler-invoked: handler %d ran for event %d sent after %s returned", h, n, o.op)
					}
				}
				for _, c := range closes[h] {
					if c < a {
						return fmt.Sprintf("removed-handler-invoked: temporary handler %d ran for event %d sent after its done channel was closed", h, n)
					}
				}
			}
			// ordered: a foreground handler of event n has returned before any handler sees a later event
			if len(st) == 1 && !d.bg {
				en := ends[k]
				if len(en) == 0 {
					return fmt.Sprintf("handler-never-returned: foreground handler %d on event %d", h, n)
				}
				if en[0] > firstStartAfter[n] {
					return fmt.Sprintf("order-violation: foreground handler %d still ran event %d when %s", h, n, obs[firstStartAfter[n]])
				}
			}
		}
	}
	// temporary handlers: done closed at most once; closed once the function returned true or
	// the deadline passed, whoever removed the handler
	for h, d := range sc.handlers {
		if !d.tmp {
			continue
		}
		if len(closes[h]) > 1 {
			return fmt.Sprintf("done-closed-twice: handler %d", h)
		}
		_, registered := addRet[h]
		registered = registered || isInit[h]
		if len(closes[h]) == 1 && !endTrue[h] && !d.deadline {
			return fmt.Sprintf("tmp-done-closed-early: done of handler %d closed although it never returned true and has no deadline", h)
		}
		if !registered || len(closes[h]) == 1 || (!endTrue[h] && !d.deadline) {
			continue
		}
		removedByOther := false
		for _, o := range ops {
			if covers(o.op, h) && (o.op.kind != 'm' || o.res == '1') {
				removedByOther = true
			}
		}
		if removedByOther {
			return fmt.Sprintf("tmp-done-not-closed-after-removal: temporary handler %d returned true or passed its deadline after somebody else removed it, done is still open", h)
		}
		return fmt.Sprintf("tmp-done-not-closed: temporary handler %d returned true or passed its deadline, done is still open", h)
	}
	// a panic does not stop later events: covered by missed-delivery on the events after it
	return ""
}

// ---- proposing a complete schedule for an observed trace ---------------------------------------

// c06Guess inserts the machine's internal steps (deliver, snapshot, bg signal, barrier,
// the instant a registrar operation takes effect, the Remove calls of wrappers and deadline
// goroutines) into the observed trace.  It is not trusted: the model checks the result step
// by step.  Strategy: the dispatcher runs ahead as early as the observed trace allows (a
// snapshot is placed at the first position at which the selection the trace shows for that
// phase can be produced); registrar operations and internal Remove calls take effect as
// late as possible, except when a snapshot or a result needs them earlier.
func c06Guess(sc *trScenario, obs []trAct) []trAct {
	type nh struct{ n, h int }
	var cert []trAct
	emit := func(a trAct) { cert = append(cert, a) }

	// what the trace shows
	started := map[nh]bool{}
	trueRemoves := map[int]int{} // Remove(h) calls returning true that have not taken effect yet
	retRes := map[string]byte{}  // registrar.(index of the operation in its program) -> result
	retSeq := map[int]int{}
	for _, a := range obs {
		switch a.kind {
		case 'S':
			started[nh{a.n, a.h}] = true
		case 'r':
			retRes[fmt.Sprintf("%d.%d", a.n, retSeq[a.n])] = a.o
			retSeq[a.n]++
			if a.op.kind == 'm' && a.o == '1' {
				trueRemoves[a.op.arg]++
			}
		}
	}
	desired := func(n, k int) map[int]bool {
		out := map[int]bool{}
		if n >= len(sc.events) {
			return out
		}
		for h, d := range sc.handlers {
			if started[nh{n, h}] && trRoute(d, sc.events[n]) == k {
				out[h] = true
			}
		}
		return out
	}

	// simulated machine state
	live := map[int]bool{}
	for _, h := range sc.init {
		live[h] = true
	}
	arrived := 0
	dn, dk := 0, -1       // dispatcher: event dn; dk = -1 idle, else phase dk
	waiting := false      // inside wg.Wait of (dn, dk)
	out := map[int]bool{} // wrappers of the current phase that have not signalled
	pend := map[int]int{} // Remove calls of wrappers / deadline goroutines to come
	for _, h := range sc.init {
		if sc.handlers[h].deadline {
			pend[h]++
		}
	}
	type pending struct {
		i   int
		op  trOp
		seq int
	}
	callSeq := map[int]int{}
	resOf := func(p pending) byte { return retRes[fmt.Sprintf("%d.%d", p.i, p.seq)] }
	var calls []pending // called, not yet in effect

	covers := func(op trOp, h int) bool {
		d := sc.handlers[h]
		switch op.kind {
		case 'm':
			return op.arg == h
		case 'k':
			return !d.intl && strings.ToUpper(sc.clears[op.arg]) == strings.ToUpper(d.cmd)
		case 'K':
			return !d.intl
		}
		return false
	}
	finished := map[int]int{} // finish calls of h that have done their Remove
	var lin func(j int)
	// tmpRemove: a wrapper / deadline goroutine of h calls finish; a registrar's Remove(h) that
	// returned true got there first
	tmpRemove := func(h int) {
		if live[h] {
			for j, p := range calls {
				if p.op.kind == 'm' && p.op.arg == h && resOf(p) == '1' {
					lin(j)
					break
				}
			}
		}
		emit(trAct{kind: 't', h: h})
		pend[h]--
		finished[h]++
		if live[h] && !sc.handlers[h].intl {
			live[h] = false
		}
	}
	// lin puts a called operation into effect
	lin = func(j int) {
		p := calls[j]
		calls = append(calls[:j], calls[j+1:]...)
		// Remove that returned false: the handler is gone already
		if p.op.kind == 'm' && resOf(p) == '0' && live[p.op.arg] && pend[p.op.arg] > 0 {
			tmpRemove(p.op.arg)
		}
		emit(trAct{kind: 'l', n: p.i, op: p.op})
		if p.op.kind == 'm' && resOf(p) == '1' {
			trueRemoves[p.op.arg]--
		}
		switch p.op.kind {
		case 'a':
			live[p.op.arg] = true
			if sc.handlers[p.op.arg].deadline {
				pend[p.op.arg]++
			}
		default:
			for h := range sc.handlers {
				if live[h] && covers(p.op, h) {
					live[h] = false
				}
			}
		}
	}
	// trySnap: can the selection shown for phase (n, k) be produced now? If so, do what it takes.
	trySnap := func(n, k int, force bool) bool {
		want := desired(n, k)
		var toLin []int
		var toTmp []int
		usedOps := map[int]bool{}
		for h, d := range sc.handlers {
			routed := trRoute(d, sc.events[n]) == k
			if !routed {
				continue
			}
			switch {
			case want[h] && !live[h]:
				found := false
				for j, p := range calls {
					if p.op.kind == 'a' && p.op.arg == h {
						toLin = append(toLin, j)
						found = true
					}
				}
				if !found && !force {
					return false
				}
			case !want[h] && live[h]:
				done := false
				for j, p := range calls {
					if usedOps[j] {
						if covers(p.op, h) {
							done = true
						}
						continue
					}
					if !covers(p.op, h) {
						continue
					}
					if p.op.kind == 'm' && resOf(p) != '1' {
						continue
					}
					if p.op.kind != 'm' && trueRemoves[h] > 0 {
						continue // a Remove(h) still to take effect returns true: nobody else removes h
					}
					hits := false
					for w := range want {
						if live[w] && covers(p.op, w) {
							hits = true
						}
					}
					if hits {
						continue
					}
					usedOps[j] = true
					toLin = append(toLin, j)
					done = true
					break
				}
				if !done && pend[h] > 0 && trueRemoves[h] == 0 {
					toTmp = append(toTmp, h)
					done = true
				}
				if !done && !force {
					return false
				}
			}
		}
		for _, h := range toTmp {
			tmpRemove(h)
		}
		sort.Sort(sort.Reverse(sort.IntSlice(toLin)))
		for _, j := range toLin {
			lin(j)
		}
		emit(trAct{kind: 's', n: n, h: k})
		out = map[int]bool{}
		for h, d := range sc.handlers {
			if live[h] && trRoute(d, sc.events[n]) == k {
				if k < 2 {
					emit(trAct{kind: 'g', n: n, h: h})
				} else {
					out[h] = true
				}
			}
		}
		return true
	}
	// move: one transition of the dispatcher, if it can make one
	move := func(force bool) bool {
		switch {
		case dk == -1:
			if dn >= arrived || dn >= len(sc.events) {
				return false
			}
			emit(trAct{kind: 'd', n: dn})
			dk = 0
		case !waiting:
			if !trySnap(dn, dk, force) {
				return false
			}
			waiting = true
		default:
			if len(out) > 0 {
				return false
			}
			emit(trAct{kind: 'b', n: dn, h: dk})
			waiting = false
			if dk < 3 {
				dk++
			} else {
				dk = -1
				dn++
			}
		}
		return true
	}
	// advance: let the dispatcher run as far as the trace so far allows
	advance := func() {
		for move(false) {
		}
	}
	snapped := func(n, k int) bool {
		return dn > n || (dn == n && dk >= 0 && (dk > k || (dk == k && waiting)))
	}

	for _, a := range obs {
		advance()
		switch a.kind {
		case 'v':
			emit(a)
			arrived = a.n + 1
		case 'S':
			// the phase of (n, h) must have been snapshotted: push the dispatcher if it has not
			if a.n < len(sc.events) && a.h < len(sc.handlers) {
				if k := trRoute(sc.handlers[a.h], sc.events[a.n]); k >= 0 {
					for !snapped(a.n, k) {
						if !move(false) && !move(true) {
							break
						}
					}
				}
			}
			emit(a)
		case 'E':
			emit(a)
			if a.h < len(sc.handlers) {
				if !sc.handlers[a.h].bg {
					delete(out, a.h)
				}
				if a.o == '1' && sc.handlers[a.h].tmp {
					pend[a.h]++
				}
			}
		case 'c':
			emit(a)
			calls = append(calls, pending{a.n, a.op, callSeq[a.n]})
			callSeq[a.n]++
		case 'r':
			for j, p := range calls {
				if p.i == a.n {
					lin(j)
					break
				}
			}
			emit(a)
		case 'x':
			// close(done) is the second half of a finish: its Remove comes first
			if finished[a.h] == 0 && pend[a.h] > 0 {
				tmpRemove(a.h)
			}
			emit(a)
		}
	}
	for move(false) || move(true) {
	}
	// Remove calls of wrappers and deadline goroutines that found nothing to remove
	var hs []int
	for h := range pend {
		hs = append(hs, h)
	}
	sort.Ints(hs)
	for _, h := range hs {
		for pend[h] > 0 {
			tmpRemove(h)
		}
	}
	return cert
}

// ---- generator -----------------------------------------------------------------------------

var (
	trCmdForms = map[string][]string{
		"FOO":     {"FOO", "foo", "Foo"},
		"BAR":     {"BAR", "bar", "bAR"},
		"PRIVMSG": {"PRIVMSG", "privmsg"},
		"NOTICE":  {"NOTICE", "Notice"},
		"*":       {"*"},
	}
	trCmds = []string{"FOO", "FOO", "BAR", "PRIVMSG", "NOTICE", "*", "*"}
)

func genTraceScenario(r *rand.Rand) *trScenario {
	sc := &trScenario{recover: true}
	nh := 3 + r.Intn(7)
	for h := 0; h < nh; h++ {
		up := Pick(r, trCmds...)
		d := trHandler{cmd: Pick(r, trCmdForms[up]...)}
		switch r.Intn(10) {
		case 0, 1, 2:
			d.bg = true
		case 3, 4:
			d.bg, d.tmp = true, true
		case 5:
			d.bg, d.tmp, d.deadline = true, true, true
		}
		sc.handlers = append(sc.handlers, d)
	}
	ne := 8 + r.Intn(25)
	for n := 0; n < ne; n++ {
		cmd := Pick(r, "FOO", "FOO", "BAR", "PRIVMSG", "NOTICE", "BAZ")
		echo := (cmd == "PRIVMSG" || cmd == "NOTICE") && r.Intn(2) == 0
		sc.events = append(sc.events, trEv(cmd, echo))
	}
	sc.clears = []string{"foo", "BAR", "Privmsg", "notice", "*", "baz"}
	nt := 1 + r.Intn(2)
	sc.threads = make([][]trOp, nt)
	owner := make([]int, nh) // which registrar may remove the handler
	for h := 0; h < nh; h++ {
		owner[h] = r.Intn(nt)
		if r.Intn(2) == 0 {
			sc.init = append(sc.init, h)
		} else {
			sc.threads[owner[h]] = append(sc.threads[owner[h]], trOp{kind: 'a', arg: h})
		}
	}
	// removals after the registration, clears anywhere
	for i := 0; i < nt; i++ {
		prog := sc.threads[i]
		for h := 0; h < nh; h++ {
			if owner[h] != i || r.Intn(3) != 0 {
				continue
			}
			at := 0
			for j, o := range prog {
				if o.kind == 'a' && o.arg == h {
					at = j + 1
				}
			}
			pos := at + r.Intn(len(prog)-at+1)
			prog = append(prog[:pos], append([]trOp{{kind: 'm', arg: h}}, prog[pos:]...)...)
			if r.Intn(4) == 0 { // a second Remove of the same id finds nothing
				prog = append(prog, trOp{kind: 'm', arg: h})
			}
		}
		for c := r.Intn(3); c > 0; c-- {
			op := trOp{kind: 'k', arg: r.Intn(len(sc.clears))}
			if r.Intn(5) == 0 {
				op = trOp{kind: 'K'}
			}
			pos := r.Intn(len(prog) + 1)
			prog = append(prog[:pos], append([]trOp{op}, prog[pos:]...)...)
		}
		sc.threads[i] = prog
	}
	return sc
}

// trStall reports on stderr where a wait was given up (diagnosis only).
func trStall(site int) {
	fmt.Fprintf(os.Stderr, "c06: dispatch.trace: wait %d abandoned by the watchdog at %s\n", site, time.Now().Format("15:04:05"))
}

var trStalls int // scenarios that stalled twice in a row; after two of them no further scenario is run

// genHangupScenario: handler 0 is a foreground wildcard handler whose function, on event 0,
// returns only after the server has sent every event and hung up; the other handlers are
// registered before the run and nobody removes a plain one, so every event must reach them.
func genHangupScenario(r *rand.Rand) *trScenario {
	sc := &trScenario{recover: true, hangup: true}
	sc.handlers = append(sc.handlers, trHandler{cmd: "*", gated: true})
	nh := 2 + r.Intn(5)
	for h := 1; h < nh; h++ {
		up := Pick(r, trCmds...)
		d := trHandler{cmd: Pick(r, trCmdForms[up]...)}
		switch r.Intn(8) {
		case 0, 1:
			d.bg = true
		case 2:
			d.bg, d.tmp = true, true
		}
		sc.handlers = append(sc.handlers, d)
	}
	for h := range sc.handlers {
		sc.init = append(sc.init, h)
	}
	ne := 6 + r.Intn(14) // at most 19 events wait in the receive queue (it holds 25)
	for n := 0; n < ne; n++ {
		cmd := Pick(r, "FOO", "FOO", "BAR", "PRIVMSG", "NOTICE", "BAZ")
		echo := (cmd == "PRIVMSG" || cmd == "NOTICE") && r.Intn(3) == 0
		sc.events = append(sc.events, trEv(cmd, echo))
	}
	sc.clears = []string{"foo"}
	sc.threads = [][]trOp{{}}
	return sc
}

var trNickPool = []string{"Me0", "ME0", "me0", "me[1]", "ME{1}", "Me[1}", "Zed", "zED", "a|b", "A\\B", "bot"}

// trVariant spells nick differently without changing its RFC1459 identity.
func trVariant(r *rand.Rand, nick string) string {
	b := []byte(nick)
	for i, c := range b {
		if r.Intn(2) == 0 {
			continue
		}
		switch {
		case c >= 'A' && c <= ']':
			b[i] = c + 32
		case c >= 'a' && c <= '}':
			b[i] = c - 32
		}
	}
	return string(b)
}

// genNickScenario: a scenario during which the client's nick changes (renamed at 001, NICK
// lines, case-only renames, renames back) with echoes in any case variant of the current nick
// and messages from somebody else who holds one of the client's previous nicks.
func genNickScenario(r *rand.Rand) *trScenario {
	sc := genTraceScenario(r)
	cur := Pick(r, trNickPool...)
	prev := []string{"me"}
	for n := range sc.events {
		if n > 0 && r.Intn(5) == 0 {
			next := Pick(r, trNickPool...)
			if r.Intn(4) == 0 {
				next = trVariant(r, cur) // case-only rename
			}
			if r.Intn(4) == 0 {
				next = prev[r.Intn(len(prev))] // back to an earlier nick
			}
			if next != cur {
				prev = append(prev, cur)
				cur = next
			}
		}
		cmd := Pick(r, "PRIVMSG", "NOTICE", "PRIVMSG", "NOTICE", "FOO", "BAR")
		src := "irc.test"
		if cmd == "PRIVMSG" || cmd == "NOTICE" {
			switch r.Intn(10) {
			case 0, 1, 2, 3:
				src = trVariant(r, cur) // an echo
			case 4, 5, 6:
				src = trVariant(r, prev[r.Intn(len(prev))]) // somebody else with a nick the client had (an echo only if it is the current one again)
			default:
				src = "other"
			}
		}
		sc.events[n] = trEvent{cmd, src, cur}
	}
	return sc
}

// genInlineScenario: handler 0 is a foreground wildcard handler that, while it handles event
// 2k+1, removes handler k+1 — a foreground handler registered for exactly that event's
// command.  The command handlers of an event are selected after the wildcard handlers have
// returned, so the removed handler must not run for that event any more.
func genInlineScenario(r *rand.Rand) *trScenario {
	sc := &trScenario{recover: true, inline: true}
	sc.handlers = append(sc.handlers, trHandler{cmd: "*"})
	nv := 2 + r.Intn(4)
	var prog []trOp
	cmds := []string{"FOO", "BAR", "PRIVMSG", "NOTICE", "BAZ"}
	vcmd := make([]string, nv)
	for k := 0; k < nv; k++ {
		vcmd[k] = Pick(r, cmds...)
		sc.handlers = append(sc.handlers, trHandler{cmd: Pick(r, vcmd[k], strings.ToLower(vcmd[k]))})
		prog = append(prog, trOp{kind: 'm', arg: k + 1})
	}
	if r.Intn(2) == 0 { // a bystander in the background
		sc.handlers = append(sc.handlers, trHandler{cmd: Pick(r, cmds...), bg: true})
	}
	for h := range sc.handlers {
		sc.init = append(sc.init, h)
	}
	ne := 2*nv + 1 + r.Intn(4)
	for n := 0; n < ne; n++ {
		cmd := Pick(r, cmds...)
		if k := (n - 1) / 2; n%2 == 1 && k < nv {
			cmd = vcmd[k]
		}
		sc.events = append(sc.events, trEv(cmd, false))
	}
	sc.clears = []string{"foo"}
	sc.threads = [][]trOp{prog}
	return sc
}

// genOverflowScenario: as a hang-up scenario, but the server stays and sends 40-60 events (the
// receive queue holds 25) while the function of handler 0 has not returned for event 0.  The
// events must still be dispatched one by one in the server's order.
func genOverflowScenario(r *rand.Rand) *trScenario {
	sc := genHangupScenario(r)
	sc.hangup, sc.overflow = false, true
	for n := len(sc.events); n < 40+r.Intn(21); n++ {
		cmd := Pick(r, "FOO", "FOO", "BAR", "PRIVMSG", "NOTICE", "BAZ")
		echo := (cmd == "PRIVMSG" || cmd == "NOTICE") && r.Intn(3) == 0
		sc.events = append(sc.events, trEv(cmd, echo))
	}
	return sc
}

func genTraceCase(r *rand.Rand) Case {
	var sc *trScenario
	switch r.Intn(7) {
	case 6:
		sc = genInlineScenario(r)
	case 5:
		sc = genOverflowScenario(r)
	case 0:
		sc = genHangupScenario(r)
	case 1:
		sc = genNickScenario(r)
	default:
		sc = genTraceScenario(r)
	}
	seed := r.Int63()
	procs := []int{1, 2, 4, 16}[r.Intn(4)]
	if trStalls >= 2 {
		// the dispatcher hangs: do not spend minutes on every further case
		sc = &trScenario{recover: true, timedOut: true}
		return trEncode(sc, nil, nil)
	}
	t0 := time.Now()
	obs, stalled := trRun(sc, seed, procs)
	if d := time.Since(t0); d > 5*time.Second {
		fmt.Fprintf(os.Stderr, "c06: dispatch.trace: a scenario took %s (hangup=%v, %d handlers, %d events, GOMAXPROCS %d)\n", d, sc.hangup, len(sc.handlers), len(sc.events), procs)
	}
	if stalled {
		// a suspected stall is re-run once, on a fresh client, before it is reported
		obs, stalled = trRun(sc, seed, procs)
	}
	if stalled {
		trStalls++
		sc.timedOut = true
		trStall(8)
	}
	return trEncode(sc, c06Guess(sc, obs), obs)
}

func trSig(sc *trScenario, obs []trAct) string {
	f := map[string]bool{}
	for _, a := range obs {
		switch a.kind {
		case 'E':
			if a.o == 'p' {
				f["panic"] = true
			}
			if a.o == '1' {
				f["tmp-true"] = true
			}
		case 'x':
			f["closed"] = true
		case 'r':
			f[string(a.op.kind)+string(a.o)] = true
		case 'S':
			if a.n < len(sc.events) && sc.events[a.n].isEcho() {
				f["echo"] = true
			}
			if a.n < len(sc.events) && sc.events[a.n].nick != "me" {
				f["nick"] = true
			}
			f["start"] = true
		}
	}
	var ss []string
	for k := range f {
		ss = append(ss, k)
	}
	sort.Strings(ss)
	s := strings.Join(ss, "+")
	if !f["start"] {
		s = "trivial:" + s
	}
	return s
}

func init() {
	Register(&Suite{
		Name: "dispatch.trace",
		Prop: []string{"C06"},
		Gen:  genTraceCase,
		Run: func(c Case) Result {
			sc, _, obs, ok := trDecode(c)
			if !ok {
				return Result{Obs: "?args"}
			}
			res := Result{Obs: "accept", Oracle: trOracle(sc, obs), Sig: trSig(sc, obs)}
			if sc.timedOut && res.Oracle == "" {
				res.Oracle = "dispatcher-stalls: twice in a row the client stopped making any progress for a minute before the events were dispatched and the handlers done"
			}
			return res
		},
	})
}
