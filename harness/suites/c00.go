package suites

import (
	"fmt"
	"math/rand"
	"strconv"
	"strings"
	"unicode/utf8"
)

// Library suites: Go standard-library fragments vs Lib/*.v.

func asciiUpper(s string) string {
	b := []byte(s)
	for i, c := range b {
		if c >= 'a' && c <= 'z' {
			b[i] = c - 32
		}
	}
	return string(b)
}

func asciiLower(s string) string {
	b := []byte(s)
	for i, c := range b {
		if c >= 'A' && c <= 'Z' {
			b[i] = c + 32
		}
	}
	return string(b)
}

func spaceFields(s string) []string {
	out := []string{}
	for _, p := range strings.Split(s, " ") {
		if p != "" {
			out = append(out, p)
		}
	}
	return out
}

func init() {
	Register(&Suite{
		Name: "lib.utf8",
		Prop: []string{"C00"},
		Fixed: func() []Case {
			var out []Case
			for a := 0; a < 256; a++ {
				out = append(out, Case{string([]byte{byte(a)})})
				for _, b := range []int{0x00, 0x41, 0x7f, 0x80, 0x8f, 0x90, 0x9f, 0xa0, 0xbf, 0xc0, 0xc2, 0xe0, 0xed, 0xf0, 0xf4, 0xff} {
					out = append(out, Case{string([]byte{byte(a), byte(b)})})
					for _, c := range []int{0x41, 0x80, 0xbf, 0xc2} {
						out = append(out, Case{string([]byte{byte(a), byte(b), byte(c)})})
						out = append(out, Case{string([]byte{byte(a), byte(b), byte(c), 0x80})})
						out = append(out, Case{string([]byte{byte(a), byte(b), byte(c), 0x41})})
					}
				}
			}
			return out
		},
		Gen: func(r *rand.Rand) Case {
			var sb strings.Builder
			for i, n := 0, r.Intn(12); i < n; i++ {
				switch r.Intn(6) {
				case 0:
					sb.WriteByte(byte(r.Intn(256)))
				case 1:
					sb.WriteRune(rune(r.Intn(0x110000)))
				case 2:
					sb.WriteString(Pick(r, "\xed\xa0\x80", "\xf4\x90\x80\x80", "\xc0\x80", "\xe0\x80\x80", "\xf0\x80\x80\x80", "\xe2\x82", "\xf0\x9f\x98"))
				default:
					sb.WriteString(Pick(r, "a", "é", "€", "😀", " ", "\u0085", " "))
				}
			}
			return Case{sb.String()}
		},
		Run: func(c Case) Result {
			s := c[0]
			_, w := utf8.DecodeRuneInString(s)
			obs := fmt.Sprintf("%s,%s,%s,%d,%d", B(utf8.ValidString(s)), Hex(strings.ToValidUTF8(s, "?")), Hex(strings.ToValidUTF8(s, "")), utf8.RuneCountInString(s), w)
			sig := "valid"
			if !utf8.ValidString(s) {
				sig = "invalid"
			}
			return Result{Obs: obs, Sig: sig}
		},
	})
	Register(&Suite{
		Name: "lib.strings",
		Prop: []string{"C00"},
		Gen: func(r *rand.Rand) Case {
			alpha := Pick(r, "ab ", "ab", "a b*", "Az09 -+", "")
			s := RandBytes(r, r.Intn(12), alpha)
			t := RandBytes(r, r.Intn(4), alpha)
			if r.Intn(5) == 0 {
				s = Pick(r, "12", "-7", "+33", "007", "", "-", "1a", "99999999999", " 5")
			}
			return Case{s, t}
		},
		Run: func(c Case) Result {
			s, t := c[0], c[1]
			idx := "-"
			if i := strings.Index(s, t); i >= 0 {
				idx = strconv.Itoa(i)
			}
			num := "-"
			if n, err := strconv.Atoi(s); err == nil {
				num = strconv.Itoa(n)
			}
			obs := B(strings.HasPrefix(s, t)) + B(strings.HasSuffix(s, t)) + "," + idx + "," +
				HexList(strings.Split(s, " ")) + ";" + HexList(spaceFields(s)) + ";" + Hex(asciiUpper(s)) + "," + Hex(asciiLower(s)) + "," + num
			return Result{Obs: obs, Sig: "s"}
		},
	})
}
