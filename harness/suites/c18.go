package suites

import (
	"fmt"
	"math/rand"
	"runtime"
	"strconv"
	"strings"
	"sync"
	"sync/atomic"
	"time"
	"unicode"
	"unicode/utf8"

	"gircverif/drive"

	"github.com/lrstanley/girc"
	"github.com/lrstanley/girc/cmdhandler"
)

// ---- C18: the command handler runs exactly the addressed command ----

// One invocation of a registered function, as the function saw it.
type cmdInv struct {
	id     int
	name   string
	args   []string
	raw    string
	origin string // Origin.Last()
}

var (
	cmdRec     = make(chan cmdInv, 256)
	cmdSessMu  sync.Mutex
	cmdSessVal *ctcpSess
)

// cmdSession is a connected client: Execute answers through client.Cmd, and a client
// that is not connected silently drops what it is asked to send.
func cmdSession() *ctcpSess {
	cmdSessMu.Lock()
	defer cmdSessMu.Unlock()
	if cmdSessVal == nil {
		cfg := drive.BaseConfig()
		cfg.PingDelay = -1
		cmdSessVal = &ctcpSess{s: drive.Start(cfg)}
	}
	return cmdSessVal
}

func recFn(id int, name string) func(*girc.Client, *cmdhandler.Input) {
	return func(c *girc.Client, in *cmdhandler.Input) {
		o := ""
		if in.Origin != nil {
			o = in.Origin.Last()
		}
		cmdRec <- cmdInv{id, name, append([]string{}, in.Args...), in.RawArgs, o}
	}
}

// waitUntil polls cond: first by yielding (the goroutines involved need microseconds), then
// with short sleeps that grow, so a case costs what it needs and a loaded machine only
// makes it slower, never wrong.  False when max has passed.
func waitUntil(max time.Duration, cond func() bool) bool {
	for i := 0; i < 200; i++ {
		if cond() {
			return true
		}
		runtime.Gosched()
	}
	deadline := time.Now().Add(max)
	d := 5 * time.Microsecond
	for !cond() {
		if time.Now().After(deadline) {
			return false
		}
		time.Sleep(d)
		if d < time.Millisecond {
			d *= 2
		}
	}
	return true
}

// cmdFlush is ctcpSess.flush with the adaptive wait: what the client wrote since mark.
func cmdFlush(x *ctcpSess, mark int) []string {
	x.n++
	tok := "VSYNC " + strconv.Itoa(x.n) + "\r\n"
	x.s.C.Send(&girc.Event{Command: "VSYNC", Params: []string{strconv.Itoa(x.n)}})
	var out []string
	ok := waitUntil(10*time.Second, func() bool {
		if x.s.Mark() <= mark {
			return false
		}
		lines := x.s.Since(mark)
		for i, l := range lines {
			if l == tok {
				out = make([]string, 0, i)
				for _, p := range lines[:i] {
					out = append(out, strings.TrimSuffix(p, "\r\n"))
				}
				return true
			}
		}
		return false
	})
	if !ok {
		return append(x.s.Since(mark), "?sync-timeout")
	}
	return out
}

// cmdExec runs Execute and returns the invocations (Fn runs in a goroutine of its own:
// wait until every goroutine started by the call has ended) and the lines written.
// execBlocked is the line cmdExec reports instead of waiting for ever.
const execBlocked = "?execute-blocked"

// blockDeadline: how long a call may make no progress before the harness gives it up (the
// goroutine is abandoned, the verdict is class execute-blocked).  Generous, because only
// a wedged implementation ever gets there; once a run has seen three such verdicts the
// following cases only confirm them quickly, so that a wedged build fails in minutes.
var blockedVerdicts int32

func blockDeadline() time.Duration {
	if atomic.LoadInt32(&blockedVerdicts) >= 3 {
		return 10 * time.Millisecond
	}
	return 5 * time.Second
}

// goExecute runs Execute on a goroutine of its own, so that the harness can give it up;
// a panic of Execute is handed back through the returned channel (nil = returned normally).
func goExecute(ch *cmdhandler.CmdHandler, c *girc.Client, e girc.Event) chan interface{} {
	done := make(chan interface{}, 1)
	go func() {
		defer func() { done <- recover() }()
		ch.Execute(c, e)
	}()
	return done
}

func cmdExec(x *ctcpSess, ch *cmdhandler.CmdHandler, e girc.Event) (invs []cmdInv, lines []string) {
	for len(cmdRec) > 0 {
		<-cmdRec
	}
	mark := x.s.Mark()
	base := runtime.NumGoroutine()
	done := goExecute(ch, x.s.C, e)
	timer := time.NewTimer(blockDeadline())
	select {
	case p := <-done:
		timer.Stop()
		if p != nil {
			panic(p)
		}
	case <-timer.C:
		atomic.AddInt32(&blockedVerdicts, 1)
		return nil, []string{execBlocked}
	}
	if !waitUntil(blockDeadline(), func() bool { return runtime.NumGoroutine() <= base }) {
		atomic.AddInt32(&blockedVerdicts, 1)
		return nil, append(cmdFlush(x, mark), execBlocked)
	}
	lines = cmdFlush(x, mark)
	for len(cmdRec) > 0 {
		invs = append(invs, <-cmdRec)
	}
	return invs, lines
}

// ---- the statement's own reading ----

func specNameByte(b byte) bool {
	return (b >= 'a' && b <= 'z') || (b >= '0' && b <= '9') || b == '-' || b == '_'
}

func specValidName(s string) bool {
	if len(s) < 1 || len(s) > 20 {
		return false
	}
	for i := 0; i < len(s); i++ {
		if !specNameByte(s[i]) {
			return false
		}
	}
	return true
}

type specM struct {
	name, raw string
	args      []string
}

// specAddressed: text = prefix ++ name ++ ("" | " " ++ raw), name 1-20 name bytes (all of
// them: the byte after the name is the end or the SPACE), raw newline free.
func specAddressed(prefix, text string) *specM {
	if !strings.HasPrefix(text, prefix) {
		return nil
	}
	rest := text[len(prefix):]
	n := 0
	for n < len(rest) && specNameByte(rest[n]) {
		n++
	}
	if n < 1 || n > 20 {
		return nil
	}
	if n == len(rest) {
		return &specM{rest, "", []string{}}
	}
	if rest[n] != ' ' || strings.Contains(rest[n+1:], "\n") {
		return nil
	}
	raw := rest[n+1:]
	args := []string{}
	if raw != "" {
		args = strings.Split(raw, " ")
	}
	return &specM{rest[:n], raw, args}
}

const replacementRune = "\xef\xbf\xbd"

func sameStrings(a, b []string) bool {
	if len(a) != len(b) {
		return false
	}
	for i := range a {
		if a[i] != b[i] {
			return false
		}
	}
	return true
}

// ---- case encoding of command tables ----

type cmdSpec struct {
	name    string
	minArgs int
	help    bool
	aliases []string
}

func encodeCmds(cs []cmdSpec) Case {
	var out Case
	for _, c := range cs {
		h := "0"
		if c.help {
			h = "1"
		}
		out = append(out, c.name, strconv.Itoa(c.minArgs), h, strconv.Itoa(len(c.aliases)))
		out = append(out, c.aliases...)
	}
	return out
}

func atoiLoose(s string) int {
	// the model's parse_int / parse_nat: optional sign, digits, anything else is 0
	if s == "" {
		return 0
	}
	neg := false
	d := s
	if s[0] == '-' || s[0] == '+' {
		neg = s[0] == '-'
		d = s[1:]
	}
	if d == "" {
		return 0
	}
	n := 0
	for i := 0; i < len(d); i++ {
		if d[i] < '0' || d[i] > '9' {
			return 0
		}
		n = n*10 + int(d[i]-'0')
		if n > 1<<30 {
			return 0
		}
	}
	if neg {
		return -n
	}
	return n
}

// natLoose is the model's parse_nat: digits only, anything else is 0.
func natLoose(s string) int {
	if s == "" || s[0] == '-' || s[0] == '+' {
		return 0
	}
	return atoiLoose(s)
}

func decodeCmds(c Case) []cmdSpec {
	var out []cmdSpec
	for len(c) >= 4 {
		k := natLoose(c[3])
		rest := c[4:]
		if k > len(rest) {
			k = len(rest)
		}
		out = append(out, cmdSpec{c[0], atoiLoose(c[1]), c[2] == "1", append([]string{}, rest[:k]...)})
		c = rest[k:]
	}
	return out
}

func addErrCode(err error) string {
	switch {
	case err == nil:
		return "ok"
	case strings.HasPrefix(err.Error(), "invalid command name"):
		return "invalid"
	case strings.HasPrefix(err.Error(), "command already registered"):
		return "dupname"
	case strings.HasPrefix(err.Error(), "alias already registered"):
		return "dupalias"
	}
	return "err?" + err.Error()
}

func mkCommand(id int, c cmdSpec) *cmdhandler.Command {
	cmd := &cmdhandler.Command{Name: c.name, MinArgs: c.minArgs, Fn: recFn(id, c.name)}
	if c.aliases != nil {
		cmd.Aliases = append([]string{}, c.aliases...)
	}
	if c.help {
		cmd.Help = "doc-" + strconv.Itoa(id)
	}
	return cmd
}

// probe asks the handler which command answers to key (by invoking it with plenty of
// arguments); "help" cannot be invoked, its presence shows in the built-in help.
func probe(x *ctcpSess, ch *cmdhandler.CmdHandler, key string) string {
	src := &girc.Source{Name: "prober"}
	if key == "help" {
		_, lines := cmdExec(x, ch, girc.Event{Source: src, Command: "PRIVMSG", Params: []string{"me", "!help help"}})
		if len(lines) == 1 && !strings.Contains(lines[0], "unknown command") {
			return "+"
		}
		return "-"
	}
	invs, _ := cmdExec(x, ch, girc.Event{Source: src, Command: "PRIVMSG", Params: []string{"me", "!" + key + " a a a a a a a a"}})
	if len(invs) == 1 {
		return strconv.Itoa(invs[0].id)
	}
	if len(invs) > 1 {
		return "multi"
	}
	return "-"
}

func isASCII(s string) bool {
	for i := 0; i < len(s); i++ {
		if s[i] >= 0x80 {
			return false
		}
	}
	return true
}

// ---- shared by cmd.exec and cmd.seq ----

type cmdReg struct {
	id      int
	minArgs int
}

// cmdBuild registers the commands (functions made by mk) and returns the table the
// statement expects: the registrations Add accepted.
func cmdBuild(ch *cmdhandler.CmdHandler, cs []cmdSpec, mk func(id int, name string) func(*girc.Client, *cmdhandler.Input)) (*cmdhandler.CmdHandler, map[string]cmdReg) {
	table := map[string]cmdReg{}
	for id, spec := range cs {
		cmd := mkCommand(id, spec)
		cmd.Fn = mk(id, spec.name)
		if ch.Add(cmd) == nil {
			m := spec.minArgs
			if m < 0 {
				m = 0
			}
			table[strings.ToLower(spec.name)] = cmdReg{id, m}
			for _, a := range spec.aliases {
				table[strings.ToLower(a)] = cmdReg{id, m}
			}
		}
	}
	return ch, table
}

// cmdObs renders what one message did: "-", the invocation, or the reply line.
func cmdObs(e girc.Event, invs []cmdInv, lines []string) string {
	head := func(l string) string {
		if e.Source == nil {
			return "?" + Hex(l)
		}
		var cands []string
		if len(e.Params) > 0 {
			cands = append(cands, strings.TrimSuffix((&girc.Event{Command: "PRIVMSG", Params: []string{e.Params[0], e.Source.Name + ", x"}}).String(), "x"))
		}
		cands = append(cands, strings.TrimSuffix((&girc.Event{Command: "PRIVMSG", Params: []string{e.Source.Name, " x"}}).String(), " x"))
		for _, h := range cands {
			if strings.HasPrefix(l, h) {
				return Hex(h)
			}
		}
		return "?" + Hex(l)
	}
	genericTail := "type '\x02!help \x0302<command>\x03\x02' to optionally get more info about a specific command."
	if len(lines) > 0 && lines[len(lines)-1] == execBlocked {
		return execBlocked
	}
	switch {
	case len(invs) == 0 && len(lines) == 0:
		return "-"
	case len(invs) == 1 && len(lines) == 0:
		return "I:" + strconv.Itoa(invs[0].id) + ":" + HexList(invs[0].args) + ":" + Hex(invs[0].raw) + ":" + strconv.Itoa(len(invs[0].args))
	case len(invs) == 0 && len(lines) == 1:
		l := lines[0]
		switch {
		case strings.HasSuffix(l, genericTail):
			return "H:generic:" + head(l)
		case strings.Contains(l, "unknown command \x02") && strings.HasSuffix(l, "\x02."):
			return "H:unknown:" + head(l)
		case strings.Contains(l, "there is no help documentation for \x02") && strings.HasSuffix(l, "\x02"):
			return "H:nodoc:" + head(l)
		}
		if i := strings.LastIndex(l, " :: doc-"); i >= 0 {
			if id, err := strconv.Atoi(l[i+8:]); err == nil && strings.Contains(l, "\x02") {
				return "H:text" + strconv.Itoa(id) + ":" + head(l)
			}
		}
		return "R:" + Hex(l)
	}
	return fmt.Sprintf("?multi:%d invocations, %d lines", len(invs), len(lines))
}

// cmdOracle is the statement, evaluated on one message and what it did.
func cmdOracle(prefix string, e girc.Event, table map[string]cmdReg, invs []cmdInv, lines []string) (string, *specM) {
	var m *specM
	if len(e.Params) > 0 {
		m = specAddressed(prefix, e.Params[len(e.Params)-1])
	}
	addressed := e.Source != nil && e.Command == "PRIVMSG" && m != nil && m.name != "help"
	var target cmdReg
	if addressed {
		var ok bool
		if target, ok = table[m.name]; !ok {
			addressed = false
		}
	}
	if len(lines) > 0 && lines[len(lines)-1] == execBlocked {
		return "execute-blocked: Execute did not return, or the function it started did not end, within the deadline", m
	}
	switch {
	case len(invs) > 1:
		return "exec-multiple: more than one invocation for one message", m
	case len(invs) > 0 && (len(e.Params) == 0 || !strings.HasPrefix(e.Params[len(e.Params)-1], prefix)):
		return "invoked-without-prefix: a function ran although the text does not begin with the prefix", m
	case !addressed && len(invs) > 0:
		return "exec-invokes-unaddressed: a function ran for a message that addresses no registered command", m
	case addressed && len(m.args) < target.minArgs && len(invs) > 0:
		return "exec-below-minargs: the function ran with fewer than MinArgs arguments", m
	case addressed && len(m.args) < target.minArgs && (len(lines) != 1 || !strings.HasPrefix(lines[0], "PRIVMSG ")):
		return "exec-no-usage-reply: too few arguments and no usage reply", m
	case addressed && len(m.args) >= target.minArgs && len(invs) == 0:
		return "exec-misses-addressed: the addressed command did not run", m
	case addressed && len(m.args) >= target.minArgs && (invs[0].id != target.id || invs[0].raw != m.raw || !sameStrings(invs[0].args, m.args)):
		return "exec-wrong-args: wrong command, arguments or raw remainder", m
	case addressed && len(m.args) >= target.minArgs && len(lines) != 0:
		return "exec-reply-and-invoke: a reply was sent although the command ran", m
	}
	return "", m
}

// ---- cmd.seq: several messages while the functions of earlier ones still run ----

// seqState is the gate of one pass: every function notes which message started it, takes a
// first copy of its Input, keeps the *Input and blocks; after the last Execute the gate
// opens and it reads the same Input again.
type seqState struct {
	mu      sync.Mutex
	cur     int
	gate    chan struct{}
	arrived int32
	running int32 // Execute calls of the harness that have not returned
	done    chan seqInv
	ch      *cmdhandler.CmdHandler
	reent   bool  // the functions use their own handler (ch.Add) before they wait
	addErrs int32 // ... and count the registrations that were wrongly accepted
}

type seqInv struct {
	idx         int // message being executed when the function started
	early, late cmdInv
}

func snapshotInput(id int, name string, in *cmdhandler.Input) cmdInv {
	o := ""
	if in.Origin != nil {
		o = in.Origin.Last()
	}
	return cmdInv{id, name, append([]string{}, in.Args...), in.RawArgs, o}
}

func (st *seqState) reset() {
	st.mu.Lock()
	st.cur, st.gate, st.done = 0, make(chan struct{}), make(chan seqInv, 64)
	st.mu.Unlock()
	atomic.StoreInt32(&st.arrived, 0)
	atomic.StoreInt32(&st.running, 0)
}

// execute starts Execute on a goroutine the harness can abandon.
func (st *seqState) execute(c *girc.Client, e girc.Event, panics chan interface{}) chan struct{} {
	ret := make(chan struct{})
	atomic.AddInt32(&st.running, 1)
	go func() {
		defer func() {
			if p := recover(); p != nil {
				panics <- p
			}
			atomic.AddInt32(&st.running, -1)
			close(ret)
		}()
		st.ch.Execute(c, e)
	}()
	return ret
}

func isClosed(c chan struct{}) bool {
	select {
	case <-c:
		return true
	default:
		return false
	}
}

func (st *seqState) fn(id int, name string) func(*girc.Client, *cmdhandler.Input) {
	return func(c *girc.Client, in *cmdhandler.Input) {
		if st.reent {
			// a command may use its handler: registering its own name again must be refused
			// (and must not wait for this very function to return)
			if st.ch.Add(&cmdhandler.Command{Name: strings.ToLower(name), Fn: func(*girc.Client, *cmdhandler.Input) {}}) == nil {
				atomic.AddInt32(&st.addErrs, 1)
			}
		}
		st.mu.Lock()
		inv := seqInv{idx: st.cur, early: snapshotInput(id, name, in)}
		gate, done := st.gate, st.done
		st.mu.Unlock()
		atomic.AddInt32(&st.arrived, 1)
		<-gate
		inv.late = snapshotInput(id, name, in) // the same *Input, after the later messages
		done <- inv
	}
}

// accounted: every goroutine beyond base is an Execute call still running or a function at
// the gate, i.e. nothing that a call started is still on its way to the gate.
func (st *seqState) accounted(base int) bool {
	return runtime.NumGoroutine() <= base+int(atomic.LoadInt32(&st.running))+int(atomic.LoadInt32(&st.arrived))
}

// release opens the gate and collects what the functions see now; ok is false when a
// function or an Execute call has still not ended blockDeadline later.
func (st *seqState) release(base int) (out []seqInv, ok bool) {
	n := int(atomic.LoadInt32(&st.arrived))
	close(st.gate)
	ok = waitUntil(blockDeadline(), func() bool {
		return atomic.LoadInt32(&st.running) == 0 && runtime.NumGoroutine() <= base
	})
	for {
		select {
		case v := <-st.done:
			out = append(out, v)
			continue
		default:
		}
		break
	}
	_ = n
	return out, ok
}

func clobbered(v seqInv) bool {
	return !sameStrings(v.early.args, v.late.args) || v.early.raw != v.late.raw || v.early.origin != v.late.origin
}

func genSeqText(r *rand.Rand, prefix string, keys []string, i, nargs int) string {
	if r.Intn(8) == 0 {
		return genCmdText(r, prefix, keys)
	}
	name := Pick(r, "ping", "x", "help", "zzz")
	if len(keys) > 0 && r.Intn(8) != 0 {
		name = keys[r.Intn(len(keys))]
	}
	t := prefix + name
	for j := 0; j < nargs; j++ {
		w := string(rune('a'+i%26)) + strconv.Itoa(j)
		if r.Intn(12) == 0 {
			w = ""
		}
		t += " " + w
	}
	return ctcpWrap(r, t, 10)
}

// ---- generators ----

var (
	name20      = "abcdefghij0123456789"
	name21      = "abcdefghij0123456789x"
	cmdPrefixes = []string{"!", ".", "$^", "\\", "(a|b)", "[x]", "*+?", "\xc3\xa9", "", replacementRune, "a" + replacementRune, "!!", "{b}", "^", "$", "\\Q", "x", " ", "\n", "|", "-", "1", "\xe2\x82\xac!", ".*", "\\E", "(?i)", "\xff", "\xc3", "!\x80", "bot: ", "Bot,", "\x01ACTION ", "\x01", "\xc3\x89", "k", "\xe2\x84\xaa"}
	cmdNames    = []string{"ping", "p", "pong", "help", "a-b_9", name20, name21, "Ping", "PONG", "\xe2\x84\xaa", "\xc4\xb0x", "pi ng", "", "\xc3\xa9", "x", "s", "search", "-", "_", "0", "h", "ping\n", "a.b", "Help", "\xff", "pin\xc3\xa9"}
	cmdSources  = []string{"nick", "Nick[x]", "irc.server.net", "", "sp ace", "n\xff", "a"}
	cmdTargets  = []string{"me", "#chan", "&x", "#", "", "#a b", "+c", "!ABCDEname", "@#chan", "042AAAAAB", "+#chan", "nick", "a\x07"}
)

func genCmdTable(r *rand.Rand) []cmdSpec {
	var cs []cmdSpec
	for i, n := 0, 1+r.Intn(4); i < n; i++ {
		c := cmdSpec{name: Pick(r, cmdNames...), help: r.Intn(2) == 0}
		if r.Intn(3) != 0 {
			c.name = Pick(r, "ping", "pong", "search", "a-b_9", name20, "x", "Ping", "help")
		}
		switch r.Intn(6) {
		case 0:
			c.minArgs = -1
		case 1, 2:
			c.minArgs = 1 + r.Intn(3)
		}
		if r.Intn(2) == 0 {
			c.aliases = []string{}
			for j, m := 0, r.Intn(3); j < m; j++ {
				if r.Intn(3) == 0 {
					c.aliases = append(c.aliases, Pick(r, cmdNames...))
				} else {
					c.aliases = append(c.aliases, Pick(r, "p", "s", "pp", "h", "x", "P", "ping", "q-1"))
				}
			}
		}
		cs = append(cs, c)
	}
	return cs
}

func lowerKeys(cs []cmdSpec) []string {
	var keys []string
	for _, c := range cs {
		for _, n := range append([]string{c.name}, c.aliases...) {
			if l := strings.ToLower(n); specValidName(l) {
				keys = append(keys, l)
			}
		}
	}
	return keys
}

// swapCase flips the case of every letter (the prefix is compared byte for byte, so a
// prefix in another case is a different prefix).
func swapCase(s string) string {
	return strings.Map(func(r rune) rune {
		if unicode.IsUpper(r) {
			return unicode.ToLower(r)
		}
		return unicode.ToUpper(r)
	}, s)
}

// genCmdText builds a near-miss of an invocation of one of keys with the prefix.
func genCmdText(r *rand.Rand, prefix string, keys []string) string {
	name := Pick(r, "ping", "zzz", "help", name20, name21, "p")
	if len(keys) > 0 && r.Intn(5) != 0 {
		name = keys[r.Intn(len(keys))]
	}
	switch r.Intn(22) {
	case 0:
		name = strings.ToUpper(name)
	case 1:
		name += "x"
	case 2:
		if len(name) > 1 {
			name = name[:len(name)-1]
		}
	case 3:
		name = strings.Title(name)
	case 4:
		name = (name + name20)[:20]
	case 5:
		name = (name + name21)[:21]
	}
	tail := ""
	switch r.Intn(16) {
	case 0, 1, 2:
	case 3:
		tail = " "
	case 4, 5:
		tail = " a"
	case 6, 7:
		tail = " a b"
	case 8:
		tail = "  a"
	case 9:
		tail = " a "
	case 10:
		tail = Pick(r, " a\nb", "\n", " \n", " a\n", "\na")
	case 11:
		tail = Pick(r, "\ta", " a\rb", " \xff\xfe", "\r", " \x00", ".", "!", ":")
	case 12:
		tail = " a b c d e"
	case 13:
		tail = " " + Pick(r, append([]string{"nosuch", "HELP", "Ping", "\xe2\x84\xaa", "\xff", "a\"b", "x\\y", "\xc3\xa9"}, keys...)...) + Pick(r, "", " extra")
	case 14:
		tail = " a  b"
	default:
		tail = " " + RandBytes(r, r.Intn(8), "ab \n-_")
	}
	p := prefix
	switch r.Intn(24) {
	case 0:
		p = ""
	case 1:
		p = prefix + prefix
	case 2:
		p = Pick(r, "?", "!", ".", "x")
	case 3:
		p = " " + prefix
	case 4:
		p = strings.ReplaceAll(prefix, replacementRune, Pick(r, "\xff", "\x80", "\xc3", "\xe2\x82", replacementRune))
	case 5:
		if len(prefix) > 0 {
			p = prefix[:len(prefix)-1]
		}
	case 6, 7:
		p = swapCase(prefix)
	}
	return ctcpWrap(r, p+name+tail, 14)
}

// ctcpWrap: once in n times the text arrives as the body of a CTCP ACTION (/me) or of
// another \x01-delimited message.  Such a text begins with \x01, not with the prefix: nothing
// may run and nothing may be answered (unless the prefix itself begins with \x01).
func ctcpWrap(r *rand.Rand, text string, n int) string {
	if r.Intn(n) != 0 {
		return text
	}
	return Pick(r, "\x01ACTION ", "\x01ACTION ", "\x01ACTION ", "\x01VERSION ", "\x01", "\x01ACTION", "\x01action ") + text + Pick(r, "\x01", "\x01", "\x01", "")
}

func cmdExecSig(e girc.Event, m *specM, nInv, nLines int) string {
	sig := "src"
	if e.Source == nil {
		sig = "nosrc"
	}
	if e.Command != "PRIVMSG" {
		sig += "/othercmd"
	}
	switch {
	case m == nil:
		sig += "/unaddressed"
	case m.name == "help":
		sig += "/help" + strconv.Itoa(len(m.args))
	default:
		sig += "/addressed" + strconv.Itoa(len(m.args))
	}
	return sig + "/i" + strconv.Itoa(nInv) + "r" + strconv.Itoa(nLines)
}

func init() {
	Register(&Suite{
		Name: "lib.lower",
		Prop: []string{"C18"},
		Fixed: func() []Case {
			var out []Case
			for a := 0; a < 256; a++ {
				out = append(out, Case{string([]byte{byte(a)})}, Case{"A" + string([]byte{byte(a)}) + "Z"})
			}
			for _, s := range []string{"\xe2\x84\xaa", "\xc4\xb0", "\xc4\xb1", "\xc5\xbf", "\xe2\x84\xab", "\xe2\x84", "\xc4", "a\xe2\x84\xaab", "\xc4\xb0\xc4\xb0", "\xef\xbf\xbd", "\xe2\x84\xaa\xff", "\xc4\xb1A", "\xe1\xba\x9e", "\xc3\x89"} {
				out = append(out, Case{s}, Case{"X" + s}, Case{s + "Y"})
			}
			// every non-ASCII rune whose lower-case image is ASCII (the model knows U+0130 and
			// U+212A; a Unicode version that adds another one shows up here as a disagreement)
			for r := rune(0x80); r <= unicode.MaxRune; r++ {
				if r >= 0xD800 && r <= 0xDFFF {
					continue
				}
				if unicode.ToLower(r) < 0x80 {
					out = append(out, Case{string(r)}, Case{"A" + string(r) + "z"})
				}
			}
			return out
		},
		Exhaustive: "all single bytes, alone and between ASCII letters; every rune of Unicode whose lower-case image is ASCII",
		Gen: func(r *rand.Rand) Case {
			var sb strings.Builder
			for i, n := 0, r.Intn(8); i < n; i++ {
				switch r.Intn(8) {
				case 0:
					sb.WriteByte(byte(r.Intn(256)))
				case 1:
					sb.WriteRune(rune(r.Intn(0x3000)))
				case 2:
					sb.WriteString(Pick(r, "\xe2\x84\xaa", "\xc4\xb0", "\xc4\xb1", "\xc5\xbf", "\xe2\x84", "\xc4"))
				default:
					sb.WriteString(Pick(r, "a", "Z", "-", "_", "9", " ", "Q"))
				}
			}
			return Case{sb.String()}
		},
		Run: func(c Case) Result {
			l := strings.ToLower(c[0])
			if isASCII(l) {
				sig := "ascii"
				if !isASCII(c[0]) {
					sig = "ascii-image-of-non-ascii"
				}
				return Result{Obs: "=" + Hex(l), Sig: sig}
			}
			return Result{Obs: "-", Sig: "nonascii"}
		},
	})

	Register(&Suite{
		Name: "cmd.match",
		Prop: []string{"C18"},
		Fixed: func() []Case {
			var out []Case
			// every byte value right after the prefix, inside the name, after the name and in the arguments
			for b := 0; b < 256; b++ {
				s := string([]byte{byte(b)})
				out = append(out, Case{"!", "!" + s}, Case{"!", "!" + s + "b"}, Case{"!", "!a" + s + "b"}, Case{"!", "!ab" + s},
					Case{"!", "!ab" + s + "c"}, Case{"!", "!ab " + s}, Case{"!", "!ab c" + s + "d"}, Case{"!", s + "ab"}, Case{"", s + "ab"},
					Case{s, s + "ab c"}, Case{s, "ab c"}, Case{replacementRune, s + "ab"}, Case{"!" + s, "!" + s + "ab"})
			}
			for _, p := range cmdPrefixes {
				for _, t := range []string{"ping", "ping a b", "ping ", "ping  a", "ping a ", "ping\n", "ping a\n", "Ping", name20, name21, name20 + " a", name21 + " a", "help", "help ping", ""} {
					out = append(out, Case{p, p + t}, Case{p, t}, Case{p, " " + p + t}, Case{p, p + p + t}, Case{p, swapCase(p) + t})
					out = append(out, Case{p, "\x01ACTION " + p + t + "\x01"}, Case{p, "\x01" + p + t + "\x01"}, Case{p, "\x01ACTION " + p + t})
				}
			}
			for n := 0; n <= 23; n++ {
				out = append(out, Case{"!", "!" + strings.Repeat("a", n)}, Case{"!", "!" + strings.Repeat("a", n) + " x"}, Case{"a", "a" + strings.Repeat("a", n)})
			}
			return out
		},
		Exhaustive: "every byte value at each position class of an invocation (first name byte, inside and after the name, in the arguments, as the prefix); name lengths 0-23",
		Gen: func(r *rand.Rand) Case {
			prefix := Pick(r, cmdPrefixes...)
			if r.Intn(3) == 0 {
				return Case{prefix, prefix + RandBytes(r, r.Intn(24), "ab-_9 \nA!z0")}
			}
			return Case{prefix, genCmdText(r, prefix, []string{"ping", "a-b_9", name20, "x"})}
		},
		Run: func(c Case) Result {
			prefix, text := c[0], c[1]
			ch, err := cmdhandler.New(prefix)
			if err != nil {
				// every byte string is a prefix ("all prefixes"): New has no reason to fail
				return Result{Obs: "E", Sig: "new-fails", Oracle: "new-rejects-prefix: New fails for prefix " + strconv.Quote(prefix) + ": " + err.Error()}
			}
			// register every substring of the text that is a valid name
			seen := map[string]bool{"help": true}
			id := 0
			for i := 0; i < len(text); i++ {
				for j := i + 1; j <= len(text) && j <= i+20 && specNameByte(text[j-1]); j++ {
					if n := text[i:j]; !seen[n] {
						seen[n] = true
						if err := ch.Add(&cmdhandler.Command{Name: n, Fn: recFn(id, n)}); err != nil {
							return Result{Obs: "?add:" + err.Error(), Oracle: "add-rejects-valid: " + err.Error(), Sig: "add"}
						}
						id++
					}
				}
			}
			x := cmdSession()
			invs, lines := cmdExec(x, ch, girc.Event{Source: &girc.Source{Name: "nick"}, Command: "PRIVMSG", Params: []string{"me", text}})
			var res Result
			switch {
			case len(invs) == 0 && len(lines) == 0:
				res.Obs = "-"
			case len(invs) == 0 && len(lines) == 1 && strings.HasPrefix(lines[0], "PRIVMSG nick :"):
				res.Obs = "help"
			case len(invs) == 1 && len(lines) == 0:
				res.Obs = Hex(invs[0].name) + "/" + Hex(invs[0].raw) + "/" + HexList(invs[0].args) + "/" + strconv.Itoa(len(invs[0].args))
			default:
				res.Obs = fmt.Sprintf("?multi:%d invocations, %d lines", len(invs), len(lines))
			}
			m := specAddressed(prefix, text)
			switch {
			case m == nil:
				res.Sig = "unaddressed"
			case m.name == "help":
				res.Sig = "help"
			default:
				res.Sig = "addressed/" + strconv.Itoa(len(m.args))
			}
			if !utf8.ValidString(prefix) {
				res.Sig += "/prefix-not-utf8"
			}
			switch {
			case len(lines) > 0 && lines[len(lines)-1] == execBlocked:
				res.Oracle = "execute-blocked: Execute did not return, or the function it started did not end, within the deadline"
			case len(invs) > 1:
				res.Oracle = "match-multiple: more than one function invoked"
			case len(invs) > 0 && !strings.HasPrefix(text, prefix):
				// repaired in cd20b6b (a U+FFFD of the prefix matched any invalid byte of the text)
				res.Oracle = "invoked-without-prefix: a function ran although the text does not begin with the prefix"
			case (m == nil || m.name == "help") && len(invs) > 0:
				res.Oracle = "match-invokes-unaddressed: a function ran for a text that addresses no command"
			case m != nil && m.name != "help" && len(invs) == 0:
				res.Oracle = "match-misses-addressed: the addressed command did not run"
			case m != nil && m.name != "help" && (invs[0].name != m.name || invs[0].raw != m.raw || !sameStrings(invs[0].args, m.args)):
				res.Oracle = "match-wrong-args: wrong command, arguments or raw remainder"
			case m != nil && m.name != "help" && invs[0].origin != text:
				res.Oracle = "match-origin: Input.Origin is not the message"
			}
			return res
		},
	})

	Register(&Suite{
		Name: "cmd.add",
		Prop: []string{"C18"},
		Fixed: func() []Case {
			var out []Case
			one := func(cs ...cmdSpec) { out = append(out, encodeCmds(cs)) }
			one(cmdSpec{name: "ping", aliases: []string{"p"}}, cmdSpec{name: "pong", aliases: []string{"p"}})
			one(cmdSpec{name: "self", aliases: []string{"self"}})
			one(cmdSpec{name: "two", aliases: []string{"x", "x"}})
			one(cmdSpec{name: "a", aliases: []string{"b", "c"}}, cmdSpec{name: "d", aliases: []string{"e", "c", "f"}}, cmdSpec{name: "e"})
			one(cmdSpec{name: "a"}, cmdSpec{name: "A"})
			one(cmdSpec{name: "a", aliases: []string{"B"}}, cmdSpec{name: "b"})
			one(cmdSpec{name: "\xe2\x84\xaa"}, cmdSpec{name: "k"})
			one(cmdSpec{name: "help", help: true}, cmdSpec{name: "x", aliases: []string{"help"}})
			one(cmdSpec{name: "ok", aliases: []string{"bad alias"}}, cmdSpec{name: "ok"})
			one(cmdSpec{name: "ok", aliases: []string{"fine", name21}}, cmdSpec{name: "fine"})
			for b := 0; b < 256; b++ {
				s := string([]byte{byte(b)})
				one(cmdSpec{name: s}, cmdSpec{name: "a" + s + "b"}, cmdSpec{name: "n", aliases: []string{s}})
			}
			for n := 0; n <= 22; n++ {
				one(cmdSpec{name: strings.Repeat("a", n)}, cmdSpec{name: "x", aliases: []string{strings.Repeat("b", n)}})
			}
			return out
		},
		Exhaustive: "every byte value as a name, inside a name and as an alias; name and alias lengths 0-22",
		Gen:        func(r *rand.Rand) Case { return encodeCmds(genCmdTable(r)) },
		Run: func(c Case) Result {
			cs := decodeCmds(c)
			x := cmdSession()
			ch, err := cmdhandler.New("!")
			if err != nil {
				return Result{Obs: "E", Oracle: "new-rejects-prefix: " + err.Error()}
			}
			// probe universe in order of first appearance
			var keys []string
			seen := map[string]bool{}
			for _, k := range lowerKeys(cs) {
				if !seen[k] {
					seen[k] = true
					keys = append(keys, k)
				}
			}
			snapshot := func() []string {
				out := make([]string, len(keys))
				for i, k := range keys {
					out[i] = probe(x, ch, k)
				}
				return out
			}
			var codes []string
			oracle := ""
			sig := map[string]bool{}
			before := snapshot()
			for id, spec := range cs {
				err := ch.Add(mkCommand(id, spec))
				code := addErrCode(err)
				codes = append(codes, code)
				sig[code] = true
				after := snapshot()
				// the statement, on this registration
				own := []string{strings.ToLower(spec.name)}
				for _, a := range spec.aliases {
					own = append(own, strings.ToLower(a))
				}
				bad := false
				dup := map[string]bool{}
				for _, k := range own {
					if !specValidName(k) {
						bad = true
						continue
					}
					for i, kk := range keys {
						if kk == k && before[i] != "-" {
							bad = true
						}
					}
					if dup[k] {
						bad = true
					}
					dup[k] = true
				}
				if oracle == "" {
					switch {
					case err != nil && !sameStrings(before, after):
						oracle = fmt.Sprintf("add-partial-registration: Add #%d returned %q but changed what is invocable", id, err.Error())
					case err == nil && bad:
						oracle = fmt.Sprintf("add-accepts-invalid: Add #%d accepted an invalid or duplicate name/alias", id)
					case err != nil && !bad:
						oracle = fmt.Sprintf("add-rejects-valid: Add #%d rejected a valid registration: %s", id, err.Error())
					case err == nil:
						for i, k := range keys {
							want := before[i]
							if dup[k] {
								want = strconv.Itoa(id)
								if k == "help" {
									want = "+"
								}
							}
							if after[i] != want {
								oracle = fmt.Sprintf("add-not-registered: after Add #%d key %q answers %s, want %s", id, k, after[i], want)
							}
						}
					}
				}
				before = after
			}
			var probes []string
			for i, k := range keys {
				probes = append(probes, Hex(k)+"="+before[i])
			}
			var sigs []string
			for _, k := range []string{"ok", "invalid", "dupname", "dupalias"} {
				if sig[k] {
					sigs = append(sigs, k)
				}
			}
			s := strings.Join(sigs, "+")
			if len(cs) == 0 {
				s = "trivial-empty"
			}
			return Result{Obs: strings.Join(codes, ",") + "|" + strings.Join(probes, ","), Oracle: oracle, Sig: s}
		},
	})

	Register(&Suite{
		Name: "cmd.exec",
		Prop: []string{"C18"},
		Gen: func(r *rand.Rand) Case {
			prefix := Pick(r, cmdPrefixes...)
			if r.Intn(3) == 0 {
				prefix = Pick(r, "!", ".", "$^")
			}
			cs := genCmdTable(r)
			text := genCmdText(r, prefix, lowerKeys(cs))
			sf, sn := "1", Pick(r, cmdSources...)
			if r.Intn(3) != 0 {
				sn = "nick"
			}
			if r.Intn(10) == 0 {
				sf = "0"
			}
			cmd := "PRIVMSG"
			if r.Intn(10) == 0 {
				cmd = Pick(r, "NOTICE", "privmsg", "JOIN", "", "TOPIC", "PRIVMSGS")
			}
			var params []string
			switch r.Intn(12) {
			case 0:
				params = []string{text}
			case 1:
				params = []string{}
			case 2:
				params = []string{Pick(r, cmdTargets...), text, "extra"}
			case 3:
				params = []string{Pick(r, cmdTargets...), "x", text}
			default:
				params = []string{Pick(r, cmdTargets...), text}
			}
			out := Case{prefix, sf, sn, cmd, strconv.Itoa(len(params))}
			out = append(out, params...)
			return append(out, encodeCmds(cs)...)
		},
		Run: func(c Case) Result {
			if len(c) < 5 {
				return Result{Obs: "?args"}
			}
			prefix := c[0]
			k := natLoose(c[4])
			rest := c[5:]
			if k > len(rest) {
				k = len(rest)
			}
			e := girc.Event{Command: c[3], Params: append([]string{}, rest[:k]...)}
			if c[1] == "1" {
				e.Source = &girc.Source{Name: c[2]}
			}
			cs := decodeCmds(rest[k:])
			ch0, err := cmdhandler.New(prefix)
			if err != nil {
				return Result{Obs: "E", Sig: "new-fails", Oracle: "new-rejects-prefix: New fails for prefix " + strconv.Quote(prefix) + ": " + err.Error()}
			}
			ch, table := cmdBuild(ch0, cs, recFn)
			x := cmdSession()
			invs, lines := cmdExec(x, ch, e)
			var res Result
			res.Obs = cmdObs(e, invs, lines)
			var m *specM
			res.Oracle, m = cmdOracle(prefix, e, table, invs, lines)
			res.Sig = cmdExecSig(e, m, len(invs), len(lines))
			return res
		},
	})
	Register(&Suite{
		Name: "cmd.seq",
		Prop: []string{"C18"},
		Fixed: func() []Case {
			var out []Case
			one := func(prefix, target string, texts []string, cs ...cmdSpec) {
				for _, mode := range []string{"0", "1"} {
					c := Case{prefix, target, mode, strconv.Itoa(len(texts))}
					c = append(c, texts...)
					out = append(out, append(c, encodeCmds(cs)...))
				}
			}
			x := cmdSpec{name: "x"}
			y := cmdSpec{name: "y", aliases: []string{"yy"}, minArgs: 2, help: true}
			one("!", "me", []string{"!x one two three", "!x four five"}, x)
			one("!", "me", []string{"!x a", "!x b c", "!x d e f", "!x g h i j"}, x)
			one("!", "me", []string{"!x a b c d", "!x e f g", "!x h i", "!x j", "!x"}, x)
			one("!", "#chan", []string{"!x a b", "!y c d e", "!yy f", "!help y", "!x g"}, x, y)
			one("!", "me", []string{"!x 1 2 3 4 5 6 7 8 9 10", "!x a", "!x b c d e f g h i j k l", "!y m n"}, x, y)
			one("", "me", []string{"x a  b ", "x", "x  ", "y 1 2"}, x, y)
			one("!", "me", []string{"!x same", "!x same", "!x same"}, x)
			one("!", "me", []string{"!nope a", "x a", "!X a", "!x a\nb"}, x)
			one("!", "#chan", []string{"\x01ACTION !x a b\x01", "!x c", "\x01ACTION !y d\x01", "\x01!x e\x01", "\x01VERSION !help x\x01"}, x, y)
			one("!", "@#chan", []string{"!y a", "!x b", "!help y", "!y"}, x, y)
			one("!", "042AAAAAB", []string{"!y a", "!x b", "!help", "!yy c"}, x, y)
			return out
		},
		Gen: func(r *rand.Rand) Case {
			prefix := "!"
			if r.Intn(4) == 0 {
				prefix = Pick(r, cmdPrefixes...)
			}
			cs := genCmdTable(r)
			if r.Intn(2) == 0 {
				cs = append(cs, cmdSpec{name: "x"})
			}
			keys := lowerKeys(cs)
			k := 2 + r.Intn(5)
			n, step := r.Intn(7), Pick(r, "up", "down", "same", "rand")
			texts := make([]string, k)
			for i := range texts {
				texts[i] = genSeqText(r, prefix, keys, i, n)
				switch step {
				case "up":
					n++
				case "down":
					if n > 0 {
						n--
					}
				case "rand":
					n = r.Intn(11)
				}
			}
			target := Pick(r, "me", "me", "#chan")
			if r.Intn(5) == 0 {
				target = Pick(r, cmdTargets...)
			}
			c := Case{prefix, target, Pick(r, "0", "1"), strconv.Itoa(k)}
			c = append(c, texts...)
			return append(c, encodeCmds(cs)...)
		},
		Run: func(c Case) Result {
			if len(c) < 4 {
				return Result{Obs: "?args"}
			}
			prefix, target := c[0], c[1]
			k := natLoose(c[3])
			rest := c[4:]
			if k > len(rest) {
				k = len(rest)
			}
			texts := rest[:k]
			cs := decodeCmds(rest[k:])
			// a handler of its own for every case: a wedged one is left behind with its goroutines
			ch0, err := cmdhandler.New(prefix)
			if err != nil {
				return Result{Obs: "E", Sig: "new-fails", Oracle: "new-rejects-prefix: New fails for prefix " + strconv.Quote(prefix) + ": " + err.Error()}
			}
			st := &seqState{ch: ch0, reent: c[2] == "1"}
			st.reset()
			ch, table := cmdBuild(ch0, cs, st.fn)
			_ = ch
			x := cmdSession()
			event := func(text string) girc.Event {
				return girc.Event{Source: &girc.Source{Name: "nick"}, Command: "PRIVMSG", Params: []string{target, text}}
			}
			var res Result
			blocked := func(format string, a ...interface{}) {
				atomic.AddInt32(&blockedVerdicts, 1)
				if res.Oracle == "" {
					res.Oracle = "execute-blocked: " + fmt.Sprintf(format, a...)
				}
			}
			panics := make(chan interface{}, 2*k+2)

			// pass 1: one message after the other, each Execute on a goroutine of its own; no
			// function returns before the last message has been handled.  A message is handled
			// when its Execute has returned or its function has started, and nothing is on its
			// way to the gate any more.
			base := runtime.NumGoroutine()
			lines := make([][]string, k)
			stuck := false
			for i, text := range texts {
				st.mu.Lock()
				st.cur = i
				st.mu.Unlock()
				mark := x.s.Mark()
				before := atomic.LoadInt32(&st.arrived)
				ret := st.execute(x.s.C, event(text), panics)
				handled := waitUntil(blockDeadline(), func() bool {
					return (isClosed(ret) || atomic.LoadInt32(&st.arrived) > before) && st.accounted(base)
				})
				if !handled {
					blocked("message %d of %d %q: Execute neither returned nor started its function within %v while the functions of %d earlier messages were still running (re-entrant functions: %v)", i, k, text, blockDeadline(), before, st.reent)
					stuck = true
					break
				}
				lines[i] = cmdFlush(x, mark)
			}
			mark := x.s.Mark()
			held, ended := st.release(base)
			if !ended && !stuck {
				blocked("after the gate was opened an Execute call or a function did not end within %v", blockDeadline())
			}
			late := cmdFlush(x, mark) // replies of calls that only got through after the release
			select {
			case p := <-panics:
				panic(p)
			default:
			}
			obs := make([]string, k)
			nInv, nClob := 0, 0
			for i, text := range texts {
				var invs []cmdInv
				for _, v := range held {
					if v.idx != i {
						continue
					}
					invs = append(invs, v.late)
					nInv++
					if clobbered(v) {
						nClob++
						if res.Oracle == "" {
							res.Oracle = fmt.Sprintf("args-clobbered: message %d %q started its function with Args %q RawArgs %q; after the later messages the same Input has Args %q RawArgs %q Origin %q", i, text, v.early.args, v.early.raw, v.late.args, v.late.raw, v.late.origin)
						}
					}
				}
				e := event(text)
				obs[i] = cmdObs(e, invs, lines[i])
				if o, _ := cmdOracle(prefix, e, table, invs, lines[i]); o != "" && res.Oracle == "" {
					res.Oracle = fmt.Sprintf("%s [message %d of %d: %q]", o, i, k, text)
				}
			}
			if len(late) > 0 && res.Oracle == "" {
				res.Oracle = fmt.Sprintf("seq-late-reply: %d reply line(s) were only written after the gate was opened", len(late))
			}
			if n := atomic.LoadInt32(&st.addErrs); n > 0 && res.Oracle == "" {
				res.Oracle = fmt.Sprintf("add-accepts-invalid: a function registered its own name again %d time(s) and Add accepted it", n)
			}
			res.Obs = strings.Join(obs, ";")
			res.Sig = fmt.Sprintf("k%d/i%d", k, nInv)
			if st.reent {
				res.Sig += "/reentrant"
			}
			if nInv < 2 {
				res.Sig = "trivial-fewer-than-two-invocations"
			}
			if stuck || !ended {
				return res // the handler is wedged: leave it (and its goroutines) behind
			}

			// pass 2 (oracle only): the same messages from k goroutines at once; every function
			// must end up with the arguments of its own message, and the same functions must
			// run as in pass 1
			st.reset()
			base = runtime.NumGoroutine()
			mark = x.s.Mark()
			rets := make([]chan struct{}, 0, k)
			for _, text := range texts {
				rets = append(rets, st.execute(x.s.C, event(text), panics))
			}
			all := waitUntil(blockDeadline(), func() bool {
				done := 0
				for _, r := range rets {
					if isClosed(r) {
						done++
					}
				}
				return (done == len(rets) || int(atomic.LoadInt32(&st.arrived)) >= nInv) && st.accounted(base)
			})
			if !all {
				blocked("concurrent Execute of %d messages: only %d of the %d functions of the sequential pass started within %v", k, atomic.LoadInt32(&st.arrived), nInv, blockDeadline())
			}
			conc, ended2 := st.release(base)
			if !ended2 && all {
				blocked("concurrent Execute: a call or a function did not end within %v after the gate was opened", blockDeadline())
			}
			cmdFlush(x, mark)
			select {
			case p := <-panics:
				panic(p)
			default:
			}
			count := map[string]int{}
			for _, v := range held {
				count[strconv.Itoa(v.late.id)+"/"+v.late.origin]++
			}
			for _, v := range conc {
				count[strconv.Itoa(v.late.id)+"/"+v.late.origin]--
				m := specAddressed(prefix, v.late.origin)
				if res.Oracle == "" && (clobbered(v) || m == nil || m.raw != v.late.raw || !sameStrings(m.args, v.late.args)) {
					res.Oracle = fmt.Sprintf("args-clobbered: concurrent Execute: the function started for %q ended with Args %q RawArgs %q (started with Args %q)", v.late.origin, v.late.args, v.late.raw, v.early.args)
				}
			}
			for key, n := range count {
				if n != 0 && res.Oracle == "" {
					res.Oracle = fmt.Sprintf("seq-concurrent-differs: concurrent Execute ran %q %+d times compared with the sequential pass", key, -n)
				}
			}
			return res
		},
	})
}
