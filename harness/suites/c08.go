package suites

// C08 — capability negotiation.
//
//	cap.parse      synchronous: parseCap through girc.VerifParseCap.
//	cap.session    connected (MockConnect over net.Pipe): CAP events are run through
//	               Client.RunHandlers one at a time; after each one a tagged PRIVMSG is
//	               pushed through Client.Send and a PING is sent by the peer, so that the
//	               lines the client wrote for this round are exactly those in front of the
//	               PONG.
//	cap.enum       as cap.session; the fixed part is the COMPLETE set of sessions of at most 3
//	               steps over a 9-letter alphabet of server lines (incl. a reconnect) under 3
//	               configurations; the generated part draws longer sequences over the alphabet.
//	cap.tagsrace   the tag gate under a blocked socket write (see the comment at runTagsRace).
//	cap.ackremoval as cap.session, but the generated ACK lines may carry "-name" tokens
//	               (IRCv3: the server acknowledges that the capability was DISABLED).
//
// REQ safety is judged per negotiation round: a name in a CAP REQ must be "on offer", i.e.
// listed by an LS/NEW line since the last line that concluded a round (ACK or NAK) and not
// named by a DEL since.  The current code prunes tmpCap on ACK only; a name that is not on
// offer but was listed since the last ACK (it survived a NAK or a DEL) is reported under the
// narrow class tmpcap-not-pruned (finding, notes/proposed-fixes/cap-tmpcap-prune.diff); a name
// that survived an ACK, or was never listed, under req-unadvertised.  Completeness: at the final
// line of a listing every supported name on offer must be in the REQ, and CAP END is legitimate
// only when there is none (class req-incomplete).  After an ACK answered by
// END or AUTHENTICATE tmpCap must be empty (class tmpcap-not-cleared, through VerifCapState).
//
// The oracle keeps two ledgers of "acknowledged and not since deleted": the IRCv3 reading
// (a "-name" token removes name) and the literal one (every token is a name).  The property
// is judged against the first; where the implementation differs from it but agrees with the
// second, the failure is reported under the narrow class ack-removal-ignored (known finding,
// notes/proposed-fixes/cap-ack-removal.diff), any other difference under hascap-mismatch /
// tags-ungated / auth-unconfigured.
//
// A session case is: cfg bits, SupportedCaps, probe names, then one argument per CAP event
// (its Params joined by LF).  The argument "\x01reconnect" is not an event: the client is
// closed and connected again (same Client, new pipe), which must start from empty
// tmpCap / enabledCap ("advertised earlier on THIS connection").

import (
	"bufio"
	"crypto/tls"
	"fmt"
	"io"
	"math/rand"
	"net"
	"sort"
	"strings"
	"sync"
	"time"

	"github.com/lrstanley/girc"
)

// ---------------------------------------------------------------- cap.parse

func renderCapMap(m map[string]map[string]string) string {
	keys := make([]string, 0, len(m))
	for k := range m {
		keys = append(keys, k)
	}
	sort.Strings(keys)
	var sb strings.Builder
	for i, k := range keys {
		if i > 0 {
			sb.WriteByte(';')
		}
		sb.WriteString(Hex(k))
		v := m[k]
		if v == nil {
			sb.WriteByte('-')
			continue
		}
		sb.WriteByte('=')
		ks := make([]string, 0, len(v))
		for a := range v {
			ks = append(ks, a)
		}
		sort.Strings(ks)
		for j, a := range ks {
			if j > 0 {
				sb.WriteByte(',')
			}
			sb.WriteString(Hex(a) + ":" + Hex(v[a]))
		}
	}
	return sb.String()
}

// specParseCap is the oracle's reading of a capability list: tokens separated by single
// spaces; a token "name=v1,v2=x" (name non-empty) carries attributes, each "key" or
// "key=value"; later duplicates win.
func specParseCap(raw string) map[string]map[string]string {
	out := map[string]map[string]string{}
	for _, tok := range strings.Split(raw, " ") {
		eq := strings.IndexByte(tok, '=')
		if eq <= 0 {
			out[tok] = nil
			continue
		}
		vals := map[string]string{}
		for _, a := range strings.Split(tok[eq+1:], ",") {
			if k, v, ok := strings.Cut(a, "="); ok {
				vals[k] = v
			} else {
				vals[a] = ""
			}
		}
		out[tok[:eq]] = vals
	}
	return out
}

var capNames = []string{"multi-prefix", "away-notify", "sasl", "sts", "message-tags", "batch", "server-time",
	"draft/msgid", "echo-message", "x-one", "x-two", "Away-Notify", "MESSAGE-TAGS", "cap-notify", "account-tag"}

func genCapToken(r *rand.Rand) string {
	name := Pick(r, capNames...)
	switch r.Intn(10) {
	case 0:
		return name + "="
	case 1:
		return name + "=" + Pick(r, "a", "a,b", "k=v", "k=v,l=w", "k=", "=v", "a,,b", "port=6697,duration=10", "k=v=w")
	case 2:
		return name + "=" + RandBytes(r, r.Intn(8), "ab=,k ")
	case 3:
		return RandBytes(r, r.Intn(6), "ab=,-~ ")
	}
	return name
}

func genCapList(r *rand.Rand) string {
	n := r.Intn(6)
	toks := make([]string, n)
	for i := range toks {
		toks[i] = genCapToken(r)
	}
	s := strings.Join(toks, " ")
	switch r.Intn(12) {
	case 0:
		s += " "
	case 1:
		s = " " + s
	case 2:
		s = strings.Replace(s, " ", "  ", 1)
	}
	return s
}

func init() {
	Register(&Suite{
		Name: "cap.parse",
		Prop: []string{"C08"},
		Fixed: func() []Case {
			var out []Case
			for _, s := range []string{"", " ", "  ", "a", "a b", "a=", "=a", "=", "a=b", "a=b,c", "a=b=c", "a=b=c,d=e", "a=,", "a=,,",
				"a=b a=c", "a a=b", "a=b a", "sts=port=6697,duration=300,preload", "sasl=PLAIN,EXTERNAL", "a==", "a=b,b,b=c",
				"a=\x00", "\xff=\xfe", "a =b", "a= b"} {
				out = append(out, Case{s})
			}
			return out
		},
		Gen: func(r *rand.Rand) Case {
			switch r.Intn(5) {
			case 0:
				return Case{RandBytes(r, r.Intn(24), "ab= ,")}
			case 1:
				return Case{RandBytes(r, r.Intn(16), "")}
			}
			return Case{genCapList(r)}
		},
		Run: func(c Case) Result {
			got := girc.VerifParseCap(c[0])
			res := Result{Obs: renderCapMap(got)}
			withVals := 0
			for _, v := range got {
				if v != nil {
					withVals++
				}
			}
			res.Sig = fmt.Sprintf("caps%d/vals%d", capMin(len(got), 3), capMin(withVals, 2))
			if want := renderCapMap(specParseCap(c[0])); want != res.Obs {
				res.Oracle = "parse-grammar: parseCap differs from the token grammar: want " + want
			}
			return res
		},
	})
}

func capMin(a, b int) int {
	if a < b {
		return a
	}
	return b
}

// -------------------------------------------------------------- cap.session

type capSession struct {
	c     *girc.Client
	peer  net.Conn // what the scripted server reads and writes (the TLS layer for bit U)
	raw   net.Conn // the pipe end underneath, closed at the end
	tls   bool
	mu    sync.Mutex
	lines []string
	done  chan error
	upg   int32
	umu   sync.Mutex
}

func (s *capSession) snapshot() []string {
	s.mu.Lock()
	defer s.mu.Unlock()
	return append([]string(nil), s.lines...)
}

func (s *capSession) waitFor(pred func([]string) bool, d time.Duration) bool {
	deadline := time.Now().Add(d)
	for {
		if pred(s.snapshot()) {
			return true
		}
		if time.Now().After(deadline) {
			return false
		}
		time.Sleep(200 * time.Microsecond)
	}
}

type capCfg struct {
	sasl            string // "" / "PLAIN" / "EXTERNAL"
	disableSTS      bool
	ssl             bool
	disableFallback bool
	noTracking      bool
	tlsConn         bool // bit U: the connection is TLS (as after an STS upgrade), Config.SSL untouched
	supported       map[string][]string
}

func parseCapCfg(bits, sup string) capCfg {
	cfg := capCfg{supported: map[string][]string{}}
	for _, b := range bits {
		switch b {
		case 'S':
			cfg.sasl = "PLAIN"
		case 'X':
			cfg.sasl = "EXTERNAL"
		case 'D':
			cfg.disableSTS = true
		case 'L':
			cfg.ssl = true
		case 'F':
			cfg.disableFallback = true
		case 'T':
			cfg.noTracking = true
		case 'U':
			cfg.tlsConn = true
		}
	}
	if sup != "" {
		for _, ent := range strings.Split(sup, " ") {
			k, v, has := strings.Cut(ent, ":")
			if !has {
				cfg.supported[k] = nil
			} else {
				cfg.supported[k] = strings.Split(v, ",")
			}
		}
	}
	return cfg
}

func (cc capCfg) girc() girc.Config {
	cfg := girc.Config{Server: "irc.test", Port: 6667, Nick: "me", User: "user", Name: "Real Name", AllowFlood: true,
		DisableSTS: cc.disableSTS, SSL: cc.ssl, DisableSTSFallback: cc.disableFallback}
	switch cc.sasl {
	case "PLAIN":
		cfg.SASL = &girc.SASLPlain{User: "u", Pass: "p"}
	case "EXTERNAL":
		cfg.SASL = &girc.SASLExternal{Identity: "id"}
	}
	if len(cc.supported) > 0 {
		cfg.SupportedCaps = cc.supported
	}
	return cfg
}

func startCapSession(cc capCfg) *capSession {
	s := &capSession{done: make(chan error, 1), tls: cc.tlsConn}
	cfg := cc.girc()
	cfg.RecoverFunc = func(*girc.Client, *girc.HandlerError) {}
	s.c = girc.New(cfg)
	if cc.noTracking {
		s.c.DisableTracking()
	}
	s.c.Handlers.Add(girc.STS_UPGRADE_INIT, func(*girc.Client, girc.Event) {
		s.umu.Lock()
		s.upg++
		s.umu.Unlock()
	})
	s.connect()
	return s
}

// connect runs MockConnect on a fresh pipe and waits for the registration burst; the lines
// of all connections of the session accumulate in s.lines.
func (s *capSession) connect() {
	mark := len(s.snapshot())
	in, out := net.Pipe()
	s.raw = in
	var srv, cli net.Conn = in, out
	if s.tls {
		// an in-process TLS server on the pipe; the client side is a *tls.Conn, which is what
		// Client.TLSConnectionState() looks for (session tickets off: on an unbuffered pipe
		// the post-handshake ticket write would meet the client's first write)
		conf, err := stsServerTLS()
		if err == nil {
			srv = tls.Server(in, conf)
			cli = tls.Client(out, &tls.Config{InsecureSkipVerify: true, ServerName: stsHost})
		}
	}
	s.peer = srv
	go func() {
		r := bufio.NewReader(srv)
		for {
			l, err := r.ReadString('\n')
			if l != "" {
				s.mu.Lock()
				s.lines = append(s.lines, strings.TrimRight(l, "\r\n"))
				s.mu.Unlock()
			}
			if err != nil {
				return
			}
		}
	}()
	go func() { s.done <- s.c.MockConnect(cli) }()
	s.waitFor(func(l []string) bool {
		for _, x := range l[mark:] {
			if strings.HasPrefix(x, "USER ") {
				return true
			}
		}
		return false
	}, 20*time.Second)
	dl := time.Now().Add(20 * time.Second)
	for !s.c.IsConnected() && time.Now().Before(dl) {
		time.Sleep(200 * time.Microsecond)
	}
}

// reconnect closes the client, waits for Connect to return and connects again.
func (s *capSession) reconnect() bool {
	s.c.Close()
	select {
	case <-s.done:
	case <-time.After(20 * time.Second):
		return false
	}
	s.raw.Close()
	dl := time.Now().Add(20 * time.Second)
	for s.c.IsConnected() && time.Now().Before(dl) {
		time.Sleep(200 * time.Microsecond)
	}
	s.connect()
	return true
}

const capReconnect = "\x01reconnect"

func (s *capSession) upgrades() int {
	s.umu.Lock()
	defer s.umu.Unlock()
	return int(s.upg)
}

// capCanonLine renders a line written by the client the way the model driver renders the
// corresponding output.
func capCanonLine(l string) string {
	switch {
	case l == "CAP END":
		return "END"
	case strings.HasPrefix(l, "CAP REQ "):
		rest := strings.TrimPrefix(l, "CAP REQ ")
		rest = strings.TrimPrefix(rest, ":")
		toks := strings.Split(rest, " ")
		sort.Strings(toks)
		return "REQ:" + HexList(toks)
	case l == "CAP REQ":
		return "REQ:"
	case strings.HasPrefix(l, "AUTHENTICATE "):
		return "AUTH:" + Hex(strings.TrimPrefix(strings.TrimPrefix(l, "AUTHENTICATE "), ":"))
	}
	return "?" + Hex(l)
}

// capHasAttr: does the advertisement token "name=a,b=c" carry the attribute key?
func capHasAttr(tok, key string) bool {
	eq := strings.IndexByte(tok, '=')
	if eq <= 0 {
		return false
	}
	for _, a := range strings.Split(tok[eq+1:], ",") {
		if k, _, _ := strings.Cut(a, "="); k == key {
			return true
		}
	}
	return false
}

func capTokenName(tok string) string {
	if eq := strings.IndexByte(tok, '='); eq > 0 {
		return tok[:eq]
	}
	return tok
}

var builtinCapSet = func() map[string]bool {
	_, _, caps := girc.VerifTables()
	m := map[string]bool{}
	for _, c := range caps {
		m[c] = true
	}
	return m
}()

func runCapSession(c Case) Result {
	if len(c) < 3 {
		return Result{Obs: "?short-case"}
	}
	cc := parseCapCfg(c[0], c[1])
	var probes []string
	if c[2] != "" {
		probes = strings.Split(c[2], " ")
	}
	events := c[3:]

	s := startCapSession(cc)
	closed := false
	cleanup := func() {
		if closed {
			return
		}
		closed = true
		s.c.Close()
		select {
		case <-s.done:
		case <-time.After(20 * time.Second):
		}
		s.raw.Close()
	}
	defer cleanup()

	var obs strings.Builder
	var oracle string
	fail := func(cls, format string, a ...interface{}) {
		if oracle == "" {
			oracle = cls + ": " + fmt.Sprintf(format, a...)
		}
	}
	sigs := map[string]bool{}
	deferred := ""

	// registration burst
	checkReg := func(reg []string) {
		idx := func(prefix string) int {
			for i, l := range reg {
				if strings.HasPrefix(l, prefix) {
					return i
				}
			}
			return -1
		}
		ls, nick, user := idx("CAP LS 302"), idx("NICK "), idx("USER ")
		if cc.noTracking {
			if ls >= 0 {
				fail("ls-order", "CAP LS sent although tracking is disabled")
			}
		} else if !(ls >= 0 && nick > ls && user > nick) {
			fail("ls-order", "registration burst %q does not put CAP LS 302 before NICK and USER", reg)
		}
	}
	reg := s.snapshot()
	obs.WriteString("reg=" + HexList(reg))
	checkReg(reg)
	poss := s.c.VerifPossibleCaps()
	obs.WriteString("|poss=" + HexList(poss))

	// the oracle's own reading of the configuration
	supported := func(name string) bool {
		if builtinCapSet[name] {
			return true
		}
		if _, ok := cc.supported[name]; ok {
			return true
		}
		if name == "sasl" {
			return cc.sasl != ""
		}
		if name == "sts" {
			return !cc.disableSTS && !cc.ssl
		}
		return false
	}
	advertised := map[string]bool{}
	offered := map[string]bool{}    // listed since the last ACK/NAK and not deleted since
	offeredLit := map[string]bool{} // listed since the last ACK (what an unpruned tmpCap explains)
	pendingSts := ""                // the pending (supported, on offer) advertisement of sts, e.g. "sts=duration=60"
	enabledStsDuration := false     // sts is acknowledged and the value it was acknowledged with has a duration key
	ledger := map[string]bool{}     // acknowledged and not since deleted / disabled (IRCv3 reading)
	ledgerLit := map[string]bool{}  // the same with "-name" read as a capability name
	lookup := func(l map[string]bool, name string) bool {
		for t := range l {
			if asciiLower(t) == asciiLower(name) {
				return true
			}
		}
		return false
	}
	ended := false

	probeAll := func(k int) {
		obs.WriteString(";h=")
		for _, p := range probes {
			has, panicked := safeHasCap(s.c, p)
			if panicked {
				obs.WriteByte('!')
				if !cc.noTracking {
					fail("hascap-panic", "HasCapability(%q) panicked with tracking enabled", p)
				}
				continue
			}
			obs.WriteString(B(has))
			if want := lookup(ledger, p); has != want {
				if has == lookup(ledgerLit, p) {
					fail("ack-removal-ignored", "round %d: HasCapability(%q)=%v; with \"-name\" in CAP ACK read as the acknowledged removal of name it must be %v", k, p, has, want)
				} else {
					fail("hascap-mismatch", "round %d: HasCapability(%q)=%v, acknowledged and not deleted=%v", k, p, has, want)
				}
			}
		}
	}

	for k, ev := range events {
		if ev == capReconnect {
			mark := len(s.snapshot())
			if !s.reconnect() {
				fail("stall", "round %d: Connect did not return after Close", k)
				obs.WriteString("|c:?")
				break
			}
			// a new connection: nothing advertised, nothing acknowledged
			advertised = map[string]bool{}
			offered = map[string]bool{}
			offeredLit = map[string]bool{}
			ledger = map[string]bool{}
			ledgerLit = map[string]bool{}
			pendingSts, enabledStsDuration = "", false
			reg := s.snapshot()[mark:]
			checkReg(reg)
			tmp, en := s.c.VerifCapState()
			obs.WriteString("|c:reg=" + HexList(reg) + ";t=" + HexList(tmp) + ";e=" + HexList(en))
			probeAll(k)
			sigs["reconnect"] = true
			continue
		}
		params := strings.Split(ev, "\n")
		mark := len(s.snapshot())
		upBefore := s.upgrades()
		s.c.RunHandlers(&girc.Event{Source: &girc.Source{Name: "srv"}, Command: girc.CAP, Params: params})

		sub := ""
		if len(params) >= 2 {
			sub = params[1]
		}
		last := params[len(params)-1]
		// oracle bookkeeping (tracking only: without tracking there is no negotiation)
		if !cc.noTracking {
			switch {
			case (sub == "LS" || sub == "NEW") && len(params) >= 3:
				for _, tok := range strings.Split(last, " ") {
					advertised[capTokenName(tok)] = true
					offered[capTokenName(tok)] = true
					offeredLit[capTokenName(tok)] = true
					if capTokenName(tok) == "sts" && supported("sts") {
						pendingSts = tok
					}
				}
			case sub == "NAK" && len(params) >= 2:
				offered = map[string]bool{}
				pendingSts = ""
			case sub == "ACK" && len(params) == 3:
				for _, tok := range strings.Split(last, " ") {
					switch tok {
					case "sts":
						enabledStsDuration = capHasAttr(pendingSts, "duration")
					case "-sts":
						enabledStsDuration = false
					}
				}
				pendingSts = ""
				offered = map[string]bool{}
				offeredLit = map[string]bool{}
				for _, tok := range strings.Split(last, " ") {
					ledgerLit[tok] = true
					if strings.HasPrefix(tok, "-") {
						delete(ledger, tok[1:])
					} else {
						ledger[tok] = true
					}
				}
			case sub == "DEL" && len(params) >= 2:
				for _, tok := range strings.Split(last, " ") {
					delete(ledger, capTokenName(tok))
					delete(ledgerLit, capTokenName(tok))
					delete(offered, capTokenName(tok))
					if capTokenName(tok) == "sts" {
						pendingSts, enabledStsDuration = "", false
					}
				}
			}
		}

		upgraded := s.upgrades() > upBefore
		var wrote []string
		tagged := false
		errored := false
		if upgraded {
			// c.Close() was called by the handler; the session is over. MockConnect loops
			// once more onto the closed pipe and returns; anything written after the
			// acknowledgement would be in front of that.
			ended = true
			select {
			case err := <-s.done:
				s.done <- err
			case <-time.After(20 * time.Second):
				fail("stall", "round %d: upgrade initiated but MockConnect did not return", k)
			}
			wrote = append(wrote, s.snapshot()[mark:]...)
		} else {
			marker := fmt.Sprintf("m%d", k)
			var tags girc.Tags
			switch k % 4 {
			case 2:
				tags = girc.Tags{}
			case 3:
				tags = nil
			default:
				tags = girc.Tags{"k": "v"}
			}
			s.c.Send(&girc.Event{Command: girc.PRIVMSG, Params: []string{"#v", marker}, Tags: tags})
			pong := "PONG :s" + marker
			s.peer.SetWriteDeadline(time.Now().Add(20 * time.Second))
			_, werr := s.peer.Write([]byte("PING :s" + marker + "\r\n"))
			got := false
			if werr == nil {
				deadline := time.Now().Add(30 * time.Second)
				for !got {
					for _, l := range s.snapshot()[mark:] {
						if l == pong || l == "PONG s"+marker {
							got = true
						}
					}
					if got {
						break
					}
					select {
					case err := <-s.done:
						s.done <- err
						errored = true
					default:
					}
					if errored || time.Now().After(deadline) {
						break
					}
					time.Sleep(200 * time.Microsecond)
				}
			} else {
				errored = true
			}
			if !got && !errored {
				fail("stall", "round %d: no PONG within 30s", k)
			}
			if errored {
				select {
				case err := <-s.done:
					s.done <- err
					if _, ok := err.(*girc.ErrEvent); !ok {
						fail("unexpected-return", "round %d: Connect returned %T %v", k, err, err)
					}
				case <-time.After(20 * time.Second):
					fail("stall", "round %d: peer write failed but Connect did not return", k)
				}
				ended = true
			}
			for _, l := range s.snapshot()[mark:] {
				body := l
				if strings.HasPrefix(l, "@") {
					if i := strings.IndexByte(l, ' '); i >= 0 {
						body = l[i+1:]
					}
				}
				if body == "PRIVMSG #v "+marker || body == "PRIVMSG #v :"+marker {
					tagged = strings.HasPrefix(l, "@")
					continue
				}
				if strings.HasPrefix(l, "PONG ") {
					continue
				}
				wrote = append(wrote, l)
			}
			// tag gating oracle (only meaningful when the marker got through)
			if got {
				wantTag := k%4 < 2 && ledger["message-tags"]
				if tagged != wantTag {
					if tagged == (k%4 < 2 && ledgerLit["message-tags"]) {
						fail("ack-removal-ignored", "round %d: tag section present=%v although the server acknowledged the removal of message-tags (ACK :-message-tags)", k, tagged)
					} else {
						fail("tags-ungated", "round %d: tag section present=%v, message-tags acknowledged=%v", k, tagged, ledger["message-tags"])
					}
				}
			}
		}

		// canonical round observation
		var outs []string
		for _, l := range wrote {
			outs = append(outs, capCanonLine(l))
		}
		if upgraded {
			outs = append(outs, "U")
		}
		if errored {
			outs = append(outs, "E")
		}
		fmt.Fprintf(&obs, "|r%d:%s", k, strings.Join(outs, ","))
		tmp, en := s.c.VerifCapState()
		if !ended {
			obs.WriteString(";t=" + HexList(tmp) + ";e=" + HexList(en) + ";g=" + B(tagged))
		}
		// ---- oracle: an acknowledged round leaves nothing pending
		// (internal state: reported only when nothing on the wire fails later in the session)
		if !ended && !cc.noTracking && sub == "ACK" && len(params) == 3 && len(tmp) != 0 && deferred == "" {
			deferred = fmt.Sprintf("tmpcap-not-cleared: round %d: tmpCap=%q after the ACK that concluded the round (answered by %v)", k, tmp, outs)
		}

		// ---- oracle: REQ safety
		for _, l := range wrote {
			if strings.HasPrefix(l, "CAP REQ") {
				rest := strings.TrimPrefix(strings.TrimPrefix(strings.TrimPrefix(l, "CAP REQ"), " "), ":")
				for _, tok := range strings.Split(rest, " ") {
					switch {
					case !advertised[tok]:
						fail("req-unadvertised", "round %d requests %q which no LS/NEW of this connection listed", k, tok)
					case !offered[tok] && !offeredLit[tok]:
						fail("req-unadvertised", "round %d requests %q which no LS/NEW line of this round listed (it was advertised before an ACK concluded that round)", k, tok)
					case !offered[tok]:
						fail("tmpcap-not-pruned", "round %d requests %q which is no longer on offer: its listing was answered by a NAK, or it was deleted since", k, tok)
					}
					if !supported(tok) {
						fail("req-unsupported", "round %d requests %q which the configuration does not support", k, tok)
					}
				}
			}
		}
		// ---- oracle: STS on a connection that IS secure (bit U: TLS although Config.SSL is
		// false, the state an STS upgrade leaves). The policy is judged as for a secure
		// connection: never another upgrade, and no "invalid policy" ERROR when the
		// acknowledged value carries a duration (a port, if any, is ignored).
		if cc.tlsConn && !cc.noTracking && !cc.disableSTS && sub == "ACK" && len(params) == 3 && ledger["sts"] {
			for _, o := range outs {
				if o == "U" {
					fail("sts-tls-misjudged", "round %d: STS upgrade started on a connection that is already TLS; the round is not concluded", k)
				}
				if o == "E" && enabledStsDuration {
					fail("sts-tls-misjudged", "round %d: sts with a duration acknowledged on a TLS connection, answered by the invalid-policy ERROR instead of CAP END / AUTHENTICATE", k)
				}
			}
		}
		// ---- oracle: REQ completeness. At the final line of a listing the client must request
		// every supported name on offer — listed on ANY line of this listing (since the last
		// concluded round, minus DEL) — and may answer CAP END only if there is none.
		if !cc.noTracking && !ended && (sub == "LS" || sub == "NEW") && len(params) == 3 {
			requested := map[string]bool{}
			for _, l := range wrote {
				if strings.HasPrefix(l, "CAP REQ") {
					rest := strings.TrimPrefix(strings.TrimPrefix(strings.TrimPrefix(l, "CAP REQ"), " "), ":")
					for _, tok := range strings.Split(rest, " ") {
						requested[tok] = true
					}
				}
			}
			var missing []string
			for name := range offered {
				if supported(name) && !requested[name] {
					missing = append(missing, name)
				}
			}
			if len(missing) > 0 {
				sort.Strings(missing)
				fail("req-incomplete", "round %d: final line of the listing answered by %v although %q (advertised in this listing, supported) is not requested", k, outs, missing)
			}
		}
		// ---- oracle: the round concludes (reply patterns with their list parameter)
		conclusions := 0
		for _, o := range outs {
			if o == "END" || strings.HasPrefix(o, "REQ:") || strings.HasPrefix(o, "AUTH:") || o == "U" || o == "E" {
				conclusions++
			} else {
				fail("spurious-write", "round %d: unexpected line %s", k, o)
			}
		}
		if !cc.noTracking && len(params) >= 3 {
			want := -1
			switch {
			case sub == "DEL":
				want = 0
			case sub == "NAK":
				want = 1
			case (sub == "LS" || sub == "NEW") && len(params) == 3:
				want = 1
			case (sub == "LS" || sub == "NEW") && len(params) > 3:
				want = 0
			case sub == "ACK" && len(params) == 3:
				want = 1
			}
			switch {
			case want == 1 && conclusions == 0:
				fail("round-open", "round %d (%q): the client wrote nothing; registration would stall", k, params)
			case want == 1 && conclusions > 1:
				fail("round-multiple", "round %d (%q): %v", k, params, outs)
			case want == 0 && conclusions > 0:
				fail("round-early", "round %d (%q) must not be answered, got %v", k, params, outs)
			}
			if sub == "NAK" && conclusions == 1 && outs[0] != "END" {
				fail("round-open", "round %d: NAK answered by %v", k, outs)
			}
			if (sub == "LS" || sub == "NEW") && len(params) == 3 && conclusions == 1 && outs[0] != "END" && !strings.HasPrefix(outs[0], "REQ:") {
				fail("round-open", "round %d: LS answered by %v", k, outs)
			}
			if strings.HasPrefix(strings.Join(outs, ","), "AUTH:") && (cc.sasl == "" || !ledger["sasl"]) {
				if cc.sasl != "" && ledgerLit["sasl"] {
					fail("ack-removal-ignored", "round %d: AUTHENTICATE although the server acknowledged the removal of sasl", k)
				} else {
					fail("auth-unconfigured", "round %d: AUTHENTICATE without SASL configured and acknowledged", k)
				}
			}
			sigs[sub+fmt.Sprint(capMin(len(params), 5))+"/"+strings.SplitN(strings.Join(outs, ","), ":", 2)[0]] = true
		} else {
			sigs["other"] = true
		}

		// ---- HasCapability probes
		if !ended {
			probeAll(k)
		}
		if ended {
			break
		}
	}
	// after the connection is gone HasCapability is false for every name (enabledCap itself
	// is only cleared by the next connect)
	cleanup()
	dl := time.Now().Add(20 * time.Second)
	for s.c.IsConnected() && time.Now().Before(dl) {
		time.Sleep(200 * time.Microsecond)
	}
	obs.WriteString("|x=")
	for _, p := range probes {
		has, panicked := safeHasCap(s.c, p)
		switch {
		case panicked:
			obs.WriteByte('!')
		default:
			obs.WriteString(B(has))
			if has {
				fail("hascap-disconnected", "HasCapability(%q)=true on a client that is not connected", p)
			}
		}
	}

	if oracle == "" {
		oracle = deferred
	}

	keys := make([]string, 0, len(sigs))
	for k := range sigs {
		keys = append(keys, k)
	}
	sort.Strings(keys)
	if len(keys) > 6 {
		keys = keys[:6]
	}
	return Result{Obs: obs.String(), Oracle: oracle, Sig: c[0] + "/" + strings.Join(keys, "+")}
}

func safeHasCap(c *girc.Client, name string) (has, panicked bool) {
	defer func() {
		if r := recover(); r != nil {
			panicked = true
		}
	}()
	return c.HasCapability(name), false
}

// ---- generators

func genCapSessionCfg(r *rand.Rand) (bits, sup string) {
	if r.Intn(3) == 0 {
		bits += Pick(r, "S", "X")
	}
	if r.Intn(5) == 0 {
		bits += "D"
	}
	if r.Intn(5) == 0 {
		bits += "L"
	}
	if r.Intn(6) == 0 {
		bits += "F"
	}
	if r.Intn(12) == 0 {
		bits += "T"
	}
	if r.Intn(5) == 0 {
		bits += "U"
	}
	switch r.Intn(6) {
	case 0:
		sup = "echo-message"
	case 1:
		sup = "x-one:a,b x-two"
	case 2:
		sup = "x-one:k echo-message:z batch:q"
	case 3:
		sup = Pick(r, "sasl", "sts", "sts:port", "x-one:a x-one:b", "X-One")
	}
	return bits, sup
}

func genCapAdvert(r *rand.Rand, removal bool) string {
	n := 1 + r.Intn(5)
	toks := make([]string, n)
	for i := range toks {
		name := Pick(r, capNames...)
		switch r.Intn(8) {
		case 0:
			switch name {
			case "sts":
				name += "=" + Pick(r, "port=6697", "port=6697,duration=100", "duration=5", "duration=300,preload", "duration", "port=5", "port=", "port=abc", "preload")
			case "sasl":
				name += "=PLAIN,EXTERNAL"
			default:
				name += "=" + Pick(r, "a", "a,b", "k=v", "z", "")
			}
		case 1:
			if name == "sts" {
				name += "=port=" + Pick(r, "21", "20", "65535", "70000", "0", "-1", "+6697")
			}
		}
		toks[i] = name
	}
	s := strings.Join(toks, " ")
	if r.Intn(15) == 0 {
		s += " "
	}
	return s
}

// genCapEvents draws a reply sequence: mostly protocol-shaped rounds, sometimes malformed.
func genCapEvents(r *rand.Rand, removal bool) []string {
	var evs []string
	add := func(params ...string) { evs = append(evs, strings.Join(params, "\n")) }
	var lastAdvert []string
	rounds := 1 + r.Intn(4)
	for i := 0; i < rounds; i++ {
		switch x := r.Intn(20); {
		case x < 8: // LS, possibly multi-line
			for r.Intn(3) == 0 {
				a := genCapAdvert(r, removal)
				lastAdvert = append(lastAdvert, strings.Split(a, " ")...)
				add("*", "LS", "*", a)
			}
			a := genCapAdvert(r, removal)
			switch r.Intn(12) {
			case 0:
				a = ""
			case 1, 2:
				// a multi-line listing whose final line holds nothing the client supports:
				// everything usable was on the continuation lines
				for n := 1 + r.Intn(2); n > 0; n-- {
					c := Pick(r, "multi-prefix away-notify", "server-time", "batch x-vendor", "sasl=PLAIN chghost", "account-tag foo/unknown", "x-vendor")
					lastAdvert = append(lastAdvert, strings.Split(c, " ")...)
					add("*", "LS", "*", c)
				}
				a = Pick(r, "foo/unknown", "bar/unknown example.org/vendor=1", "x-vendor", "", "unknown-cap=a,b")
			}
			lastAdvert = append(lastAdvert, strings.Split(a, " ")...)
			add("*", "LS", a)
			// the usual follow-up
			switch r.Intn(5) {
			case 0:
				add("*", "NAK", a)
			case 1:
			default:
				add("me", "ACK", genCapAckList(r, lastAdvert, removal))
			}
		case x < 11:
			add("me", "ACK", genCapAckList(r, lastAdvert, removal))
		case x < 13:
			add("me", "NAK", genCapAdvert(r, removal))
		case x < 15:
			a := genCapAdvert(r, removal)
			lastAdvert = append(lastAdvert, strings.Split(a, " ")...)
			add("me", "NEW", a)
			if r.Intn(2) == 0 {
				add("me", "ACK", genCapAckList(r, lastAdvert, removal))
			}
		case x < 17:
			add("me", "DEL", genCapAdvert(r, removal))
		default: // malformed / out of pattern
			switch r.Intn(8) {
			case 0:
				add("*", "LS")
			case 1:
				add("*")
			case 2:
				add("*", "ACK")
			case 3:
				add("*", "ACK", "*", genCapAdvert(r, removal))
			case 4:
				add("*", Pick(r, "LIST", "CLEAR", "ls", "ack", ""), genCapAdvert(r, removal))
			case 5:
				add("*", "DEL")
			case 6:
				add("*", "NAK")
			case 7:
				add("*", "LS", "*", "*", genCapAdvert(r, removal))
			}
		}
		if r.Intn(10) == 0 {
			evs = append(evs, capReconnect)
			lastAdvert = nil
		}
	}
	return evs
}

// genCapSecondRound: a first round that is acknowledged (with SASL configured and sasl
// acknowledged the client starts AUTHENTICATE instead of sending CAP END), then the
// cap-notify traffic of a registered connection: DEL / NEW / LS again, each NEW possibly
// acknowledged or refused.
func genCapSecondRound(r *rand.Rand) (string, []string) {
	bits := Pick(r, "S", "S", "X", "SD", "")
	var evs []string
	add := func(params ...string) { evs = append(evs, strings.Join(params, "\n")) }
	pool := []string{"multi-prefix", "away-notify", "cap-notify", "message-tags", "batch", "server-time", "account-tag", "chghost"}
	r.Shuffle(len(pool), func(i, j int) { pool[i], pool[j] = pool[j], pool[i] })
	first := append([]string{}, pool[:1+r.Intn(3)]...)
	if r.Intn(8) > 0 {
		first = append(first, Pick(r, "sasl", "sasl=PLAIN,EXTERNAL"))
	}
	r.Shuffle(len(first), func(i, j int) { first[i], first[j] = first[j], first[i] })
	if len(first) > 1 && r.Intn(3) == 0 {
		add("*", "LS", "*", strings.Join(first[:1], " "))
		add("*", "LS", strings.Join(first[1:], " "))
	} else {
		add("*", "LS", strings.Join(first, " "))
	}
	names := make([]string, len(first))
	for i, f := range first {
		names[i] = capTokenName(f)
	}
	switch r.Intn(8) {
	case 0:
		add("me", "NAK", strings.Join(names, " "))
	default:
		add("me", "ACK", strings.Join(names, " "))
	}
	rest := pool[3:]
	for n := 1 + r.Intn(3); n > 0; n-- {
		if r.Intn(2) == 0 {
			add("me", "DEL", Pick(r, names...))
		}
		nw := Pick(r, rest...)
		if r.Intn(4) == 0 {
			nw += " " + Pick(r, rest...)
		}
		add("me", Pick(r, "NEW", "NEW", "NEW", "LS"), nw)
		switch r.Intn(4) {
		case 0:
			add("me", "NAK", nw)
		case 1:
		default:
			add("me", "ACK", nw)
		}
	}
	return bits, evs
}

func genCapAckList(r *rand.Rand, advert []string, removal bool) string {
	var toks []string
	for _, a := range advert {
		if r.Intn(3) > 0 {
			toks = append(toks, capTokenName(a))
		}
	}
	if r.Intn(6) == 0 {
		toks = append(toks, Pick(r, capNames...)) // not requested
	}
	if removal && r.Intn(2) == 0 {
		toks = append(toks, "-"+Pick(r, "away-notify", "multi-prefix", "message-tags", "batch"))
	}
	if len(toks) == 0 {
		toks = append(toks, Pick(r, capNames...))
	}
	s := strings.Join(toks, " ")
	if r.Intn(15) == 0 {
		s += " "
	}
	return s
}

func capSessionProbes(evs []string) string {
	seen := map[string]bool{}
	var out []string
	add := func(n string) {
		if n != "" && !strings.ContainsAny(n, " \n") && !seen[n] && len(out) < 14 {
			seen[n] = true
			out = append(out, n)
		}
	}
	for _, ev := range evs {
		if ev == capReconnect {
			continue
		}
		p := strings.Split(ev, "\n")
		for _, tok := range strings.Split(p[len(p)-1], " ") {
			n := capTokenName(tok)
			add(n)
			if len(out)%3 == 0 {
				add(strings.ToUpper(n))
			}
			if strings.HasPrefix(n, "-") {
				add(n[1:])
			}
		}
	}
	add("message-tags")
	add("Multi-Prefix")
	return strings.Join(out, " ")
}

func capSessionSuite(name string, removal bool, fixed func() []Case) *Suite {
	return &Suite{
		Name:  name,
		Prop:  []string{"C08"},
		Fixed: fixed,
		Gen: func(r *rand.Rand) Case {
			if r.Intn(6) == 0 {
				bits, evs := genCapSecondRound(r)
				return append(Case{bits, "", capSessionProbes(evs)}, evs...)
			}
			bits, sup := genCapSessionCfg(r)
			evs := genCapEvents(r, removal)
			return append(Case{bits, sup, capSessionProbes(evs)}, evs...)
		},
		Run: func(c Case) Result { return runCapSession(c) },
	}
}

func init() {
	ev := func(p ...string) string { return strings.Join(p, "\n") }
	Register(capSessionSuite("cap.session", false, func() []Case {
		return []Case{
			{"", "", "multi-prefix MULTI-PREFIX sasl", ev("*", "LS", "multi-prefix sasl"), ev("me", "ACK", "multi-prefix")},
			{"S", "", "sasl multi-prefix", ev("*", "LS", "*", "multi-prefix"), ev("*", "LS", "sasl=PLAIN"), ev("me", "ACK", "sasl multi-prefix")},
			{"", "", "sasl", ev("*", "LS", "sasl"), ev("me", "ACK", "sasl")},
			{"", "", "x", ev("*", "LS", "unknown-cap"), ev("*", "LS", "")},
			{"", "", "batch", ev("*", "LS", "batch"), ev("me", "NAK", "batch"), ev("me", "NEW", "away-notify"), ev("me", "ACK", "away-notify batch")},
			{"", "", "sts", ev("*", "LS", "sts=port=6697"), ev("me", "ACK", "sts")},
			{"", "", "sts", ev("*", "LS", "sts=port=20"), ev("me", "ACK", "sts")},
			{"", "", "sts", ev("*", "LS", "sts=duration=20"), ev("me", "ACK", "sts")},
			{"D", "", "sts", ev("*", "LS", "sts=port=6697"), ev("me", "ACK", "sts")},
			{"L", "", "sts", ev("*", "LS", "sts=port=6697"), ev("me", "ACK", "sts")},
			{"", "sts:x", "sts", ev("*", "LS", "sts=port=6697"), ev("me", "ACK", "sts")},
			{"L", "sts", "sts", ev("*", "LS", "sts=port=6697"), ev("me", "ACK", "sts")},
			{"", "", "message-tags Message-Tags", ev("*", "LS", "message-tags"), ev("me", "ACK", "message-tags"), ev("me", "DEL", "message-tags"), ev("me", "NEW", "message-tags"), ev("me", "ACK", "message-tags")},
			{"", "", "message-tags", ev("me", "ACK", "MESSAGE-TAGS"), ev("me", "DEL", "message-tags"), ev("me", "DEL", "MESSAGE-TAGS=x")},
			{"", "x-one:a,b", "x-one", ev("*", "LS", "x-one=c"), ev("*", "LS", "x-one=a"), ev("*", "LS", "x-one")},
			{"T", "", "multi-prefix", ev("*", "LS", "multi-prefix"), ev("me", "ACK", "multi-prefix")},
			{"", "", "a", ev("me", "ACK", "multi-prefix "), ev("me", "ACK", ""), ev("me", "DEL", "")},
			{"", "", "multi-prefix", ev("*", "LS", "multi-prefix multi-prefix=x multi-prefix"), ev("me", "ACK", "multi-prefix multi-prefix")},
			// a connection that is TLS although Config.SSL is false (after an STS upgrade)
			{"U", "", "sts", ev("*", "LS", "sts=duration=300"), ev("me", "ACK", "sts")},
			{"U", "", "sts multi-prefix", ev("*", "LS", "sts=port=6697,duration=300 multi-prefix"), ev("me", "ACK", "sts multi-prefix"), ev("me", "NEW", "batch"), ev("me", "ACK", "batch")},
			{"U", "", "sts", ev("*", "LS", "sts=port=6697"), ev("me", "ACK", "sts")},
			{"US", "", "sts sasl", ev("*", "LS", "sts=duration=1,preload sasl"), ev("me", "ACK", "sts sasl")},
			{"UL", "", "sts", ev("*", "LS", "sts=duration=300"), ev("me", "ACK", "sts")},
			{"UD", "", "sts", ev("*", "LS", "sts=duration=300"), ev("me", "ACK", "sts")},
			// multi-line listings whose final line has nothing usable: the earlier lines count
			{"", "", "away-notify multi-prefix", ev("*", "LS", "*", "away-notify multi-prefix foo/unknown"), ev("*", "LS", "bar/unknown example.org/vendor=1"), ev("me", "ACK", "away-notify multi-prefix")},
			{"S", "", "sasl batch", ev("*", "LS", "*", "sasl=PLAIN"), ev("*", "LS", "*", "batch"), ev("*", "LS", ""), ev("me", "ACK", "batch sasl")},
			{"", "", "batch", ev("*", "LS", "*", "batch"), ev("me", "DEL", "batch"), ev("*", "LS", "x-vendor")},
			// a second round after the ACK that started authentication (cap-notify): only what the new listing offers
			{"S", "", "sasl multi-prefix away-notify", ev("*", "LS", "cap-notify multi-prefix sasl"), ev("me", "ACK", "cap-notify multi-prefix sasl"), ev("me", "DEL", "multi-prefix"), ev("me", "NEW", "away-notify"), ev("me", "ACK", "away-notify")},
			{"X", "", "sasl batch", ev("*", "LS", "*", "sasl=EXTERNAL"), ev("*", "LS", "batch"), ev("me", "ACK", "batch sasl"), ev("me", "NEW", "server-time"), ev("me", "NAK", "server-time"), ev("me", "NEW", "chghost")},
			// reconnects: nothing advertised or acknowledged on the old connection survives
			{"", "", "multi-prefix away-notify batch", ev("*", "LS", "*", "multi-prefix"), capReconnect, ev("*", "LS", "away-notify"), ev("me", "ACK", "away-notify"), capReconnect, ev("me", "NEW", "batch"), ev("me", "ACK", "batch")},
			{"S", "", "sasl message-tags", ev("*", "LS", "sasl message-tags"), ev("me", "ACK", "sasl message-tags"), capReconnect, capReconnect, ev("*", "LS", "")},
			{"T", "", "multi-prefix", ev("*", "LS", "multi-prefix"), capReconnect, ev("me", "ACK", "multi-prefix")},
		}
	}))
	Register(capSessionSuite("cap.ackremoval", true, func() []Case {
		return []Case{
			{"", "", "away-notify -away-notify", ev("*", "LS", "away-notify"), ev("me", "ACK", "away-notify"), ev("me", "ACK", "-away-notify")},
		}
	}))
}

// ---- cap.enum: complete enumeration of short sessions

var capEnumAlphabet = func() []string {
	ev := func(p ...string) string { return strings.Join(p, "\n") }
	return []string{
		ev("*", "LS", "*", "multi-prefix sts=port=6697,duration=60"), // continuation line
		ev("*", "LS", "sasl message-tags"),                           // final line
		ev("*", "LS", "unknown-cap"),                                 // nothing usable by itself
		ev("me", "ACK", "sasl message-tags"),
		ev("me", "ACK", "multi-prefix sts"),
		ev("me", "NAK", "sasl"),
		ev("me", "NEW", "batch"),
		ev("me", "DEL", "message-tags batch"),
		capReconnect,
	}
}()

var capEnumConfigs = []string{"", "S", "SD", "U"}

const capEnumProbes = "sasl SASL message-tags multi-prefix batch sts"

func init() {
	Register(&Suite{
		Name: "cap.enum",
		Prop: []string{"C08"},
		Exhaustive: "every sequence of at most 3 steps over 9 server lines (LS continuation, LS final, LS with nothing usable, " +
			"two ACKs, NAK, NEW, DEL, reconnect) under the configurations {default, SASL, SASL+DisableSTS, default on a TLS connection}: 4 x 820 sessions",
		Fixed: func() []Case {
			var out []Case
			var rec func(prefix []string, depth int)
			for _, bits := range capEnumConfigs {
				rec = func(prefix []string, depth int) {
					out = append(out, append(Case{bits, "", capEnumProbes}, prefix...))
					if depth == 3 {
						return
					}
					for _, a := range capEnumAlphabet {
						rec(append(append([]string(nil), prefix...), a), depth+1)
					}
				}
				rec(nil, 0)
			}
			return out
		},
		Gen: func(r *rand.Rand) Case {
			c := Case{Pick(r, capEnumConfigs...), "", capEnumProbes}
			for n := 4 + r.Intn(4); n > 0; n-- {
				c = append(c, Pick(r, capEnumAlphabet...))
			}
			return c
		},
		Run: func(c Case) Result { return runCapSession(c) },
	})
}

// ---- cap.tagsrace: the tag gate is evaluated when sendLoop takes the event off the queue
//
// "message tags are put on the wire only while message-tags is enabled": the wire write
// happens when sendLoop dequeues an event, which can be long after Client.Send queued it.
// The scripted server reads only when told to (in the goroutine of the test, no free-running
// reader), so the schedule is deterministic on the unbuffered pipe:
//
//	1. the CAP lines of `pre` are handled (Client.RunHandlers returns when the handlers have);
//	   an untagged fence is sent and read, so the queue is empty and sendLoop idle;
//	2. the tagged event A is sent and the server reads its first 3 bytes only: sendLoop has
//	   dequeued A (its gate is decided by `pre`) and is blocked inside the socket write;
//	3. the events B_j (tags {k:v} / empty map / nil) are queued behind it;
//	4. the CAP lines of `mid` are handled while everything is still blocked;
//	5. an untagged fence is queued and the server reads to the fence.
//
// Every B_j is dequeued after step 4 has completed, so the current code decides its gate by
// the capability state after `mid` — that, and nothing about timing, is what is compared
// with the model and what the oracle requires (a tag section only if message-tags is
// acknowledged and not deleted/disabled at that point).
//
// A case is: kinds of the B events (t/e/n), the number of pre lines, then the CAP lines.

type racePeer struct {
	conn net.Conn
	buf  []byte
}

func (p *racePeer) readSome(max int, d time.Duration) bool {
	tmp := make([]byte, max)
	p.conn.SetReadDeadline(time.Now().Add(d))
	n, err := p.conn.Read(tmp)
	p.buf = append(p.buf, tmp[:n]...)
	return n > 0 && err == nil
}

// readN reads exactly n more bytes.
func (p *racePeer) readN(n int, d time.Duration) bool {
	deadline := time.Now().Add(d)
	want := len(p.buf) + n
	for len(p.buf) < want {
		if !p.readSome(want-len(p.buf), time.Until(deadline)) {
			return false
		}
	}
	return true
}

// readUntil reads until some complete line contains marker.
func (p *racePeer) readUntil(marker string, d time.Duration) bool {
	deadline := time.Now().Add(d)
	for {
		if i := strings.Index(string(p.buf), marker); i >= 0 && strings.Contains(string(p.buf[i:]), "\n") {
			return true
		}
		if !p.readSome(4096, time.Until(deadline)) {
			return false
		}
	}
}

func raceTags(kind byte) girc.Tags {
	switch kind {
	case 't':
		return girc.Tags{"k": "v"}
	case 'e':
		return girc.Tags{}
	}
	return nil
}

func runTagsRace(c Case) Result {
	if len(c) < 2 {
		return Result{Obs: "?short-case"}
	}
	kinds := c[0]
	npre := 0
	for _, d := range c[1] {
		if d < '0' || d > '9' {
			return Result{Obs: "?bad-count"}
		}
		npre = npre*10 + int(d-'0')
	}
	evs := c[2:]
	if npre > len(evs) || len(evs) > 12 || len(kinds) > 8 || c[1] == "" {
		return Result{Obs: "?bad-count"}
	}

	cfg := capCfg{supported: map[string][]string{}}.girc()
	cfg.RecoverFunc = func(*girc.Client, *girc.HandlerError) {}
	client := girc.New(cfg)
	in, out := net.Pipe()
	done := make(chan error, 1)
	go func() { done <- client.MockConnect(out) }()
	defer func() {
		client.Close()
		go io.Copy(io.Discard, in) // whatever is still being written
		select {
		case <-done:
		case <-time.After(20 * time.Second):
		}
		in.Close()
	}()
	p := &racePeer{conn: in}
	const wait = 20 * time.Second
	stall := func(where string) Result {
		return Result{Obs: "?stall:" + where, Oracle: "stall: the scripted schedule did not make progress at: " + where, Sig: "stall"}
	}
	if !p.readUntil("USER ", wait) {
		return stall("registration")
	}
	dl := time.Now().Add(wait)
	for !client.IsConnected() && time.Now().Before(dl) {
		time.Sleep(200 * time.Microsecond)
	}

	// the oracle's own ledger (IRCv3 reading), only message-tags matters
	enabled := map[string]bool{}
	feed := func(ev string) {
		params := strings.Split(ev, "\n")
		client.RunHandlers(&girc.Event{Source: &girc.Source{Name: "srv"}, Command: girc.CAP, Params: params})
		if len(params) < 2 {
			return
		}
		last := params[len(params)-1]
		switch {
		case params[1] == "ACK" && len(params) == 3:
			for _, tok := range strings.Split(last, " ") {
				if strings.HasPrefix(tok, "-") {
					delete(enabled, tok[1:])
				} else {
					enabled[tok] = true
				}
			}
		case params[1] == "DEL":
			for _, tok := range strings.Split(last, " ") {
				delete(enabled, capTokenName(tok))
			}
		}
	}

	for _, ev := range evs[:npre] {
		feed(ev)
	}
	client.Send(&girc.Event{Command: girc.PRIVMSG, Params: []string{"#v", "fence0"}})
	if !p.readUntil("fence0", wait) {
		return stall("fence0")
	}
	allowedA := enabled["message-tags"]

	markA := len(p.buf)
	client.Send(&girc.Event{Command: girc.PRIVMSG, Params: []string{"#v", "evA"}, Tags: girc.Tags{"k": "v"}})
	if !p.readN(3, wait) {
		return stall("first bytes of A")
	}
	// sendLoop is inside the write of A; everything from here on is queued behind it
	for j := 0; j < len(kinds); j++ {
		client.Send(&girc.Event{Command: girc.PRIVMSG, Params: []string{"#v", fmt.Sprintf("evB%d.", j)}, Tags: raceTags(kinds[j])})
	}
	for _, ev := range evs[npre:] {
		feed(ev)
	}
	allowedB := enabled["message-tags"]
	client.Send(&girc.Event{Command: girc.PRIVMSG, Params: []string{"#v", "fence1"}})
	if !p.readUntil("fence1", wait) {
		return stall("fence1")
	}

	tagged := map[string]bool{}
	seen := map[string]bool{}
	for _, l := range strings.Split(string(p.buf[markA:]), "\n") {
		l = strings.TrimRight(l, "\r")
		body := l
		if strings.HasPrefix(l, "@") {
			if i := strings.IndexByte(l, ' '); i >= 0 {
				body = l[i+1:]
			}
		}
		if strings.HasPrefix(body, "PRIVMSG #v ") {
			m := strings.TrimPrefix(strings.TrimPrefix(body, "PRIVMSG #v "), ":")
			seen[m] = true
			tagged[m] = strings.HasPrefix(l, "@")
		}
	}
	var oracle string
	fail := func(cls, format string, a ...interface{}) {
		if oracle == "" {
			oracle = cls + ": " + fmt.Sprintf(format, a...)
		}
	}
	if !seen["evA"] {
		fail("line-lost", "event A was not written")
	}
	obs := "a=" + B(tagged["evA"]) + "|b="
	if tagged["evA"] && !allowedA {
		fail("tags-ungated", "A written with a tag section although message-tags was not enabled when it was sent")
	}
	for j := 0; j < len(kinds); j++ {
		m := fmt.Sprintf("evB%d.", j)
		if !seen[m] {
			fail("line-lost", "event B%d was not written", j)
		}
		obs += B(tagged[m])
		if tagged[m] && !allowedB {
			fail("tags-ungated", "event B%d, queued behind a blocked write, left the queue after %q had been handled and still carries its tag section", j, evs[npre:])
		}
	}
	return Result{Obs: obs, Oracle: oracle, Sig: fmt.Sprintf("pre=%v/mid=%v/%d", allowedA, allowedB, len(kinds))}
}

var (
	tagsRacePre = [][]string{
		{},
		{"*\nLS\nmessage-tags", "me\nACK\nmessage-tags"},
		{"*\nLS\nmessage-tags batch", "me\nACK\nbatch message-tags"},
		{"*\nLS\nmessage-tags", "me\nACK\nmessage-tags", "me\nDEL\nmessage-tags"},
		{"me\nACK\nmessage-tags"},
	}
	tagsRaceMid = [][]string{
		{},
		{"me\nDEL\nmessage-tags"},
		{"me\nACK\n-message-tags"},
		{"me\nDEL\nbatch"},
		{"me\nDEL\nmessage-tags", "me\nNEW\nmessage-tags", "me\nACK\nmessage-tags"},
		{"*\nLS\nmessage-tags", "me\nACK\nmessage-tags"},
		{"me\nDEL\nMESSAGE-TAGS"},
		{"me\nNEW\nmessage-tags"},
		{"me\nDEL\nbatch message-tags=x"},
	}
)

func tagsRaceCase(kinds string, pre, mid []string) Case {
	c := Case{kinds, fmt.Sprint(len(pre))}
	c = append(c, pre...)
	return append(c, mid...)
}

func init() {
	Register(&Suite{
		Name:       "cap.tagsrace",
		Prop:       []string{"C08"},
		Exhaustive: "every pair of 5 capability states before the blocked write and 9 CAP scripts handled during it (45 schedules), three queued events (tags, empty map, nil) each",
		Fixed: func() []Case {
			var out []Case
			for _, pre := range tagsRacePre {
				for _, mid := range tagsRaceMid {
					out = append(out, tagsRaceCase("tne", pre, mid))
				}
			}
			return out
		},
		Gen: func(r *rand.Rand) Case {
			kinds := "t" + RandBytes(r, r.Intn(4), "tten")
			pre := tagsRacePre[r.Intn(len(tagsRacePre))]
			mid := append([]string{}, tagsRaceMid[r.Intn(len(tagsRaceMid))]...)
			if r.Intn(3) == 0 {
				mid = append(mid, tagsRaceMid[r.Intn(len(tagsRaceMid))]...)
			}
			return tagsRaceCase(kinds, pre, mid)
		},
		Run: runTagsRace,
	})
}
