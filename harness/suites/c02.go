package suites

// C02 — the parser conforms to the message grammar and is total.
//
// grammar.lines: a case is an abstract syntax tree of the grammar (coq/Spec/Grammar.v);
// both sides render it to a line, parse the line and print what the grammar assigns to
// it (the spec's `meaning`; here cdRefMeaning, written from the grammar).  The oracle
// compares girc.ParseEvent(line) with the reference field by field, including the
// server-time timestamp.  codec.total: arbitrary bytes through all three parsers.

import (
	"math/rand"
	"strconv"
	"strings"
	"sync"
	"time"
	"unicode/utf8"

	"github.com/lrstanley/girc"
)

var cdZoneOnce sync.Once

// cdSetZone: the sandbox runs in UTC; make time.Local differ from UTC so that a
// server-time parsed in the wrong location gives a different instant.
func cdSetZone() {
	cdZoneOnce.Do(func() { time.Local = time.FixedZone("VERIF+0530", 5*3600+1800) })
}

type cdTag struct {
	key    string
	hasVal bool
	val    string // unescaped
}

type cdMid struct {
	sp int // extra spaces beyond the first
	s  string
}

type cdAst struct {
	tags             []cdTag
	hasSrc           bool
	name             string
	hasUser, hasHost bool
	user, host       string
	cmd              string
	mids             []cdMid
	trailing         *cdMid
	tail             int
	eol              string
}

func (a cdAst) toCase() Case {
	hdr := []byte{byte(len(a.tags)), 0, byte(len(a.mids)), 0, byte(a.tail)}
	if a.hasSrc {
		hdr[1] |= 1
	}
	if a.hasUser {
		hdr[1] |= 2
	}
	if a.hasHost {
		hdr[1] |= 4
	}
	if a.trailing != nil {
		hdr[3] = 1
	}
	out := Case{string(hdr), a.cmd, a.eol, a.name, a.user, a.host}
	for _, t := range a.tags {
		v := ""
		if t.hasVal {
			v = "=" + t.val
		}
		out = append(out, t.key, v)
	}
	for _, m := range a.mids {
		out = append(out, string([]byte{byte(m.sp)}), m.s)
	}
	if a.trailing != nil {
		out = append(out, string([]byte{byte(a.trailing.sp)}), a.trailing.s)
	}
	return out
}

func cdDecodeAst(c Case) cdAst {
	arg := func(l []string, i int) string {
		if i < len(l) {
			return l[i]
		}
		return ""
	}
	b0 := func(s string, i int) int {
		if i < len(s) {
			return int(s[i])
		}
		return 0
	}
	hdr := arg(c, 0)
	var a cdAst
	a.cmd, a.eol = arg(c, 1), arg(c, 2)
	sf := b0(hdr, 1)
	a.hasSrc, a.hasUser, a.hasHost = sf&1 != 0, sf&2 != 0, sf&4 != 0
	a.name, a.user, a.host = arg(c, 3), arg(c, 4), arg(c, 5)
	if !a.hasSrc {
		a.hasUser, a.hasHost = false, false
	}
	rest := []string{}
	if len(c) > 6 {
		rest = c[6:]
	}
	for i := 0; i < b0(hdr, 0); i++ {
		if len(rest) < 2 {
			rest = nil // as the model: earlier entries are kept, nothing is left for the later sections
			break
		}
		t := cdTag{key: rest[0]}
		if rest[1] != "" {
			t.hasVal, t.val = true, rest[1][1:]
		}
		a.tags = append(a.tags, t)
		rest = rest[2:]
	}
	for i := 0; i < b0(hdr, 2); i++ {
		if len(rest) < 2 {
			rest = nil
			break
		}
		a.mids = append(a.mids, cdMid{b0(rest[0], 0), rest[1]})
		rest = rest[2:]
	}
	if b0(hdr, 3) != 0 {
		a.trailing = &cdMid{b0(arg(rest, 0), 0), arg(rest, 1)}
	}
	a.tail = b0(hdr, 4)
	return a
}

// render: the concrete syntax of the grammar.
func (a cdAst) render() string {
	var sb strings.Builder
	if len(a.tags) > 0 {
		sb.WriteByte('@')
		for i, t := range a.tags {
			if i > 0 {
				sb.WriteByte(';')
			}
			sb.WriteString(t.key)
			if t.hasVal {
				sb.WriteByte('=')
				sb.WriteString(cdSpecEscape(t.val))
			}
		}
		sb.WriteByte(' ')
	}
	if a.hasSrc {
		sb.WriteByte(':')
		sb.WriteString(a.name)
		if a.hasUser {
			sb.WriteString("!" + a.user)
		}
		if a.hasHost {
			sb.WriteString("@" + a.host)
		}
		sb.WriteByte(' ')
	}
	sb.WriteString(a.cmd)
	for _, m := range a.mids {
		sb.WriteString(strings.Repeat(" ", m.sp+1))
		sb.WriteString(m.s)
	}
	if a.trailing != nil {
		sb.WriteString(strings.Repeat(" ", a.trailing.sp+1))
		sb.WriteByte(':')
		sb.WriteString(a.trailing.s)
	} else {
		sb.WriteString(strings.Repeat(" ", a.tail))
	}
	sb.WriteString(a.eol)
	return sb.String()
}

// ---- character classes of the grammar ---------------------------------------------

func cdAll(s string, f func(byte) bool) bool {
	for i := 0; i < len(s); i++ {
		if !f(s[i]) {
			return false
		}
	}
	return true
}

func cdMiddleByte(b byte) bool { return b != 0 && b != '\r' && b != '\n' && b != ' ' }
func cdNameByte(b byte) bool   { return cdMiddleByte(b) && b != '!' && b != '@' }
func cdUserByte(b byte) bool   { return cdMiddleByte(b) && b != '@' }
func cdLetter(b byte) bool     { return b >= 'a' && b <= 'z' || b >= 'A' && b <= 'Z' }
func cdDigit(b byte) bool      { return b >= '0' && b <= '9' }
func cdKeyByte(b byte) bool    { return cdLetter(b) || cdDigit(b) || b == '-' || b == '.' || b == '/' }

func cdWfKey(k string) bool {
	if k == "" {
		return false
	}
	if k[0] == '+' {
		return len(k) > 1 && cdAll(k[1:], cdKeyByte)
	}
	return cdAll(k, cdKeyByte)
}

func (a cdAst) wf() bool {
	for _, t := range a.tags {
		if !cdWfKey(t.key) || (t.hasVal && strings.IndexByte(t.val, 0) >= 0) {
			return false
		}
	}
	if a.hasSrc {
		if a.name == "" || !cdAll(a.name, cdNameByte) {
			return false
		}
		if a.hasUser && (a.user == "" || !cdAll(a.user, cdUserByte)) {
			return false
		}
		if a.hasHost && (a.host == "" || !cdAll(a.host, cdNameByte)) {
			return false
		}
	}
	if !(len(a.cmd) >= 2 && cdAll(a.cmd, cdLetter) || len(a.cmd) == 3 && cdAll(a.cmd, cdDigit)) {
		return false
	}
	for _, m := range a.mids {
		if m.s == "" || m.s[0] == ':' || !cdAll(m.s, cdMiddleByte) {
			return false
		}
	}
	if a.trailing != nil {
		if a.tail != 0 || !cdAll(a.trailing.s, func(b byte) bool { return b != 0 && b != '\r' && b != '\n' }) {
			return false
		}
	}
	return cdAll(a.eol, func(b byte) bool { return b == '\r' || b == '\n' })
}

// ---- what the grammar assigns to the line -------------------------------------------

type cdRef struct {
	cmd     string
	params  []string
	src     *girc.Source
	hasTags bool
	tags    map[string]string // unescaped values, last duplicate wins
}

func cdRefMeaning(a cdAst) cdRef {
	r := cdRef{cmd: cdAsciiUpper(a.cmd)}
	for _, m := range a.mids {
		r.params = append(r.params, m.s)
	}
	if a.trailing != nil {
		r.params = append(r.params, a.trailing.s)
	}
	if a.hasSrc {
		r.src = &girc.Source{Name: a.name}
		if a.hasUser {
			r.src.Ident = a.user
		}
		if a.hasHost {
			r.src.Host = a.host
		}
	}
	if len(a.tags) > 0 {
		r.hasTags = true
		r.tags = map[string]string{}
		for _, t := range a.tags {
			r.tags[t.key] = t.val
		}
	}
	return r
}

func (r cdRef) show() string {
	tags, get, tm := "-", "-", "-"
	if r.hasTags {
		keys := make([]string, 0, len(r.tags))
		for k := range r.tags {
			keys = append(keys, k)
		}
		sortStrings(keys)
		var a, b []string
		for _, k := range keys {
			a = append(a, Hex(k)+"="+Hex(cdSpecEscape(r.tags[k])))
			b = append(b, Hex(k)+"="+Hex(r.tags[k]))
		}
		tags, get = "{"+strings.Join(a, ",")+"}", "{"+strings.Join(b, ",")+"}"
		if v, ok := r.tags["time"]; ok {
			tm = "=" + Hex(v)
		}
	}
	return "cmd=" + cdShowCmd(r.cmd) + "|n=" + strconv.Itoa(len(r.params)) + "|p=" + HexList(r.params) +
		"|src=" + cdShowSrc(r.src) + "|tags=" + tags + "|get=" + get + "|time=" + tm
}

func sortStrings(l []string) {
	for i := 1; i < len(l); i++ {
		for j := i; j > 0 && l[j] < l[j-1]; j-- {
			l[j], l[j-1] = l[j-1], l[j]
		}
	}
}

// cdServerTime: the instant denoted by a canonical server-time value
// YYYY-MM-DDThh:mm:ss.sssZ, computed without the time package's parser.
// kind: 1 = canonical and in range, 0 = clearly not a timestamp, -1 = no claim.
func cdServerTime(v string) (t time.Time, kind int) {
	if len(v) == 0 || !cdDigit(v[0]) {
		return t, 0
	}
	if len(v) != 24 {
		return t, -1
	}
	num := func(i, n int) int {
		x := 0
		for k := i; k < i+n; k++ {
			if !cdDigit(v[k]) {
				return -1
			}
			x = x*10 + int(v[k]-'0')
		}
		return x
	}
	if v[4] != '-' || v[7] != '-' || v[10] != 'T' || v[13] != ':' || v[16] != ':' || v[19] != '.' || v[23] != 'Z' {
		return t, -1
	}
	y, mo, d, h, mi, s, ms := num(0, 4), num(5, 2), num(8, 2), num(11, 2), num(14, 2), num(17, 2), num(20, 3)
	if y < 0 || mo < 1 || mo > 12 || d < 1 || h < 0 || h > 23 || mi < 0 || mi > 59 || s < 0 || s > 59 || ms < 0 {
		return t, -1
	}
	dim := []int{31, 28, 31, 30, 31, 30, 31, 31, 30, 31, 30, 31}[mo-1]
	if mo == 2 && (y%4 == 0 && (y%100 != 0 || y%400 == 0)) {
		dim = 29
	}
	if d > dim {
		return t, -1
	}
	// days since 1970-01-01 (proleptic Gregorian), then seconds
	days := func(y, m, d int) int64 {
		if m <= 2 {
			y--
			m += 12
		}
		era := y / 400
		if y < 0 {
			era = (y - 399) / 400
		}
		yoe := y - era*400
		doy := (153*(m-3)+2)/5 + d - 1
		doe := yoe*365 + yoe/4 - yoe/100 + doy
		return int64(era)*146097 + int64(doe) - 719468
	}
	sec := days(y, mo, d)*86400 + int64(h)*3600 + int64(mi)*60 + int64(s)
	return time.Unix(sec, int64(ms)*1e6), 1
}

func cdGrammarDiff(a cdAst, ref cdRef, p *girc.Event, before, after time.Time) string {
	switch {
	case p == nil:
		return "grammar-nil: a well-formed line is rejected"
	case p.Command != ref.cmd:
		return "grammar-command: command differs from the grammar's"
	case len(p.Params) != len(ref.params):
		return "grammar-param-count: " + strconv.Itoa(len(ref.params)) + " parameters parsed as " + strconv.Itoa(len(p.Params))
	}
	for i := range ref.params {
		if p.Params[i] != ref.params[i] {
			return "grammar-param: parameter " + strconv.Itoa(i) + " differs"
		}
	}
	switch {
	case (p.Source == nil) != (ref.src == nil):
		return "grammar-source: source presence differs"
	case p.Source != nil && *p.Source != *ref.src:
		return "grammar-source: source parts differ"
	case (p.Tags != nil) != ref.hasTags || len(p.Tags) != len(ref.tags):
		return "grammar-tags: tag keys differ"
	}
	for k, v := range ref.tags {
		got, ok := p.Tags.Get(k)
		if !ok {
			return "grammar-tags: tag key missing"
		}
		if got != v {
			return "grammar-tag-value: unescaped value differs"
		}
	}
	// server-time
	kind := 0
	var want time.Time
	if v, ok := ref.tags["time"]; ok {
		want, kind = cdServerTime(v)
	}
	switch kind {
	case 1:
		if !p.Timestamp.Equal(want) {
			return "grammar-time: valid server-time is not the event timestamp"
		}
	case 0:
		if p.Timestamp.Before(before.Add(-time.Minute)) || p.Timestamp.After(after.Add(time.Minute)) {
			return "grammar-time: timestamp without valid server-time is not the local receive time"
		}
	}
	return ""
}

// ---- AST generator -------------------------------------------------------------------

var (
	cdGCmd     = []string{"PRIVMSG", "NOTICE", "privmsg", "Join", "PING", "MODE", "CAP", "qq", "001", "005", "353", "999", "TAGMSG"}
	cdGCmdOdd  = []string{"\xef\xbf\xbdCMD", "P\xef\xbf\xbd", "A", "1", "12", "1234", "A1", "", "caf\xc3\xa9", "P-Q"}
	cdGMid     = []string{"\xef\xbf\xbd", "a\xef\xbf\xbdb", "\xef\xbf\xbd\xef\xbf\xbd", "\xef\xbf\xbe", "\xef\xbf\xbf", "x\xef\xbf\xbc", "#chan", "nick", "a", "CHANLIMIT=#:120", "x:y", "b\tc", "d\xc2\xa0e", "f\xe2\x80\x83g", "h\vi", "+o", "*", "caf\xc3\xa9", "a:", "a::b", "\x01x", "@x", "!", "=", "\xff", "\x7f", "\x85", "\f"}
	cdGMidOdd  = []string{"\xef\xbf\xbd\r", "\n\xef\xbf\xbd", "", ":x", "a b", "a\x00", "a\rb", "\n"}
	cdGTrail   = []string{"\xef\xbf\xbd", "a\xef\xbf\xbdb", "\xef\xbf\xbd\xef\xbf\xbd", "\xef\xbf\xbe", "\xef\xbf\xbf", "x\xef\xbf\xbc", "caf\xef\xbf\xbd au lait", ":\xef\xbf\xbd", "\xef\xbf\xbd\xff", "\xef\xbf", "", "hello world", ":colon", " :x :y", "tab\there", "nb\xc2\xa0sp", "em\xe2\x80\x83sp", "v\vt", " lead", "trail ", "   ", ":", "x", "\x01ACTION waves\x01", "caf\xc3\xa9 \xe2\x82\xac", "\xff\xfe", "a  b"}
	cdGTrOdd   = []string{"\xef\xbf\xbd\r", "\xef\xbf\xbd\n\xef\xbf\xbd", "a\rb", "x\n", "nul\x00", "\r"}
	cdGName    = []string{"n\xef\xbf\xbd", "\xef\xbf\xbd", "nick", "irc.example.org", "n[i]ck", "N", "caf\xc3\xa9", "a-b", "*", "a:b", "x\ty", "~q"}
	cdGUser    = []string{"u\xef\xbf\xbd", "\xef\xbf\xbd", "user", "~u", "u!x", "i.d", "!", "a\xc2\xa0b"}
	cdGHost    = []string{"h\xef\xbf\xbd", "\xef\xbf\xbe", "host.example", "1.2.3.4", "::1", "h/cloak", "a:b", "h"}
	cdGSrcOdd  = []string{"", "a b", "a@b", "a!b", "\r", "x\x00"}
	cdGKey     = []string{"a", "time", "account", "msgid", "example.com/ddd", "a.b/c", "+client", "+example.com/foo", "draft/label", "k-1", "z", "B", "a", "time"}
	cdGKeyOdd  = []string{"", "+", "k_2", "a=b", "a b", "k;", "caf\xc3\xa9", "++a"}
	cdGVal     = []string{"\xef\xbf\xbd", "a \xef\xbf\xbd;b", "\xef\xbf\xbd\xff", "\xef\xbf\xbf", `C:\new\share`, `\n`, `\r`, `\\s`, `\\n`, `\\:`, `x\`, "", "v", "a b", "a;b", `a\b`, "cr\rlf\n", `; \` + "\r\n", `\\`, `\s`, `\:`, "  ", ";;", "caf\xc3\xa9", "tab\t", "=eq=", `trail\`, "\xff", ":"}
	cdGTimeVal = []string{"2019-02-21T20:12:03.000Z", "2011-10-19T16:40:51.620Z", "1970-01-01T00:00:00.000Z", "2024-02-29T23:59:59.999Z", "2038-01-19T03:14:08.001Z", "0001-01-01T00:00:00.000Z",
		"bad", "", "yesterday", "T", "2019-02-30T00:00:00.000Z", "2019-02-21T20:12:03Z", "2019-02-21 20:12:03.000Z", "20190221T201203.000Z"}
)

func cdGenAst(r *rand.Rand, odd int) cdAst {
	isOdd := func() bool { return odd > 0 && r.Intn(odd) == 0 }
	var a cdAst
	a.cmd = cdPickS(r, cdGCmd)
	if isOdd() {
		a.cmd = cdPickS(r, cdGCmdOdd)
	}
	sp := func() int {
		if r.Intn(3) == 0 {
			return r.Intn(4)
		}
		return 0
	}
	n := 0
	switch r.Intn(8) {
	case 0:
	case 1:
		n = 10 + r.Intn(6)
	default:
		n = r.Intn(6)
	}
	for i := 0; i < n; i++ {
		m := cdPickS(r, cdGMid)
		if r.Intn(6) == 0 {
			m = RandBytes(r, 1+r.Intn(6), "ab:#\t\x0b\xa0\xc2=@!;\\")
			if m[0] == ':' {
				m = "x" + m
			}
		}
		if isOdd() {
			m = cdPickS(r, cdGMidOdd)
		}
		a.mids = append(a.mids, cdMid{sp(), m})
	}
	if r.Intn(2) == 0 {
		t := cdPickS(r, cdGTrail)
		if r.Intn(6) == 0 {
			t = RandBytes(r, r.Intn(12), "ab : \t\x0b\xa0\xc2@")
		}
		if isOdd() {
			t = cdPickS(r, cdGTrOdd)
		}
		a.trailing = &cdMid{sp(), t}
		if isOdd() {
			a.tail = 1
		}
	} else if r.Intn(4) == 0 {
		a.tail = 1 + r.Intn(3)
	}
	if r.Intn(2) == 0 {
		a.hasSrc = true
		a.name = cdPickS(r, cdGName)
		if r.Intn(2) == 0 {
			a.hasUser, a.user = true, cdPickS(r, cdGUser)
		}
		if r.Intn(2) == 0 {
			a.hasHost, a.host = true, cdPickS(r, cdGHost)
		}
		if isOdd() {
			switch r.Intn(3) {
			case 0:
				a.name = cdPickS(r, cdGSrcOdd)
			case 1:
				a.hasUser, a.user = true, cdPickS(r, cdGSrcOdd)
			default:
				a.hasHost, a.host = true, cdPickS(r, cdGSrcOdd)
			}
		}
	}
	if r.Intn(2) == 0 {
		for i := 1 + r.Intn(5); i > 0; i-- {
			t := cdTag{key: cdPickS(r, cdGKey)}
			if isOdd() {
				t.key = cdPickS(r, cdGKeyOdd)
			}
			if r.Intn(4) != 0 {
				t.hasVal = true
				t.val = cdPickS(r, cdGVal)
				if r.Intn(4) == 0 {
					t.val = RandBytes(r, r.Intn(10), `ab; \`+"\r\n:sn=")
				}
				if isOdd() {
					t.val = "nul\x00"
				}
			}
			if t.key == "time" && r.Intn(8) != 0 {
				t.hasVal, t.val = true, cdPickS(r, cdGTimeVal)
			}
			a.tags = append(a.tags, t)
		}
	}
	switch r.Intn(6) {
	case 0:
		a.eol = "\r\n"
	case 1:
		a.eol = "\n"
	case 2:
		a.eol = "\r\n\r\n"
	}
	return a
}

func init() {
	Register(&Suite{
		Name: "grammar.lines",
		Prop: []string{"C02", "C01"},
		Fixed: func() []Case {
			t := func(k, v string) cdTag { return cdTag{k, true, v} }
			return []Case{
				cdAst{cmd: "PING"}.toCase(),
				cdAst{cmd: "ab", eol: "\r\n"}.toCase(),
				cdAst{cmd: "001", tail: 3}.toCase(),
				cdAst{cmd: "privmsg", mids: []cdMid{{0, "#c"}, {2, "a\tb"}, {0, "c\xc2\xa0d"}}}.toCase(),
				cdAst{cmd: "005", mids: []cdMid{{0, "n"}, {0, "CHANLIMIT=#:120"}}, trailing: &cdMid{1, "are :supported"}}.toCase(),
				cdAst{cmd: "PRIVMSG", hasSrc: true, name: "n", hasUser: true, user: "u!v", hasHost: true, host: "h",
					tags: []cdTag{t("a", "1"), {key: "b"}, t("a", "; \\\r\n"), t("time", "2019-02-21T20:12:03.000Z")},
					mids: []cdMid{{0, "#c"}}, trailing: &cdMid{0, ""}, eol: "\r\n"}.toCase(),
				cdAst{cmd: "PING", tags: []cdTag{t("time", "garbage")}, trailing: &cdMid{0, "x"}}.toCase(),
				cdAst{cmd: "PING", hasSrc: true, name: "srv", hasHost: true, host: "h"}.toCase(),
				cdAst{cmd: "PING", hasSrc: true, name: "srv", hasUser: true, user: "u"}.toCase(),
			}
		},
		Gen: func(r *rand.Rand) Case {
			odd := 0
			if r.Intn(5) == 0 {
				odd = 6
			}
			return cdGenAst(r, odd).toCase()
		},
		Run: func(c Case) Result {
			cdSetZone()
			a := cdDecodeAst(c)
			line := a.render()
			ref := cdRefMeaning(a)
			wf := a.wf()
			before := time.Now()
			p := girc.ParseEvent(line)
			after := time.Now()
			res := Result{Obs: "line=" + Hex(line) + "|wf=" + B(wf) + "|parse=" + cdShowEvent(p) + "|spec=" + ref.show()}
			if wf {
				res.Sig = "wf/" + cdParseSig(line, p)
				if _, ok := ref.tags["time"]; ok {
					res.Sig += "/time"
				}
				res.Oracle = cdGrammarDiff(a, ref, p, before, after)
				if res.Oracle == "" && p != nil && utf8.ValidString(line) && len(line) < 4000 {
					// parse ∘ String ∘ parse = parse on well-formed lines (C01)
					res.Oracle = cdParseStableDiff(p)
				}
			} else {
				res.Sig = "illformed/" + cdParseSig(line, p)
			}
			return res
		},
	})

	Register(&Suite{
		Name: "codec.total",
		Prop: []string{"C02"},
		Fixed: func() []Case {
			var out []Case
			out = append(out, Case{""})
			alpha := []byte("@: ;=!\\A\r\n")
			var rec func(prefix []byte, depth int)
			rec = func(prefix []byte, depth int) {
				if len(prefix) > 0 {
					out = append(out, Case{string(prefix)})
				}
				if depth == 0 {
					return
				}
				for _, b := range alpha {
					rec(append(append([]byte{}, prefix...), b), depth-1)
				}
			}
			rec(nil, 4) // every string of length <= 4 over the ten structural bytes (11 110 strings)
			return out
		},
		Exhaustive: "every string of length <= 4 over the bytes '@' ':' SPACE ';' '=' '!' '\\' 'A' CR LF",
		Gen: func(r *rand.Rand) Case {
			switch r.Intn(4) {
			case 0:
				return Case{RandBytes(r, r.Intn(64), "")}
			case 1:
				return Case{RandBytes(r, r.Intn(40), "@: ;=!\\Aa\r\n\t")}
			case 2:
				return Case{cdMutate(r, cdGenAst(r, 6).render())}
			default:
				return Case{cdMutate(r, cdGenLine(r))}
			}
		},
		Run: func(c Case) Result {
			s := c[0]
			e := girc.ParseEvent(s)
			t := girc.ParseTags(s)
			src := girc.ParseSource(s)
			sig := "ev"
			if e == nil {
				sig = "nil"
			}
			if len(s) <= 4 {
				sig += "/short"
			}
			return Result{Obs: cdShowEvent(e) + "|" + cdShowTags(t, false) + "|" + cdShowSrc(src), Sig: sig}
		},
	})
}
