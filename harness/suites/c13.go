package suites

// C13 — state getters return isolated snapshots. Suites heap.ops, heap.hostile,
// heap.members: operation sequences over one client (see coq/Driver/DrvC13.v for the
// case format). The implementation side performs every client mutation for real,
// through exported fields and methods of the returned objects; sharing of memory with
// the tracked state is observed through the identity hooks even when no element
// differs. Oracles (the property evaluated on the implementation):
//   snapshot-write-reached-live   a write through a snapshot changed what the getters return
//   live-event-changed-snapshot   a later server event changed an object already handed out
//   aliasing                      a snapshot shares a list array / permission map / struct with the tracked state
//   snapshots-share-memory        a write through one snapshot changed another one the client never aliased with it
//   getter-results-disagree       LookupUser / LookupChannel of a tracked name differs from the element of Users() / Channels()
//   listing-shared                the result slices ([]*User, []*Channel, []string) of two getter calls share a backing
//                                 array / a slot write in one shows in another
//   listing-overwritten           a later getter call or event changed a result slice handed out earlier
//   snapshot-torn                 (suite heap.churn) a snapshot taken while another goroutine feeds events is not a
//                                 state the client ever tracked
//   member-getter-live-object     the same three, for objects returned by User.Channels /
//                                 Channel.Users / Trusted / Admins (state.go), which are documented to
//                                 return references: an observation, only suite heap.members (not in
//                                 conf/C13.json) can report it

import (
	"fmt"
	"math/rand"
	"reflect"
	"sort"
	"strconv"
	"strings"

	"github.com/lrstanley/girc"
)

type heapOp struct {
	Tag   string // E S M A R I L
	Ev    Ev
	Kind  string
	Name  string
	ID    int
	Field string
	Index int
	Value string
	Flags string
	Args  []string
}

func (o heapOp) args() []string {
	switch o.Tag {
	case "E":
		return append([]string{"E"}, o.Ev.args()...)
	case "S":
		return []string{"S", o.Kind, o.Name}
	case "M":
		return []string{"M", strconv.Itoa(o.ID), o.Field, strconv.Itoa(o.Index), o.Value}
	case "A":
		return append([]string{"A", strconv.Itoa(o.ID), o.Flags, strconv.Itoa(len(o.Args))}, o.Args...)
	case "R":
		return []string{"R"}
	case "I":
		return []string{"I", strconv.Itoa(o.ID)}
	case "L":
		return []string{"L", strconv.Itoa(o.ID), o.Field, strconv.Itoa(o.Index)}
	}
	return nil
}

func heapEncode(nick, user string, ops []heapOp) Case {
	c := Case{nick, user}
	for _, o := range ops {
		c = append(c, o.args()...)
	}
	return c
}

// natArg mirrors DrvC13.nat_arg: decimal digits only, anything else is 0.
func natArg(s string) int {
	if s == "" {
		return 0
	}
	n := 0
	for i := 0; i < len(s); i++ {
		if s[i] < '0' || s[i] > '9' {
			return 0
		}
		n = n*10 + int(s[i]-'0')
		if n > 1<<30 {
			n = 1 << 30
		}
	}
	return n
}

// heapDecode mirrors DrvC13.run_ops: decoding stops at the first malformed operation.
func heapDecode(c Case) (nick, user string, ops []heapOp, ok bool) {
	if len(c) < 2 {
		return "", "", nil, false
	}
	nick, user = c[0], c[1]
	r := c[2:]
	for len(r) > 0 {
		tag := r[0]
		r = r[1:]
		switch tag {
		case "E":
			if len(r) < 7 {
				return nick, user, ops, true
			}
			n, good := parseNatStrict(r[6])
			if !good || len(r) < 7+n {
				return nick, user, ops, true
			}
			flags := r[0]
			ev := Ev{HasSrc: len(flags) > 0 && flags[0] == 's', Name: r[1], Ident: r[2], Host: r[3],
				HasAcct: len(flags) > 1 && flags[1] == 'a', Acct: r[4], Cmd: r[5], Params: append([]string(nil), r[7:7+n]...)}
			ops = append(ops, heapOp{Tag: "E", Ev: ev})
			r = r[7+n:]
		case "S":
			if len(r) < 2 {
				return nick, user, ops, true
			}
			ops = append(ops, heapOp{Tag: "S", Kind: r[0], Name: r[1]})
			r = r[2:]
		case "M":
			if len(r) < 4 {
				return nick, user, ops, true
			}
			ops = append(ops, heapOp{Tag: "M", ID: natArg(r[0]), Field: r[1], Index: natArg(r[2]), Value: r[3]})
			r = r[4:]
		case "A":
			if len(r) < 3 {
				return nick, user, ops, true
			}
			n := natArg(r[2])
			if len(r)-3 < n {
				return nick, user, ops, true
			}
			ops = append(ops, heapOp{Tag: "A", ID: natArg(r[0]), Flags: r[1], Args: append([]string(nil), r[3:3+n]...)})
			r = r[3+n:]
		case "R":
			ops = append(ops, heapOp{Tag: "R"})
		case "I":
			if len(r) < 1 {
				return nick, user, ops, true
			}
			ops = append(ops, heapOp{Tag: "I", ID: natArg(r[0])})
			r = r[1:]
		case "L":
			if len(r) < 3 {
				return nick, user, ops, true
			}
			ops = append(ops, heapOp{Tag: "L", ID: natArg(r[0]), Field: r[1], Index: natArg(r[2])})
			r = r[3:]
		default:
			return nick, user, ops, true
		}
	}
	return nick, user, ops, true
}

// parseNatStrict mirrors Bytes.parse_nat (None on empty / non-digit).
func parseNatStrict(s string) (int, bool) {
	if s == "" {
		return 0, false
	}
	n := 0
	for i := 0; i < len(s); i++ {
		if s[i] < '0' || s[i] > '9' {
			return 0, false
		}
		n = n*10 + int(s[i]-'0')
		if n > 1<<30 {
			n = 1 << 30
		}
	}
	return n, true
}

// ---- dumps (DrvC13.dump_vuser / dump_vchan) ----

func heapDumpUser(u *girc.User) string {
	perms := "nil"
	if u.Perms != nil {
		pk, pv, _ := u.Perms.VerifPermsMap()
		var pl []string
		for j := range pk {
			pl = append(pl, Hex(pk[j])+"="+permFlags(pv[j]))
		}
		perms = strings.Join(pl, ",")
	}
	return Hex(u.Nick) + ":" + Hex(u.Ident) + ":" + Hex(u.Host) + ":" + HexList(u.ChannelList) + ":" + perms + ":" +
		Hex(u.Extras.Name) + ":" + Hex(u.Extras.Account) + ":" + Hex(u.Extras.Away)
}

func heapDumpChan(ch *girc.Channel) string {
	var ml []string
	for _, m := range ch.Modes.VerifModeList() {
		ml = append(ml, Hex(string([]byte{m.Name}))+"="+Hex(m.Args))
	}
	// (Modes.String() is not part of the dump: it renders a mode byte >= 0x80 as the UTF-8 of
	// that code point, a rendering matter of C04; the stored names and arguments are compared)
	return Hex(ch.Name) + ":" + Hex(ch.Topic) + ":" + HexList(ch.UserList) + ":" + strings.Join(ml, ",")
}

func heapRequery(c *girc.Client) string {
	var us, cs []string
	for _, u := range c.Users() {
		us = append(us, heapDumpUser(u))
	}
	for _, ch := range c.Channels() {
		cs = append(cs, heapDumpChan(ch))
	}
	sort.Strings(us)
	sort.Strings(cs)
	return "U=" + strings.Join(us, "|") + "/C=" + strings.Join(cs, "|")
}

// heapGettersAgree evaluates "every getter shows the same": the element of Users() /
// Channels() for a name and what LookupUser / LookupChannel return for it. Names the lookups
// refuse ("") are skipped.
func heapGettersAgree(c *girc.Client) string {
	for _, u := range c.Users() {
		if u.Nick == "" {
			continue
		}
		l := c.LookupUser(u.Nick)
		if l == nil {
			return "LookupUser(" + strconv.Quote(u.Nick) + ") = nil for an element of Users()"
		}
		if a, b := heapDumpUser(u), heapDumpUser(l); a != b {
			return "Users() has " + a + ", LookupUser has " + b
		}
	}
	for _, ch := range c.Channels() {
		if ch.Name == "" {
			continue
		}
		l := c.LookupChannel(ch.Name)
		if l == nil {
			return "LookupChannel(" + strconv.Quote(ch.Name) + ") = nil for an element of Channels()"
		}
		if a, b := heapDumpChan(ch), heapDumpChan(l); a != b {
			return "Channels() has " + a + ", LookupChannel has " + b
		}
	}
	return ""
}

// heapStringListings checks the []string results of UserList() / ChannelList(): two results
// alive at once do not share a backing array, and writing one changes neither the other nor
// a later result. (Not modelled: they are built from immutable strings inside the call.)
func heapStringListings(c *girc.Client) string {
	for _, get := range []struct {
		name string
		f    func() []string
	}{{"UserList", c.UserList}, {"ChannelList", c.ChannelList}} {
		a := get.f()
		b := get.f()
		if len(a) == 0 {
			continue
		}
		if listPtr(a) == listPtr(b) {
			return "two results of " + get.name + "() share one backing array"
		}
		want := strings.Join(b, ",")
		a[0] = "\x00overwritten"
		if len(a) > 1 {
			a[0], a[len(a)-1] = a[len(a)-1], a[0]
		}
		if got := strings.Join(b, ","); got != want {
			return "writing one result of " + get.name + "() changed another one: " + got
		}
		if got := strings.Join(get.f(), ","); got != want {
			return "writing a result of " + get.name + "() changed what a later call returns: " + got
		}
	}
	return ""
}

type heapSnap struct {
	u     *girc.User
	c     *girc.Channel
	leaky bool   // obtained from a member getter (User.Channels / Channel.Users)
	want  string // its value after the last client operation
}

// heapListing is the RESULT SLICE of one Users() / Channels() call held by the client.
type heapListing struct {
	us    []*girc.User
	cs    []*girc.Channel
	users bool
	want  string // its rendering after the client's last own write
}

func (l *heapListing) dump() string {
	var p []string
	if l.users {
		for _, u := range l.us {
			if u == nil {
				p = append(p, "nil")
			} else {
				p = append(p, heapDumpUser(u))
			}
		}
	} else {
		for _, c := range l.cs {
			if c == nil {
				p = append(p, "nil")
			} else {
				p = append(p, heapDumpChan(c))
			}
		}
	}
	return strings.Join(p, "|")
}

func (l *heapListing) ptr() uintptr {
	if l.users {
		if cap(l.us) == 0 {
			return 0
		}
		return reflect.ValueOf(l.us).Pointer()
	}
	if cap(l.cs) == 0 {
		return 0
	}
	return reflect.ValueOf(l.cs).Pointer()
}

func (l *heapListing) length() int {
	if l.users {
		return len(l.us)
	}
	return len(l.cs)
}

func (s *heapSnap) isNil() bool { return s.u == nil && s.c == nil }

func (s *heapSnap) value() string {
	switch {
	case s.u != nil:
		return "u:" + heapDumpUser(s.u)
	case s.c != nil:
		return "c:" + heapDumpChan(s.c)
	}
	return "nil"
}

func ptrIn(p uintptr, l []uintptr) bool {
	if p == 0 {
		return false
	}
	for _, q := range l {
		if p == q {
			return true
		}
	}
	return false
}

func listPtr(l []string) uintptr {
	if cap(l) == 0 {
		return 0
	}
	return reflect.ValueOf(l).Pointer()
}

// sharing returns the flags struct/list/perms (perms only for users).
func (s *heapSnap) sharing(c *girc.Client) (flags string, any bool) {
	structs, lists, maps, _ := c.VerifHeapIdentities()
	switch {
	case s.u != nil:
		a := ptrIn(reflect.ValueOf(s.u).Pointer(), structs)
		b := ptrIn(listPtr(s.u.ChannelList), lists)
		p := ptrIn(s.u.Perms.VerifPermsIdentity(), maps)
		return B(a) + B(b) + B(p), a || b || p
	case s.c != nil:
		a := ptrIn(reflect.ValueOf(s.c).Pointer(), structs)
		b := ptrIn(listPtr(s.c.UserList), lists)
		return B(a) + B(b), a || b
	}
	return "", false
}

func (s *heapSnap) inspect(c *girc.Client) (string, bool) {
	if s.isNil() {
		return "nil", false
	}
	f, any := s.sharing(c)
	return s.value() + "/" + f, any
}

// heapGrow is the model's go_grow; the client-side append below allocates like the
// model so that capacities (unobservable through the getters) agree on both sides.
func heapGrow(c int) int {
	if c == 0 {
		return 1
	}
	return 2 * c
}

func heapAppend(l []string, v string) []string {
	if len(l) < cap(l) {
		return append(l, v) // in place, as Go does
	}
	c := heapGrow(cap(l))
	if c < len(l)+1 {
		c = len(l) + 1
	}
	n := make([]string, len(l)+1, c)
	copy(n, l)
	n[len(l)] = v
	return n
}

func (s *heapSnap) list() *[]string {
	switch {
	case s.u != nil:
		return &s.u.ChannelList
	case s.c != nil:
		return &s.c.UserList
	}
	return nil
}

// mutate performs one client write through the snapshot, for real.
func heapMutate(snaps []*heapSnap, s *heapSnap, field string, index int, value string) {
	if s.isNil() {
		return
	}
	switch field {
	case "nick":
		if s.u != nil {
			s.u.Nick = value
		}
	case "ident":
		if s.u != nil {
			s.u.Ident = value
		}
	case "host":
		if s.u != nil {
			s.u.Host = value
		}
	case "name":
		if s.u != nil {
			s.u.Extras.Name = value
		}
	case "account":
		if s.u != nil {
			s.u.Extras.Account = value
		}
	case "away":
		if s.u != nil {
			s.u.Extras.Away = value
		}
	case "cname":
		if s.c != nil {
			s.c.Name = value
		}
	case "topic":
		if s.c != nil {
			s.c.Topic = value
		}
	case "elem":
		l := s.list()
		if index < len(*l) {
			(*l)[index] = value
		}
	case "append":
		l := s.list()
		*l = heapAppend(*l, value)
	case "sort":
		sort.Strings(*s.list())
	case "delete":
		l := s.list()
		if index < len(*l) {
			*l = append((*l)[:index], (*l)[index+1:]...)
		}
	case "trunc":
		l := s.list()
		if index <= len(*l) {
			*l = (*l)[:index]
		}
	case "alias":
		if index >= len(snaps) || snaps[index].isNil() {
			return
		}
		o := snaps[index]
		switch {
		case s.u != nil && o.u != nil:
			n := len(o.u.ChannelList)
			s.u.ChannelList = o.u.ChannelList[:n:n]
			s.u.Perms = o.u.Perms
		case s.c != nil && o.c != nil:
			n := len(o.c.UserList)
			s.c.UserList = o.c.UserList[:n:n]
			s.c.Modes = o.c.Modes
		}
	case "nilperms":
		if s.u != nil {
			s.u.Perms = nil
		}
	}
}

func heapRun(c Case) Result {
	nick, user, ops, ok := heapDecode(c)
	if !ok {
		return Result{Obs: "?bad-args", Sig: "trivial-bad"}
	}
	ss := StartState(nick, user)
	defer ss.Stop()
	cl := ss.C
	var snaps []*heapSnap
	var lists []*heapListing
	var out []string
	oracle := ""
	report := func(class, msg string) {
		if oracle == "" {
			oracle = class + ": " + msg
		}
	}
	classOf := func(s *heapSnap, class string) string {
		if s.leaky {
			return "member-getter-live-object"
		}
		return class
	}
	// a listing handed out earlier must still be what it was (after the client's own last write)
	checkLists := func(when string) {
		for j, l := range lists {
			if got := l.dump(); got != l.want {
				report("listing-overwritten", fmt.Sprintf("%s changed listing %d (result slice of an earlier Users()/Channels() call) from %s to %s", when, j, l.want, got))
				l.want = got
			}
		}
	}
	addList := func(l *heapListing) {
		l.want = l.dump()
		if p := l.ptr(); p != 0 {
			for j, o := range lists {
				if o.ptr() == p {
					report("listing-shared", fmt.Sprintf("the result slice of this call is the backing array of listing %d handed out earlier", j))
				}
			}
		}
		lists = append(lists, l)
	}
	var nE, nS, nM, nonNil, applied int
	var evAfter, shrinkAfter int // events (and list-shrinking / renaming events) while a snapshot is held
	clientAliased := false       // the client itself made two snapshots share memory (M alias)
	add := func(s *heapSnap) {
		s.want = s.value()
		snaps = append(snaps, s)
		if !s.isNil() {
			nonNil++
		}
	}
	for i, op := range ops {
		switch op.Tag {
		case "E":
			nE++
			if nonNil > 0 {
				evAfter++
				switch op.Ev.Cmd {
				case "PART", "KICK", "QUIT", "NICK":
					shrinkAfter++
				}
			}
			ss.Apply(op.Ev)
			if ss.PanicCount() > 0 {
				// a handler panicked: the model says Panic for this history or it does not;
				// either way the property oracle of C13 is silent (C05 owns panics)
				return Result{Obs: "PANIC", Sig: "panic"}
			}
			for j, s := range snaps {
				if got := s.value(); got != s.want {
					report(classOf(s, "live-event-changed-snapshot"),
						fmt.Sprintf("op %d (%s %q) changed snapshot %d from %s to %s", i, op.Ev.Cmd, op.Ev.Params, j, s.want, got))
					s.want = got
				}
			}
			checkLists(fmt.Sprintf("op %d (%s %q)", i, op.Ev.Cmd, op.Ev.Params))
		case "S":
			nS++
			switch op.Kind {
			case "user":
				add(&heapSnap{u: cl.LookupUser(op.Name)})
			case "chan":
				add(&heapSnap{c: cl.LookupChannel(op.Name)})
			case "users":
				l := cl.Users()
				checkLists(fmt.Sprintf("op %d (a later Users() call)", i))
				addList(&heapListing{us: l, users: true})
				for _, u := range l {
					add(&heapSnap{u: u})
				}
			case "chans":
				l := cl.Channels()
				checkLists(fmt.Sprintf("op %d (a later Channels() call)", i))
				addList(&heapListing{cs: l})
				for _, ch := range l {
					add(&heapSnap{c: ch})
				}
			case "uchans":
				if id := natArg(op.Name); id < len(snaps) && snaps[id].u != nil {
					for _, ch := range snaps[id].u.Channels(cl) {
						add(&heapSnap{c: ch, leaky: true})
					}
				}
			case "cusers", "ctrusted", "cadmins":
				if id := natArg(op.Name); id < len(snaps) && snaps[id].c != nil {
					var l []*girc.User
					switch op.Kind {
					case "cusers":
						l = snaps[id].c.Users(cl)
					case "ctrusted":
						l = snaps[id].c.Trusted(cl)
					default:
						l = snaps[id].c.Admins(cl)
					}
					for _, u := range l {
						add(&heapSnap{u: u, leaky: true})
					}
				}
			}
		case "M", "A":
			nM++
			if op.ID >= len(snaps) || snaps[op.ID].isNil() {
				continue
			}
			s := snaps[op.ID]
			before := heapRequery(cl)
			if op.Tag == "M" {
				heapMutate(snaps, s, op.Field, op.Index, op.Value)
			} else if s.c != nil {
				s.c.Modes.Apply(s.c.Modes.Parse(op.Flags, op.Args))
			}
			applied++
			if op.Tag == "M" && op.Field == "alias" {
				clientAliased = true
			}
			for _, l := range lists { // elements of a listing are the client's own objects: its writes show there
				l.want = l.dump()
			}
			after := heapRequery(cl)
			checkLists(fmt.Sprintf("the getter calls after op %d", i))
			if after != before {
				report(classOf(s, "snapshot-write-reached-live"),
					fmt.Sprintf("op %d (%s %s on snapshot %d) changed the tracked state from %s to %s", i, op.Tag, op.Field+op.Flags, op.ID, before, after))
			}
			if m := heapGettersAgree(cl); m != "" {
				report(classOf(s, "getter-results-disagree"), fmt.Sprintf("after op %d (%s %s on snapshot %d): %s", i, op.Tag, op.Field+op.Flags, op.ID, m))
			}
			for j, t := range snaps { // the client's own writes (also through its own aliases) are expected
				if got := t.value(); got != t.want && t != s && !clientAliased && !t.leaky && !s.leaky {
					report("snapshots-share-memory", fmt.Sprintf("op %d (%s %s on snapshot %d) changed snapshot %d from %s to %s", i, op.Tag, op.Field+op.Flags, op.ID, j, t.want, got))
				}
				t.want = t.value()
			}
		case "R":
			out = append(out, "R"+heapRequery(cl))
			checkLists(fmt.Sprintf("op %d (re-query)", i))
		case "L":
			if op.ID >= len(lists) {
				continue
			}
			l := lists[op.ID]
			switch op.Field {
			case "show":
				out = append(out, "L"+strconv.Itoa(op.ID)+"="+l.dump())
				continue
			case "nil":
				if op.Index < l.length() {
					if l.users {
						l.us[op.Index] = nil
					} else {
						l.cs[op.Index] = nil
					}
				}
			case "swap":
				if op.Index+1 < l.length() {
					if l.users {
						l.us[op.Index], l.us[op.Index+1] = l.us[op.Index+1], l.us[op.Index]
					} else {
						l.cs[op.Index], l.cs[op.Index+1] = l.cs[op.Index+1], l.cs[op.Index]
					}
				}
			default:
				continue
			}
			applied++
			l.want = l.dump()
			for j, o := range lists { // a slot write in one result slice must not show in another
				if got := o.dump(); got != o.want {
					report("listing-shared", fmt.Sprintf("op %d (%s slot %d of listing %d) changed listing %d from %s to %s", i, op.Field, op.Index, op.ID, j, o.want, got))
					o.want = got
				}
			}
			before := heapRequery(cl)
			_ = before
			checkLists(fmt.Sprintf("the getter calls after op %d", i))
		case "I":
			if op.ID >= len(snaps) {
				out = append(out, "I"+strconv.Itoa(op.ID)+":none")
				continue
			}
			v, shared := snaps[op.ID].inspect(cl)
			if shared {
				report(classOf(snaps[op.ID], "aliasing"), fmt.Sprintf("snapshot %d shares memory with the tracked state: %s", op.ID, v))
			}
			out = append(out, "I"+strconv.Itoa(op.ID)+":"+v)
		}
	}
	for j, s := range snaps {
		v, shared := s.inspect(cl)
		if shared {
			report(classOf(s, "aliasing"), fmt.Sprintf("snapshot %d shares memory with the tracked state: %s", j, v))
		}
		out = append(out, "I"+strconv.Itoa(j)+":"+v)
	}
	for j, l := range lists {
		out = append(out, "L"+strconv.Itoa(j)+"="+l.dump())
	}
	out = append(out, "R"+heapRequery(cl))
	checkLists("the final re-query")
	for j, l := range lists {
		for k := j + 1; k < len(lists); k++ {
			if p := l.ptr(); p != 0 && p == lists[k].ptr() {
				report("listing-shared", fmt.Sprintf("listings %d and %d (result slices of two calls) share one backing array", j, k))
			}
		}
	}
	if m := heapStringListings(cl); m != "" {
		report("listing-shared", m)
	}
	if !clientAliased { // objects handed out by different getter calls must not share memory either
		seen := map[uintptr]int{}
		for j, s := range snaps {
			if s.isNil() || s.leaky {
				continue
			}
			var ptrs []uintptr
			if s.u != nil {
				ptrs = []uintptr{reflect.ValueOf(s.u).Pointer(), listPtr(s.u.ChannelList), s.u.Perms.VerifPermsIdentity()}
			} else {
				ptrs = []uintptr{reflect.ValueOf(s.c).Pointer(), listPtr(s.c.UserList)}
			}
			for _, p := range ptrs {
				if p == 0 {
					continue
				}
				if k, dup := seen[p]; dup && k != j {
					report("snapshots-share-memory", fmt.Sprintf("snapshots %d and %d share memory (%s / %s)", k, j, snaps[k].value(), s.value()))
				}
				seen[p] = j
			}
		}
	}
	bucket := func(n int) string {
		switch {
		case n == 0:
			return "0"
		case n == 1:
			return "1"
		case n < 5:
			return "2-4"
		}
		return "5+"
	}
	sig := "snaps" + bucket(nonNil) + " writes" + bucket(applied) + " events-after-snap" + bucket(evAfter) + " shrink/rename-after-snap" + bucket(shrinkAfter)
	if nonNil == 0 || nE == 0 {
		sig = "trivial " + sig
	}
	_, _ = nS, nM
	return Result{Obs: strings.Join(out, ";"), Oracle: oracle, Sig: sig}
}

// ---- generators ----

var (
	heapNicks = []string{"alice", "bob", "carol", "dave", "Erin", "f[r]ed", "gus", "heidi", "ivan", "judy", "ken", "liz"}
	heapChans = []string{"#a", "#b", "#C{1}", "#dev", "&loc"}
)

func heapSrc(name string) Ev { return Ev{HasSrc: true, Name: name, Ident: "u", Host: "h.example"} }

func heapEvent(r *rand.Rand) Ev {
	n := heapNicks[r.Intn(len(heapNicks))]
	if r.Intn(5) == 0 {
		n = caseVariant(r, n)
	}
	ch := heapChans[r.Intn(len(heapChans))]
	if r.Intn(6) == 0 {
		ch = caseVariant(r, ch)
	}
	e := heapSrc(n)
	switch r.Intn(20) {
	case 0, 1, 2, 3:
		e.Cmd, e.Params = "JOIN", []string{ch}
		if r.Intn(3) == 0 {
			e.Params = append(e.Params, Pick(r, "*", "acct"), "Real Name")
		}
	case 4, 5, 6:
		e.Cmd, e.Params = "PART", []string{ch}
	case 7:
		e.Cmd, e.Params = "QUIT", []string{"bye"}
	case 8:
		e.Cmd, e.Params = "KICK", []string{ch, heapNicks[r.Intn(len(heapNicks))], "out"}
	case 9, 10:
		e.Cmd, e.Params = "NICK", []string{Pick(r, heapNicks[r.Intn(len(heapNicks))], "zed", "Amy", "n{1}")}
	case 11, 12:
		e = Ev{HasSrc: true, Name: "srv", Cmd: "353", Params: []string{"me", "=", ch, heapNamesList(r)}}
	case 13, 14:
		e.Cmd = "MODE"
		switch r.Intn(4) {
		case 0:
			e.Params = []string{ch, Pick(r, "+o", "-o", "+v", "-v", "+ov"), heapNicks[r.Intn(len(heapNicks))], heapNicks[r.Intn(len(heapNicks))]}
		case 1:
			e.Params = []string{ch, Pick(r, "+k", "+l", "+kl", "+l", "+k"), Pick(r, "key", "5", "10", "20", "sesame"), Pick(r, "7", "30")}
		case 2:
			e.Params = []string{ch, Pick(r, "+nt", "-n", "+m-t", "-k", "-l", "+s")}
		default:
			e.Params = []string{ch, Pick(r, "+b", "+I", "-b"), "*!*@bad"}
		}
	case 15:
		e.Cmd, e.Params = "TOPIC", []string{ch, Pick(r, "new topic", "", "t2")}
	case 16:
		e = Ev{HasSrc: true, Name: "srv", Cmd: "354", Params: []string{"me", "1", ch, "id", "host.x", n, Pick(r, "acct", "0"), "Real " + n}}
	case 17:
		e.Cmd, e.Params = Pick(r, "AWAY", "ACCOUNT"), []string{Pick(r, "gone", "*", "acct2")}
	case 18:
		e.Cmd, e.Params = "CHGHOST", []string{"newid", "new.host"}
	default:
		if r.Intn(2) == 0 {
			e = Ev{HasSrc: true, Name: "me", Ident: "u", Host: "h", Cmd: Pick(r, "JOIN", "PART"), Params: []string{ch}}
		} else {
			e = Ev{HasSrc: true, Name: "srv", Cmd: "005", Params: []string{"me", Pick(r, "PREFIX=(qaohv)~&@%+", "CHANMODES=beI,k,l,imnpst", "CHANMODES=b,k,l,imnt"), "are supported by this server"}}
		}
	}
	return e
}

func heapNamesList(r *rand.Rand) string {
	k := 1 + r.Intn(6)
	var l []string
	for i := 0; i < k; i++ {
		l = append(l, Pick(r, "", "@", "+", "@+", "~", "%")+heapNicks[r.Intn(len(heapNicks))])
	}
	return strings.Join(l, " ")
}

// heapPrelude: the client is welcomed, joins one or two channels and learns who is there.
func heapPrelude(r *rand.Rand) []heapOp {
	ops := []heapOp{{Tag: "E", Ev: Ev{HasSrc: true, Name: "srv", Cmd: "001", Params: []string{"me", "welcome"}}}}
	same := ""
	if r.Intn(4) == 0 { // the same members everywhere: equal lists in different objects
		same = heapNamesList(r)
	}
	for i := 0; i <= r.Intn(3); i++ {
		ch := heapChans[i]
		names := same
		if names == "" {
			names = heapNamesList(r)
		}
		ops = append(ops, heapOp{Tag: "E", Ev: Ev{HasSrc: true, Name: "me", Ident: "u", Host: "h", Cmd: "JOIN", Params: []string{ch}}})
		ops = append(ops, heapOp{Tag: "E", Ev: Ev{HasSrc: true, Name: "srv", Cmd: "353", Params: []string{"me", "=", ch, "me " + names}}})
	}
	return ops
}

func heapMutation(r *rand.Rand, nsnaps int) heapOp {
	id := 0
	if nsnaps > 0 {
		id = r.Intn(nsnaps + 1)
	}
	if r.Intn(6) == 0 {
		return heapOp{Tag: "A", ID: id, Flags: Pick(r, "+m", "-n", "+k", "+l-t", "-k", "+ntk", "+b", "+l", "+k", "+kl"), Args: []string{Pick(r, "k2", "9", "*!*@x", "10", "20"), "40"}}
	}
	f := Pick(r, "elem", "elem", "elem", "append", "append", "sort", "delete", "delete", "trunc", "alias", "nick", "ident", "host", "name",
		"account", "away", "cname", "topic", "nilperms")
	if f == "nilperms" && r.Intn(3) != 0 {
		f = "elem"
	}
	return heapOp{Tag: "M", ID: id, Field: f, Index: r.Intn(4), Value: Pick(r, "zzz", "#zzz", "", "alice", "#a", "AAA", "mallory")}
}

// heapOddName decorates a tracked name the way callers plausibly pass it to a lookup:
// hostmask forms ("nick!ident@host", "nick@host", "nick!ident", wildcards), status prefixes
// ("@nick", "+#chan"), surrounding spaces, lists, case variants. At HEAD a lookup folds the
// whole argument and finds nothing for most of these (the model says which); whatever a
// lookup does return must be an isolated copy.
func heapOddName(r *rand.Rand, base string) string {
	switch r.Intn(16) {
	case 0:
		return base + "!u@h.example"
	case 1:
		return base + "!" + Pick(r, "u", "~id", "*") + "@" + Pick(r, "h", "host.x", "*")
	case 2:
		return base + "@" + Pick(r, "h.example", "host.x", "*")
	case 3:
		return base + "!" + Pick(r, "u", "*", "")
	case 4:
		return caseVariant(r, base) + "!*@*"
	case 5:
		return Pick(r, "@", "+", "@+", "~", "%", "&") + base
	case 6:
		return " " + base
	case 7:
		return base + " "
	case 8:
		return base + "," + base
	case 9:
		return base + Pick(r, "\x00", "\r\n", ":", "!", "@")
	case 10:
		return Pick(r, "!u@h", "@h", "!", "@", "*", "*!*@*", " ")
	case 11:
		return strings.ToUpper(base)
	case 12:
		return strings.ToUpper(base) + "!U@H"
	case 13:
		return base + "!u@h!x@y"
	case 14:
		return ":" + base
	}
	return caseVariant(r, base)
}

func heapSnapOp(r *rand.Rand) heapOp {
	switch r.Intn(8) {
	case 0, 1, 2:
		n := heapNicks[r.Intn(len(heapNicks))]
		switch r.Intn(8) {
		case 0, 1:
			n = Pick(r, "me", "ME", "nobody", "", caseVariant(r, n))
		case 2, 3, 4:
			n = heapOddName(r, Pick(r, n, "me"))
		case 5:
			if r.Intn(3) == 0 { // a channel name given to the user lookup
				n = heapChans[r.Intn(len(heapChans))]
			}
		}
		return heapOp{Tag: "S", Kind: "user", Name: n}
	case 3, 4, 5:
		ch := heapChans[r.Intn(len(heapChans))]
		switch r.Intn(8) {
		case 0, 1:
			ch = Pick(r, "#none", "", caseVariant(r, ch))
		case 2, 3:
			ch = heapOddName(r, ch)
		case 4:
			if r.Intn(3) == 0 { // a nickname given to the channel lookup
				ch = heapNicks[r.Intn(len(heapNicks))]
			}
		}
		return heapOp{Tag: "S", Kind: "chan", Name: ch}
	case 6:
		return heapOp{Tag: "S", Kind: "users"}
	}
	return heapOp{Tag: "S", Kind: "chans"}
}

// heapFragment returns a short scripted scenario around one channel: situations in which
// sharing would need a specific order of events to show. base = number of snapshots taken
// so far; the second result is the number of snapshots the fragment adds.
func heapFragment(r *rand.Rand, base int) ([]heapOp, int) {
	ch := heapChans[r.Intn(len(heapChans))]
	a, b := heapNicks[r.Intn(len(heapNicks))], heapNicks[r.Intn(len(heapNicks))]
	snap := heapOp{Tag: "S", Kind: "chan", Name: ch}
	if r.Intn(3) == 0 {
		snap = heapOp{Tag: "S", Kind: "chans"}
	}
	id := base // with "chans" the channel may be any of the new ones: writes then go to the first
	switch r.Intn(5) {
	case 0: // a mode with an argument is set, snapshot, the same mode is set again with another argument
		m := Pick(r, "+l", "+k")
		v1, v2 := Pick(r, "10", "key", "5"), Pick(r, "20", "sesame", "99")
		return []heapOp{heapE(a, "JOIN", ch), heapE(a, "MODE", ch, m, v1), snap, heapE(b, "MODE", ch, m, v2),
			{Tag: "I", ID: id}, {Tag: "R"}}, 1
	case 1: // the same through the snapshot: Modes.Apply re-sets a mode the tracked channel has
		m := Pick(r, "+l", "+k")
		return []heapOp{heapE(a, "JOIN", ch), heapE(a, "MODE", ch, m, Pick(r, "10", "key")), snap,
			{Tag: "A", ID: id, Flags: m, Args: []string{Pick(r, "20", "sesame")}}, {Tag: "R"}, {Tag: "I", ID: id}}, 1
	case 2: // a channel whose list became empty but keeps its capacity; the snapshot appends, somebody joins
		ops := []heapOp{heapE(a, "JOIN", ch), heapE("me", "PART", ch), heapE(a, "JOIN", ch), heapE(a, Pick(r, "PART", "QUIT"), ch), snap,
			{Tag: "M", ID: id, Field: "append", Value: "mallory"}, heapE(b, "JOIN", ch), {Tag: "I", ID: id}, {Tag: "R"}}
		if r.Intn(2) == 0 { // or the other way round: join first, then the append on the old snapshot
			ops[5], ops[6] = ops[6], ops[5]
		}
		return ops, 1
	case 3: // lookups with hostmask-like / decorated arguments of a tracked user; whatever comes back is written and must stay isolated
		ops := []heapOp{heapE(a, "JOIN", ch)}
		k := 2 + r.Intn(3)
		for i := 0; i < k; i++ {
			ops = append(ops, heapOp{Tag: "S", Kind: "user", Name: heapOddName(r, a)})
		}
		for i := 0; i < k; i++ {
			ops = append(ops, heapOp{Tag: "M", ID: base + i, Field: Pick(r, "nick", "account", "elem", "append"), Index: 0, Value: "mallory"})
		}
		ops = append(ops, heapOp{Tag: "R"}, heapE("srv", "354", "me", "1", ch, "newid", "new.host", a, "acct9", "Real"), heapE(a, "PART", ch))
		for i := 0; i < k; i++ {
			ops = append(ops, heapOp{Tag: "I", ID: base + i})
		}
		return ops, k
	default: // a user whose channel list became empty in place (PART of its only channel is followed by removal, so use two)
		return []heapOp{heapE(a, "JOIN", ch), {Tag: "S", Kind: "user", Name: a}, heapE(a, "PART", ch), heapE(a, "JOIN", ch),
			{Tag: "S", Kind: "user", Name: a}, {Tag: "M", ID: base + 1, Field: "append", Value: "#zzz"}, heapE(a, "JOIN", heapChans[r.Intn(len(heapChans))]),
			{Tag: "I", ID: base}, {Tag: "I", ID: base + 1}}, 2
	}
}

func heapGenOps(r *rand.Rand, event func(*rand.Rand) Ev, members bool) Case {
	ops := heapPrelude(r)
	n := 4 + r.Intn(22)
	nsnaps := 0
	if r.Intn(5) != 0 { // start with a snapshot of something that is tracked
		switch r.Intn(4) {
		case 0:
			ops = append(ops, heapOp{Tag: "S", Kind: "user", Name: "me"})
			nsnaps++
		case 1:
			ops = append(ops, heapOp{Tag: "S", Kind: "chan", Name: "#a"})
			nsnaps++
		case 2:
			ops = append(ops, heapOp{Tag: "S", Kind: "users"})
			nsnaps += 3
		default:
			ops = append(ops, heapOp{Tag: "S", Kind: "chans"})
			nsnaps += 2
		}
	}
	for i := 0; i < n; i++ {
		switch k := r.Intn(21); {
		case k == 20:
			f, add := heapFragment(r, nsnaps)
			ops = append(ops, f...)
			nsnaps += add
		case k < 7:
			ops = append(ops, heapOp{Tag: "E", Ev: event(r)})
		case k < 11:
			o := heapSnapOp(r)
			ops = append(ops, o)
			if o.Kind == "users" || o.Kind == "chans" {
				nsnaps += 3
			} else {
				nsnaps++
			}
		case k < 13 && members:
			if nsnaps > 0 {
				ops = append(ops, heapOp{Tag: "S", Kind: Pick(r, "uchans", "cusers", "cusers", "ctrusted", "cadmins"), Name: strconv.Itoa(r.Intn(nsnaps))})
				nsnaps += 2
			}
		case k < 17:
			ops = append(ops, heapMutation(r, nsnaps))
		case k < 18:
			if r.Intn(2) == 0 {
				ops = append(ops, heapOp{Tag: "R"})
			} else {
				ops = append(ops, heapOp{Tag: "L", ID: r.Intn(3), Field: Pick(r, "nil", "swap", "swap", "show"), Index: r.Intn(4)})
			}
		default:
			ops = append(ops, heapOp{Tag: "I", ID: r.Intn(nsnaps + 1)})
		}
	}
	return heapEncode("me", Pick(r, "user", "u2"), ops)
}

func heapE(name, cmd string, params ...string) heapOp {
	e := Ev{HasSrc: true, Name: name, Ident: "u", Host: "h", Cmd: cmd, Params: params}
	return heapOp{Tag: "E", Ev: e}
}

func heapFixed() []Case {
	base := []heapOp{heapE("srv", "001", "me", "hi"), heapE("me", "JOIN", "#a"), heapE("srv", "353", "me", "=", "#a", "me @alice +bob carol"),
		heapE("me", "JOIN", "#b"), heapE("srv", "353", "me", "=", "#b", "me bob dave")}
	mk := func(more ...heapOp) Case {
		return heapEncode("me", "user", append(append([]heapOp(nil), base...), more...))
	}
	return []Case{
		// the repaired defect (620d5e0): element write through a snapshot; PART after a snapshot
		mk(heapOp{Tag: "S", Kind: "chan", Name: "#a"}, heapOp{Tag: "M", ID: 0, Field: "elem", Index: 0, Value: "zzz"}, heapOp{Tag: "R"},
			heapOp{Tag: "S", Kind: "chan", Name: "#a"}, heapE("alice", "PART", "#a"), heapOp{Tag: "I", ID: 1}),
		mk(heapOp{Tag: "S", Kind: "user", Name: "bob"}, heapOp{Tag: "M", ID: 0, Field: "elem", Index: 0, Value: "#zzz"}, heapOp{Tag: "R"},
			heapE("bob", "PART", "#a"), heapOp{Tag: "I", ID: 0}),
		// spare capacity: after a PART the tracked array has room; a snapshot appends; somebody joins
		mk(heapE("alice", "PART", "#a"), heapOp{Tag: "S", Kind: "chan", Name: "#a"}, heapOp{Tag: "M", ID: 0, Field: "append", Value: "mallory"},
			heapE("erin", "JOIN", "#a"), heapOp{Tag: "I", ID: 0}, heapOp{Tag: "R"}),
		// permission maps: MODE +o after a snapshot; rename after a snapshot
		mk(heapOp{Tag: "S", Kind: "user", Name: "bob"}, heapE("x", "MODE", "#a", "+o", "bob"), heapOp{Tag: "I", ID: 0},
			heapE("bob", "NICK", "bobby"), heapOp{Tag: "I", ID: 0}, heapOp{Tag: "S", Kind: "user", Name: "bobby"}),
		// channel modes: Apply through a snapshot and on the tracked channel
		mk(heapE("x", "MODE", "#a", "+ntk", "key"), heapOp{Tag: "S", Kind: "chan", Name: "#a"}, heapOp{Tag: "A", ID: 0, Flags: "+l-n", Args: []string{"5"}},
			heapOp{Tag: "R"}, heapE("x", "MODE", "#a", "-k+m"), heapOp{Tag: "I", ID: 0}),
		// the client aliases two of its own snapshots, then writes through one
		mk(heapOp{Tag: "S", Kind: "users"}, heapOp{Tag: "M", ID: 0, Field: "alias", Index: 1}, heapOp{Tag: "M", ID: 0, Field: "elem", Index: 0, Value: "#x"},
			heapOp{Tag: "M", ID: 1, Field: "append", Value: "#y"}, heapOp{Tag: "M", ID: 0, Field: "sort"}, heapOp{Tag: "R"}),
		mk(heapOp{Tag: "S", Kind: "chans"}, heapOp{Tag: "M", ID: 1, Field: "alias", Index: 0}, heapOp{Tag: "M", ID: 1, Field: "delete", Index: 0},
			heapOp{Tag: "A", ID: 1, Flags: "+m"}, heapE("me", "PART", "#a"), heapOp{Tag: "R"}),
		mk(heapOp{Tag: "S", Kind: "user", Name: "alice"}, heapOp{Tag: "M", ID: 0, Field: "nilperms"}, heapE("x", "MODE", "#a", "+v", "alice"),
			heapOp{Tag: "S", Kind: "user", Name: "ALICE"}, heapOp{Tag: "S", Kind: "user", Name: ""}, heapOp{Tag: "S", Kind: "chan", Name: "#zz"}),
		// equal lists in different objects: #a and #c have the same members
		mk(heapE("me", "JOIN", "#c"), heapE("srv", "353", "me", "=", "#c", "me @alice +bob carol"), heapOp{Tag: "S", Kind: "chans"},
			heapOp{Tag: "M", ID: 0, Field: "elem", Index: 1, Value: "zzz"}, heapOp{Tag: "S", Kind: "users"}, heapOp{Tag: "M", ID: 4, Field: "elem", Index: 0, Value: "#q"}),
		// result slices: two listings alive at once, slot writes in the first, events, a third call
		mk(heapOp{Tag: "S", Kind: "users"}, heapOp{Tag: "S", Kind: "users"}, heapOp{Tag: "L", ID: 0, Field: "nil", Index: 1}, heapOp{Tag: "L", ID: 0, Field: "swap", Index: 2},
			heapOp{Tag: "M", ID: 0, Field: "nick", Value: "mallory"}, heapOp{Tag: "L", ID: 1, Field: "show"}, heapE("alice", "QUIT", "bye"), heapE("aaron", "JOIN", "#a"),
			heapE("bob", "NICK", "robert"), heapOp{Tag: "S", Kind: "users"}, heapOp{Tag: "L", ID: 0, Field: "show"}, heapOp{Tag: "S", Kind: "chans"}, heapOp{Tag: "S", Kind: "chans"},
			heapOp{Tag: "L", ID: 3, Field: "swap", Index: 0}, heapOp{Tag: "L", ID: 4, Field: "show"}),
		// lookups by hostmask-like and decorated arguments: nil at HEAD, and never the tracked object
		mk(heapOp{Tag: "S", Kind: "user", Name: "alice!a@h"}, heapOp{Tag: "S", Kind: "user", Name: "alice@h"}, heapOp{Tag: "S", Kind: "user", Name: "Alice!*@*"},
			heapOp{Tag: "S", Kind: "user", Name: "alice!a"}, heapOp{Tag: "S", Kind: "user", Name: "@alice"}, heapOp{Tag: "S", Kind: "user", Name: " alice"},
			heapOp{Tag: "S", Kind: "user", Name: "alice "}, heapOp{Tag: "S", Kind: "user", Name: "ALICE"},
			heapOp{Tag: "M", ID: 0, Field: "nick", Value: "mallory"}, heapOp{Tag: "M", ID: 1, Field: "elem", Index: 0, Value: "#hijacked"},
			heapOp{Tag: "M", ID: 2, Field: "account", Value: "hijacked"}, heapOp{Tag: "M", ID: 7, Field: "nick", Value: "m2"}, heapOp{Tag: "R"},
			heapE("srv", "354", "me", "1", "#a", "newid", "new.host", "alice", "acct9", "Real"), heapE("alice", "PART", "#a")),
		mk(heapOp{Tag: "S", Kind: "chan", Name: "@#a"}, heapOp{Tag: "S", Kind: "chan", Name: "+#a"}, heapOp{Tag: "S", Kind: "chan", Name: "#a "},
			heapOp{Tag: "S", Kind: "chan", Name: " #a"}, heapOp{Tag: "S", Kind: "chan", Name: "#a,#b"}, heapOp{Tag: "S", Kind: "chan", Name: "#A"},
			heapOp{Tag: "S", Kind: "chan", Name: "alice"}, heapOp{Tag: "S", Kind: "user", Name: "#a"},
			heapOp{Tag: "M", ID: 0, Field: "topic", Value: "defaced"}, heapOp{Tag: "M", ID: 5, Field: "elem", Index: 0, Value: "zzz"}, heapOp{Tag: "R"},
			heapE("bob", "PART", "#a")),
		// a mode with an argument is set again after a snapshot / through a snapshot
		mk(heapE("x", "MODE", "#a", "+l", "10"), heapOp{Tag: "S", Kind: "chan", Name: "#a"}, heapE("x", "MODE", "#a", "+l", "20"), heapOp{Tag: "I", ID: 0},
			heapOp{Tag: "S", Kind: "chan", Name: "#a"}, heapOp{Tag: "A", ID: 1, Flags: "+l", Args: []string{"30"}}, heapOp{Tag: "R"}),
		// an empty list that still has capacity: #x is tracked through bob's JOIN, bob leaves, the snapshot appends, carol joins
		mk(heapE("bob", "JOIN", "#x"), heapE("bob", "PART", "#x"), heapOp{Tag: "S", Kind: "chan", Name: "#x"},
			heapOp{Tag: "M", ID: 0, Field: "append", Value: "mallory"}, heapE("carol", "JOIN", "#x"), heapOp{Tag: "I", ID: 0}, heapOp{Tag: "R"}),
		mk(heapE("bob", "JOIN", "#x"), heapE("bob", "PART", "#x"), heapOp{Tag: "S", Kind: "chan", Name: "#x"},
			heapE("carol", "JOIN", "#x"), heapOp{Tag: "M", ID: 0, Field: "append", Value: "mallory"}, heapOp{Tag: "R"}),
		heapEncode("me", "user", nil),
	}
}

func heapMembersFixed() []Case {
	base := []heapOp{heapE("srv", "001", "me", "hi"), heapE("me", "JOIN", "#a"), heapE("srv", "353", "me", "=", "#a", "me @alice +bob")}
	mk := func(more ...heapOp) Case {
		return heapEncode("me", "user", append(append([]heapOp(nil), base...), more...))
	}
	return []Case{
		mk(heapOp{Tag: "S", Kind: "user", Name: "alice"}, heapOp{Tag: "S", Kind: "uchans", Name: "0"}, heapOp{Tag: "M", ID: 1, Field: "topic", Value: "defaced"}, heapOp{Tag: "R"}),
		mk(heapOp{Tag: "S", Kind: "chan", Name: "#a"}, heapOp{Tag: "S", Kind: "cusers", Name: "0"}, heapOp{Tag: "M", ID: 1, Field: "elem", Index: 0, Value: "#zzz"}, heapOp{Tag: "R"}),
		mk(heapOp{Tag: "S", Kind: "chan", Name: "#a"}, heapOp{Tag: "S", Kind: "cusers", Name: "0"}, heapE("alice", "NICK", "al"), heapOp{Tag: "I", ID: 1}),
		mk(heapOp{Tag: "S", Kind: "chan", Name: "#a"}, heapOp{Tag: "S", Kind: "ctrusted", Name: "0"}, heapOp{Tag: "S", Kind: "cadmins", Name: "0"},
			heapOp{Tag: "M", ID: 1, Field: "nick", Value: "zzz"}, heapOp{Tag: "M", ID: 3, Field: "away", Value: "gone"}, heapOp{Tag: "R"}),
	}
}

func init() {
	Register(&Suite{Name: "heap.ops", Prop: []string{"C13"}, Fixed: heapFixed,
		Gen: func(r *rand.Rand) Case { return heapGenOps(r, heapEvent, false) }, Run: heapRun})
	Register(&Suite{Name: "heap.hostile", Prop: []string{"C13"},
		Gen: func(r *rand.Rand) Case {
			return heapGenOps(r, func(r *rand.Rand) Ev {
				if r.Intn(3) == 0 {
					return heapEvent(r)
				}
				return hostileEvent(r)
			}, false)
		}, Run: heapRun})
	Register(&Suite{Name: "heap.members", Prop: []string{"C13"}, Fixed: heapMembersFixed,
		Gen: func(r *rand.Rand) Case { return heapGenOps(r, heapEvent, true) }, Run: heapRun})
	// the same cases against a model in which User.Channels / Channel.Users copy (the code after
	// notes/proposed-fixes/member-getter-live-object.diff)
	Register(&Suite{Name: "heap.members.copied", Prop: []string{"C13"}, Fixed: heapMembersFixed,
		Gen: func(r *rand.Rand) Case { return heapGenOps(r, heapEvent, true) }, Run: heapRun})
}
