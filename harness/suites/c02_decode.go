package suites

// codec.decode (C02, connected route): every line read from the socket goes through
// ParseEvent; an unparseable line ends the connection with ErrParseEvent.

import (
	"errors"
	"math/rand"
	"strings"
	"sync"
	"time"

	"gircverif/drive"

	"github.com/lrstanley/girc"
)

func cdDecodeRun(c Case) Result {
	line := c[0]
	s := drive.Start(drive.BaseConfig())
	var mu sync.Mutex
	var seen []string
	s.C.Handlers.Add(girc.ALL_EVENTS, func(_ *girc.Client, e girc.Event) {
		mu.Lock()
		seen = append(seen, cdShowEvent(&e))
		mu.Unlock()
	})
	want := girc.ParseEvent(line)
	mu.Lock()
	before := len(seen) // events dispatched before the line is sent (CONNECTED, ...)
	mu.Unlock()
	if err := s.Send(line); err != nil {
		s.Stop()
		return Result{Obs: "?send-failed"}
	}
	obs, oracle := "", ""
	deadline := time.Now().Add(8 * time.Second)
	if want == nil {
		// the connection must end, and with ErrParseEvent
		select {
		case err := <-s.Done:
			var pe girc.ErrParseEvent
			if errors.As(err, &pe) {
				obs = "closed:ErrParseEvent"
			} else {
				obs = "closed:other"
				oracle = "decode-error-kind: connection ended without ErrParseEvent"
			}
			s.Peer.Close()
		case <-time.After(8 * time.Second):
			obs = "open"
			oracle = "decode-nil-not-fatal: unparseable line did not end the connection"
			s.Stop()
		}
		return Result{Obs: obs, Oracle: oracle, Sig: "nil"}
	}
	// The line is dispatched as exactly one event: wait for the first event after Send
	// (or for the connection to end), then compare.
	exp := cdShowEvent(want)
	found, closed := false, false
	for !found && !closed && time.Now().Before(deadline) {
		mu.Lock()
		for _, x := range seen[before:] {
			if x == exp {
				found = true
			}
		}
		arrived := len(seen) > before
		mu.Unlock()
		if found {
			break
		}
		if arrived { // something else was dispatched: give late deliveries a moment, then stop
			time.Sleep(20 * time.Millisecond)
			mu.Lock()
			for _, x := range seen[before:] {
				if x == exp {
					found = true
				}
			}
			mu.Unlock()
			break
		}
		select {
		case <-s.Done:
			closed = true
		default:
			time.Sleep(time.Millisecond)
		}
	}
	if closed {
		s.Peer.Close()
	} else {
		s.Stop()
	}
	if found {
		obs = "event:" + exp
	} else {
		obs = "event-not-delivered"
		oracle = "decode-event: the handlers did not receive ParseEvent(line)"
	}
	return Result{Obs: obs, Oracle: oracle, Sig: "event"}
}

func init() {
	Register(&Suite{
		Name: "codec.decode",
		Prop: []string{"C02"},
		Fixed: func() []Case {
			return []Case{{":n!u@h PRIVMSG #c :hello there"}, {"@a=b;c TAGMSG #c"}, {"X"}, {"@"}, {":x"}, {"@a "}, {"NOTICE  a\tb  :x "}}
		},
		Gen: func(r *rand.Rand) Case {
			for {
				a := cdGenAst(r, 0)
				a.cmd = Pick(r, "PRIVMSG", "NOTICE", "TAGMSG", "XYZ", "WALLOPS")
				a.eol = ""
				line := a.render()
				if r.Intn(6) == 0 {
					line = cdMutate(r, line)
				}
				if r.Intn(8) == 0 {
					line = Pick(r, "", "\r", "A", ":", "@x", ": X", "@ X", ":a", "@a")
				}
				if !strings.ContainsAny(line, "\n\x00") && len(line) < 400 {
					// lines that make the client act on its own connection are left to C05/C17
					if e := girc.ParseEvent(line); e != nil {
						switch e.Command {
						case "PRIVMSG", "NOTICE", "TAGMSG", "XYZ", "WALLOPS", "":
						default:
							continue
						}
						if len(e.Params) > 0 && strings.HasPrefix(e.Params[len(e.Params)-1], "\x01") {
							continue
						}
					}
					return Case{line}
				}
			}
		},
		Run: cdDecodeRun,
	})
}
