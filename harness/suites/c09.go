package suites

import (
	"bufio"
	"bytes"
	"encoding/base64"
	"fmt"
	"math/rand"
	"net"
	"os"
	"regexp"
	"sort"
	"strings"
	"sync"
	"time"

	"gircverif/drive"

	"github.com/lrstanley/girc"
)

// C09 — SASL delivers the exact credential, fails closed and never logs secrets.
//
// Suites: sasl.b64enc / sasl.b64dec (Lib/Base64.v vs encoding/base64), sasl.plain /
// sasl.external (the two Encode methods), sasl.session (connected: registration,
// CAP LS/ACK, AUTHENTICATE, 900-908, OPER; mechanisms PLAIN, EXTERNAL, fixed response,
// stateful sequence of responses; wire lines, Connect's result, log hygiene), sasl.log (the Sensitive/Echo gates of debugLogEvent, RunHandlers and
// Pretty on arbitrary events).

const b64Alphabet = "ABCDEFGHIJKLMNOPQRSTUVWXYZabcdefghijklmnopqrstuvwxyz0123456789+/"

// refB64 is an independent RFC 4648 encoder (oracle side; not encoding/base64).
func refB64(s string) string {
	var sb strings.Builder
	for i := 0; i < len(s); i += 3 {
		var v uint32
		n := 0
		for j := 0; j < 3; j++ {
			v <<= 8
			if i+j < len(s) {
				v |= uint32(s[i+j])
				n++
			}
		}
		for j := 0; j < 4; j++ {
			if j <= n {
				sb.WriteByte(b64Alphabet[(v>>(18-6*uint(j)))&63])
			} else {
				sb.WriteByte('=')
			}
		}
	}
	return sb.String()
}

// response lengths the property names explicitly, and their neighbours
var saslTargets = []int{0, 1, 2, 7, 8, 399, 400, 401, 799, 800, 801, 1199, 1200, 1201, 1600, 4000}

// lengths reachable by PLAIN (multiples of 4, at least 4)
var plainTargets = []int{4, 8, 16, 396, 400, 404, 796, 800, 804, 1196, 1200, 1204, 1600, 2000, 4000}

func lenBucket(n int) string {
	switch {
	case n == 0:
		return "0"
	case n < 399:
		return "<399"
	case n <= 401:
		return fmt.Sprint(n)
	case n < 799:
		return "402-798"
	case n <= 801:
		return fmt.Sprint(n)
	case n%400 == 0:
		return "k*400"
	default:
		return ">801"
	}
}

// plainCreds draws a user and a password (arbitrary bytes) whose PLAIN response is
// exactly respLen bytes long (respLen a positive multiple of 4), when possible.
func plainCreds(r *rand.Rand, respLen int) (string, string) {
	raw := respLen/4*3 - r.Intn(3) // 2*len(u) + 2 + len(p), padding 0..2
	if raw < 2 {
		raw = 2
	}
	maxU := (raw - 2) / 2
	if maxU > 24 {
		maxU = 24
	}
	u := 0
	if maxU > 0 {
		u = r.Intn(maxU + 1)
		if maxU >= 6 && u < 6 {
			u = 6
		}
	}
	p := raw - 2 - 2*u
	return RandBytes(r, u, ""), RandBytes(r, p, "")
}

func splitEvery(s string, n int) []string {
	var out []string
	for len(s) > n {
		out = append(out, s[:n])
		s = s[n:]
	}
	return append(out, s)
}

// ---- sasl.session -----------------------------------------------------------

type lockedBuf struct {
	mu sync.Mutex
	b  bytes.Buffer
}

func (l *lockedBuf) Write(p []byte) (int, error) {
	l.mu.Lock()
	defer l.mu.Unlock()
	return l.b.Write(p)
}

func (l *lockedBuf) String() string {
	l.mu.Lock()
	defer l.mu.Unlock()
	return l.b.String()
}

type fixedMech struct{ method, resp string }

func (m *fixedMech) Method() string         { return m.method }
func (m *fixedMech) Encode([]string) string { return m.resp }

// seqMech keeps state between calls, as challenge-response mechanisms do: the k-th call
// of Encode returns the k-th response, "" (give up) once they are used up.
type seqMech struct {
	method string
	resps  []string
	calls  int
}

func (m *seqMech) Method() string { return m.method }
func (m *seqMech) Encode([]string) string {
	r := ""
	if m.calls < len(m.resps) {
		r = m.resps[m.calls]
	}
	m.calls++
	return r
}

var reDebugLine = regexp.MustCompile(`(?m)^debug:\d\d:\d\d:\d\d \S+:\d+: (.*)$`)

func debugMessages(text string) []string {
	var out []string
	for _, m := range reDebugLine.FindAllStringSubmatch(text, -1) {
		out = append(out, m[1])
	}
	return out
}

// leak returns an 8-byte window of some secret that occurs in text ("" if none).
func leak(text string, secrets []string) string {
	grams := make(map[string]struct{}, len(text))
	for i := 0; i+8 <= len(text); i++ {
		grams[text[i:i+8]] = struct{}{}
	}
	for _, s := range secrets {
		for i := 0; i+8 <= len(s); i++ {
			if _, ok := grams[s[i:i+8]]; ok {
				return s[i : i+8]
			}
		}
	}
	return ""
}

var strictCapEnd = os.Getenv("VERIF_C09_STRICT") != "0" // on by default: the two shapes are recorded as known findings (KNOWN_FINDINGS.txt)

func isBarrier(l string) bool { return strings.HasPrefix(l, "PONG vb") }

// barrier sends a PING through the socket and waits until its PONG has been written
// (then every earlier write is on the wire and every earlier queued event was handled)
// or Connect has returned.
func barrier(s *drive.Session, k int) (returned bool, err error, ok bool) {
	tag := fmt.Sprintf("vb%d", k)
	go func() {
		_ = s.Peer.SetWriteDeadline(time.Now().Add(20 * time.Second))
		_, _ = s.Peer.Write([]byte("PING :" + tag + "\r\n"))
	}()
	want := "PONG " + tag + "\r\n"
	deadline := time.Now().Add(30 * time.Second)
	for {
		select {
		case err := <-s.Done:
			return true, err, true
		default:
		}
		ls := s.Lines()
		for i := len(ls) - 1; i >= 0; i-- {
			if ls[i] == want {
				return false, nil, true
			}
		}
		if time.Now().After(deadline) {
			return false, nil, false
		}
		time.Sleep(50 * time.Microsecond)
	}
}

// canonReq sorts the tokens of a CAP REQ line: handleCAP builds the list by ranging over a
// map, so their order is not an observable of the implementation.
func canonReq(l string) string {
	const pfx = "CAP REQ "
	if !strings.HasPrefix(l, pfx) {
		return l
	}
	toks := strings.Split(strings.TrimPrefix(l[len(pfx):], ":"), " ")
	if len(toks) < 2 {
		return l
	}
	sort.Strings(toks)
	return pfx + ":" + strings.Join(toks, " ")
}

func wireLines(ls []string) []string {
	var out []string
	for _, l := range ls {
		if !isBarrier(l) {
			out = append(out, canonReq(strings.TrimSuffix(l, "\r\n")))
		}
	}
	return out
}

// capabilities the client asks for when they are advertised (cap.go possibleCap; sasl is
// added when a mechanism is configured; STS is disabled in these sessions)
var builtinCaps = map[string]bool{
	"account-notify": true, "account-tag": true, "away-notify": true, "batch": true, "cap-notify": true,
	"chghost": true, "extended-join": true, "invite-notify": true, "message-tags": true, "msgid": true,
	"multi-prefix": true, "server-time": true, "userhost-in-names": true,
	"draft/message-tags-0.2": true, "draft/msgid": true,
}

func saslCapName(tok string) string {
	if i := strings.IndexByte(tok, '='); i >= 1 {
		return tok[:i]
	}
	return tok
}

func stepLine(cmd string, params ...string) string {
	return strings.Join(append([]string{cmd}, params...), "\x00")
}

var saslFailNumerics = map[string]bool{"902": true, "904": true, "905": true, "906": true, "908": true}

func runSession(c Case) Result {
	for len(c) < 7 {
		c = append(c, "")
	}
	kind, a1, a2, spass, wpass, ou, op := c[0], c[1], c[2], c[3], c[4], c[5], c[6]
	steps := c[7:]

	cfg := drive.BaseConfig()
	cfg.DisableSTS = true // STS is C10's subject; the model's client has it disabled too
	dbg, out := &lockedBuf{}, &lockedBuf{}
	cfg.Debug, cfg.Out = dbg, out
	var mech girc.SASLMech
	expect := func(params []string) string { return "" } // the mechanism's response, independently
	isPlus := func(params []string) bool { return len(params) == 1 && params[0] == "+" }
	var secrets []string
	switch kind {
	case "P":
		mech = &girc.SASLPlain{User: a1, Pass: a2}
		expect = func(params []string) string {
			if !isPlus(params) {
				return ""
			}
			return refB64(a1 + "\x00" + a1 + "\x00" + a2)
		}
		secrets = append(secrets, a2, refB64(a1+"\x00"+a1+"\x00"+a2), a1+"\x00"+a1+"\x00"+a2)
	case "E":
		mech = &girc.SASLExternal{Identity: a1}
		expect = func(params []string) string { return mech.Encode(params) }
		secrets = append(secrets, a1)
	case "C":
		mech = &fixedMech{a1, a2}
		expect = func(params []string) string { return a2 }
		secrets = append(secrets, a2)
	case "S":
		resps := strings.Split(a2, ",")
		mech = &seqMech{method: a1, resps: resps}
		asked := 0 // the oracle keeps its own count of challenges
		expect = func(params []string) string {
			r := ""
			if asked < len(resps) {
				r = resps[asked]
			}
			asked++
			return r
		}
		secrets = append(secrets, resps...)
	}
	if mech != nil {
		cfg.SASL = mech
	}
	cfg.ServerPass = spass
	if wpass != "" {
		cfg.WebIRC = girc.WebIRC{Password: wpass, Gateway: "gw", Hostname: "host.example", Address: "192.0.2.7"}
	}
	secrets = append(secrets, spass, wpass, op)

	s := drive.Start(cfg)
	var oracle []string
	fail := func(class, format string, a ...interface{}) {
		oracle = append(oracle, class+": "+fmt.Sprintf(format, a...))
	}

	returned, cerr, ok := barrier(s, 0)
	if !ok {
		fail("barrier-timeout", "after registration")
	}
	var all []string
	reg := wireLines(s.Lines())
	all = append(all, reg...)
	obs := "R=" + HexList(reg)

	authStarted := false
	sawSuccess := false
	sig := kind
	// The server's own view of the negotiation, kept from the lines it sent (IRCv3
	// capability negotiation): is sasl acknowledged, and has anything the client supports
	// been advertised since the last ACK (so that a final LS/NEW must be answered by REQ).
	saslOn := false
	pending := map[string]bool{} // requestable names advertised and neither acknowledged, refused nor withdrawn yet
	capMarks := map[string]bool{}
	for i, st := range steps {
		if returned || !ok {
			break
		}
		mark := s.Mark()
		f := strings.Split(st, "\x00")
		if st == "!OPER" {
			s.C.Cmd.Oper(ou, op)
		} else {
			s.C.RunHandlers(&girc.Event{Source: &girc.Source{Name: "srv"}, Command: f[0], Params: f[1:]})
		}
		returned, cerr, ok = barrier(s, i+1)
		if !ok {
			fail("barrier-timeout", "step %d", i)
		}
		lines := wireLines(s.Since(mark))
		all = append(all, lines...)
		obs += ";" + HexList(lines)

		// ---- oracles on this step (model-independent) ----
		capEnd := false
		var auths []string
		for _, l := range lines {
			if l == "CAP END" {
				capEnd = true
			}
			if strings.HasPrefix(l, "AUTHENTICATE ") {
				auths = append(auths, strings.TrimPrefix(l, "AUTHENTICATE "))
			}
		}
		cmd := f[0]
		switch {
		case st == "!OPER":
			if len(lines) != 1 || lines[0] != "OPER "+ou+" "+op {
				fail("oper-line", "Cmd.Oper wrote %q", lines)
			}
		case cmd == "CAP":
			// Which CAP lines may be answered by CAP END while authentication is running
			// (stated exactly in Properties/C09.v C09_cap_end_iff): a NAK; a final LS/NEW
			// after which nothing is left to request; an ACK after which sasl is no longer
			// acknowledged (the server took it away with DEL or "-sasl").  Nothing else.
			excused := false
			sub, last := "", ""
			if len(f) >= 3 {
				sub, last = f[2], f[len(f)-1]
			}
			toks := strings.Split(last, " ")
			switch {
			case len(f) >= 3 && sub == "DEL":
				for _, t := range toks {
					if saslCapName(t) == "sasl" {
						saslOn = false
					}
					delete(pending, saslCapName(t))
				}
			case len(f) >= 3 && sub == "NAK":
				pending = map[string]bool{}
				excused = true
				capMarks["nak"] = true
			case len(f) >= 4 && (sub == "LS" || sub == "NEW"):
				for _, t := range toks {
					if n := saslCapName(t); builtinCaps[n] || (n == "sasl" && mech != nil) {
						pending[n] = true
					}
				}
				if len(f) == 4 {
					excused = len(pending) == 0
					if authStarted {
						capMarks[strings.ToLower(sub)+map[bool]string{true: "-empty", false: "-req"}[excused]] = true
					}
				}
			case len(f) == 4 && sub == "ACK":
				for _, t := range toks {
					if t == "sasl" {
						saslOn = true
					} else if t == "-sasl" {
						saslOn = false
					}
				}
				pending = map[string]bool{}
				excused = !saslOn || mech == nil
				if authStarted {
					capMarks["ack"+map[bool]string{true: "-nosasl", false: ""}[excused]] = true
				}
			}
			// VERIF_C09_STRICT (on by default, "0" switches it off; see notes/proposed-fixes/c09-cap-end-during-auth.md):
			// also report the two excused shapes a server can produce during the exchange.
			if strictCapEnd && capEnd && authStarted && !sawSuccess && saslOn && mech != nil && excused {
				cls := "cap-end-on-nak-during-auth"
				if sub != "NAK" {
					cls = "cap-end-on-empty-ls-during-auth"
				}
				fail(cls, "CAP END written on %q while authentication was in progress", strings.ReplaceAll(st, "\x00", " "))
			}
			if capEnd && authStarted && !sawSuccess && !excused {
				fail("cap-end-without-success", "CAP END written on %q while authentication was in progress (sasl acknowledged, no 903 yet)", strings.ReplaceAll(st, "\x00", " "))
			}
			if mech != nil && len(auths) == 1 && auths[0] == mech.Method() {
				authStarted = true
			}
		case cmd == "AUTHENTICATE" && mech != nil:
			resp := expect(f[1:])
			if resp == "" {
				if authStarted {
					if _, isErr := cerr.(*girc.ErrEvent); !returned || !isErr || capEnd || len(auths) > 0 {
						fail("giveup-not-fatal", "mechanism gave up on %q: returned=%v err=%T lines=%q", f[1:], returned, cerr, lines)
					}
				}
				break
			}
			want := splitEvery(resp, 400)
			if len(resp)%400 == 0 {
				want = append(want, "+")
			}
			if strings.Join(auths, "\n") != strings.Join(want, "\n") {
				var sizes []int
				for _, a := range auths {
					sizes = append(sizes, len(a))
				}
				fail("chunks", "response of %d bytes arrived as AUTHENTICATE chunks of sizes %v (lone '+' expected: %v)", len(resp), sizes, len(resp)%400 == 0)
			}
			sig += "/resp" + lenBucket(len(resp))
		case saslFailNumerics[cmd] && mech != nil && authStarted:
			if _, isErr := cerr.(*girc.ErrEvent); !returned || !isErr {
				fail("failure-not-fatal", "%s after authentication started: Connect returned=%v err=%T", cmd, returned, cerr)
			}
		case cmd == "903":
			sawSuccess = true
		}
		if capEnd && authStarted && cmd != "903" && cmd != "CAP" {
			fail("cap-end-without-success", "CAP END written on %q after authentication started", strings.ReplaceAll(st, "\x00", " "))
		}
		if returned {
			if _, isErr := cerr.(*girc.ErrEvent); !isErr {
				fail("connect-error-type", "Connect returned %T %v", cerr, cerr)
			}
		}
	}

	status := "OPEN"
	if returned {
		s.Peer.Close()
		if ee, isErr := cerr.(*girc.ErrEvent); isErr {
			status = "ERR=" + Hex(ee.Error())
			sig += "/err"
		} else {
			status = fmt.Sprintf("OTHER=%T", cerr)
		}
	} else {
		if err := s.Stop(); err != nil {
			status = fmt.Sprintf("STOP=%v", err)
		}
		if sawSuccess {
			sig += "/success"
		} else {
			sig += "/open"
		}
	}
	if authStarted {
		sig += "/auth"
	}
	if len(capMarks) > 0 {
		var ms []string
		for m := range capMarks {
			ms = append(ms, m)
		}
		sort.Strings(ms)
		sig += "/cap:" + strings.Join(ms, ",")
	}
	obs += ";" + status

	// ---- log hygiene ----
	dtext, otext := dbg.String(), out.String()
	var outgoing []string
	for _, m := range debugMessages(dtext) {
		if strings.HasPrefix(m, ">") && !strings.Contains(m, "PONG vb") {
			if strings.HasPrefix(m, "> ") {
				m = "> " + canonReq(m[2:])
			}
			outgoing = append(outgoing, m)
		}
	}
	flags := ""
	if len(outgoing) != len(all) {
		flags = fmt.Sprintf("COUNT%d/%d", len(outgoing), len(all))
	} else {
		for i := range all {
			if strings.Contains(outgoing[i], all[i]) {
				flags += "P"
			} else {
				flags += "R"
			}
		}
	}
	obs += ";" + flags
	if w := leak(dtext, secrets); w != "" {
		fail("secret-in-debug", "Config.Debug contains %q, part of a credential", w)
	}
	if w := leak(otext, secrets); w != "" {
		fail("secret-in-out", "Config.Out contains %q, part of a credential", w)
	}
	if s.PanicCount() > 0 {
		fail("handler-panic", "%d handler panics", s.PanicCount())
	}
	return Result{Obs: obs, Oracle: strings.Join(oracle, " | "), Sig: sig}
}

const safeSecretAlphabet = "ABCDEFGHJKLMNPQRSTUVWXYZabcdefghijkmnopqrstuvwxyz23456789_-.!"

func randSecret(r *rand.Rand) string { return RandBytes(r, 12+r.Intn(13), safeSecretAlphabet) }

var numericTexts = map[string]string{
	"900": "You are now logged in as acct", "901": "You are now logged out", "902": "You must use a nick assigned to you",
	"903": "SASL authentication successful", "904": "SASL authentication failed", "905": "SASL message too long",
	"906": "SASL authentication aborted", "907": "You have already authenticated using SASL", "908": "are available SASL mechanisms",
}

func numericStep(n string) string {
	if n == "908" {
		return stepLine(n, "me", "PLAIN,EXTERNAL", numericTexts[n])
	}
	if n == "900" {
		return stepLine(n, "me", "me!user@host", "acct", numericTexts[n])
	}
	return stepLine(n, "me", numericTexts[n])
}

func genSessionCase(r *rand.Rand) Case {
	var kind, a1, a2 string
	extraChallenges := 0
	switch x := r.Intn(100); {
	case x < 40:
		kind = "P"
		a1, a2 = plainCreds(r, plainTargets[r.Intn(len(plainTargets))])
		if r.Intn(4) == 0 {
			a1, a2 = plainCreds(r, 4*(1+r.Intn(600)))
		}
	case x < 55:
		kind = "E"
		if r.Intn(3) > 0 {
			n := saslTargets[1+r.Intn(len(saslTargets)-1)]
			if r.Intn(3) == 0 {
				n = 1 + r.Intn(1300)
			}
			a1 = RandBytes(r, n, b64Alphabet)
		}
	case x < 78:
		kind = "C"
		a1 = Pick(r, "XMECH", "SCRAM-SHA-256", "ANONYMOUS", "ECDSA-NIST256P-CHALLENGE")
		n := saslTargets[r.Intn(len(saslTargets))]
		if r.Intn(3) == 0 {
			n = r.Intn(2500)
		}
		a2 = RandBytes(r, n, b64Alphabet)
	case x < 92:
		kind = "S"
		a1 = Pick(r, "SCRAM-SHA-256", "XSTATEFUL", "ECDSA-NIST256P-CHALLENGE")
		var rs []string
		for i, k := 0, 1+r.Intn(3); i < k; i++ {
			n := saslTargets[1+r.Intn(len(saslTargets)-1)]
			switch r.Intn(6) {
			case 0:
				n = 1 + r.Intn(900)
			case 1:
				if i > 0 {
					n = 0 // gives up in the middle of the exchange
				}
			}
			rs = append(rs, RandBytes(r, n, b64Alphabet))
		}
		a2 = strings.Join(rs, ",")
		extraChallenges = r.Intn(4)
	default:
		kind = "N"
	}
	spass, wpass := "", ""
	if r.Intn(2) == 0 {
		spass = randSecret(r)
	}
	if r.Intn(3) == 0 {
		wpass = randSecret(r)
	}
	c := Case{kind, a1, a2, spass, wpass, "operuser", randSecret(r)}

	var steps []string
	challenge := func() string {
		switch r.Intn(12) {
		case 0:
			return stepLine("AUTHENTICATE", "YWJjZA==")
		case 1:
			return stepLine("AUTHENTICATE")
		case 2:
			return stepLine("AUTHENTICATE", "+", "+")
		default:
			return stepLine("AUTHENTICATE", "+")
		}
	}
	alphabet := func() string {
		if r.Intn(3) == 0 {
			return challenge()
		}
		return numericStep(fmt.Sprintf("90%d", r.Intn(9)))
	}
	// CAP lines a server may send while the SASL exchange is running: capabilities
	// acknowledged on separate lines, cap-notify NEW/DEL, a repeated LS, a NAK.
	capDuringAuth := func() []string {
		switch x := r.Intn(20); {
		case x < 6:
			return []string{stepLine("CAP", "*", "ACK", Pick(r, "multi-prefix", "away-notify", "multi-prefix away-notify", "server-time", "foo"))}
		case x < 8:
			return []string{stepLine("CAP", "*", "ACK", Pick(r, "sasl", "sasl multi-prefix", "multi-prefix sasl"))}
		case x < 11:
			n := Pick(r, "away-notify", "batch", "chghost foo", "sasl")
			return []string{stepLine("CAP", "*", "NEW", n), stepLine("CAP", "*", "ACK", n)}
		case x < 13:
			return []string{stepLine("CAP", "*", "NEW", Pick(r, "foo", "unknown-cap=1", ""))}
		case x < 15:
			return []string{stepLine("CAP", "*", "LS", "*", Pick(r, "multi-prefix", "foo", "batch=x")), stepLine("CAP", "*", "LS", Pick(r, "foo", "server-time", ""))}
		case x < 16:
			return []string{stepLine("CAP", "*", "DEL", Pick(r, "multi-prefix", "foo", "away-notify"))}
		case x < 17:
			return []string{stepLine("CAP", "*", "NAK", Pick(r, "sasl", "foo"))}
		case x < 18:
			return []string{stepLine("CAP", "*", "ACK", Pick(r, "-sasl", "multi-prefix -sasl", "-sasl sasl", "-multi-prefix"))}
		case x < 19:
			return []string{stepLine("CAP", "*", "DEL", Pick(r, "sasl", "sasl multi-prefix")), stepLine("CAP", "*", "ACK", "multi-prefix")}
		default:
			return []string{stepLine("CAP", "*", Pick(r, "LIST", "ACK", "NEW", "LS")), stepLine("CAP", "*", "ACK", "*", "multi-prefix")}
		}
	}
	if r.Intn(6) > 0 {
		steps = append(steps, stepLine("CAP", "*", "LS", Pick(r, "sasl", "sasl", "sasl", "sasl=PLAIN,EXTERNAL", "foo sasl", "foo", "",
			"sasl multi-prefix", "multi-prefix sasl away-notify", "cap-notify sasl=PLAIN server-time")))
		if r.Intn(12) == 0 {
			steps = append(steps, stepLine("CAP", "*", "NAK", "sasl"))
		}
		steps = append(steps, stepLine("CAP", "*", "ACK", Pick(r, "sasl", "sasl", "sasl", "sasl", "foo sasl", "foo", "sasl=PLAIN", "sasl multi-prefix")))
		during := r.Intn(2) == 0
		if during && r.Intn(2) == 0 {
			steps = append(steps, capDuringAuth()...)
		}
		if r.Intn(8) > 0 {
			steps = append(steps, challenge())
		}
		if during {
			for i, n := 0, 1+r.Intn(2); i < n; i++ {
				steps = append(steps, capDuringAuth()...)
				if r.Intn(3) == 0 {
					steps = append(steps, challenge())
				}
			}
		}
		for i := 0; i < extraChallenges; i++ {
			steps = append(steps, stepLine("AUTHENTICATE", RandBytes(r, 4*(1+r.Intn(6)), b64Alphabet)))
		}
	}
	for i, n := 0, r.Intn(4); i < n; i++ {
		steps = append(steps, alphabet())
	}
	if r.Intn(3) > 0 {
		steps = append(steps, numericStep(Pick(r, "903", "903", "903", "904", "902", "905", "906", "908", "907", "900")))
	}
	if r.Intn(20) == 0 {
		steps = append(steps, stepLine("CAP", "*", "NAK", "sasl"))
	}
	if r.Intn(3) == 0 {
		at := r.Intn(len(steps) + 1)
		steps = append(steps[:at], append([]string{"!OPER"}, steps[at:]...)...)
	}
	return append(c, steps...)
}

func fixedSessionCases() []Case {
	r := rand.New(rand.NewSource(909))
	var out []Case
	ls, ack, plus := stepLine("CAP", "*", "LS", "sasl"), stepLine("CAP", "*", "ACK", "sasl"), stepLine("AUTHENTICATE", "+")
	for _, n := range saslTargets {
		out = append(out, Case{"C", "XMECH", RandBytes(r, n, b64Alphabet), randSecret(r), "", "operuser", randSecret(r), ls, ack, plus, numericStep("903"), "!OPER"})
		if n > 0 {
			out = append(out, Case{"E", RandBytes(r, n, b64Alphabet), "", "", randSecret(r), "operuser", randSecret(r), ls, ack, plus, numericStep("903")})
		}
	}
	for _, n := range plainTargets {
		u, p := plainCreds(r, n)
		out = append(out, Case{"P", u, p, randSecret(r), randSecret(r), "operuser", randSecret(r), ls, ack, plus, numericStep("900"), numericStep("903")})
	}
	for d := 0; d <= 8; d++ {
		u, p := plainCreds(r, 64)
		out = append(out, Case{"P", u, p, "", "", "operuser", randSecret(r), ls, ack, plus, numericStep(fmt.Sprintf("90%d", d)), numericStep("903")})
		out = append(out, Case{"N", "", "", "", "", "operuser", randSecret(r), ls, ack, plus, numericStep(fmt.Sprintf("90%d", d))})
	}
	out = append(out, Case{"E", "", "", "", "", "operuser", randSecret(r), ls, ack, plus, numericStep("903")})
	// CAP lines while the exchange is running.  Every one of these must leave CAP END
	// unsent until 903 ...
	capStep := func(p ...string) string { return stepLine("CAP", append([]string{"*"}, p...)...) }
	lsMulti, ackSasl := capStep("LS", "sasl multi-prefix away-notify"), capStep("ACK", "sasl")
	for _, mid := range [][]string{
		{capStep("ACK", "multi-prefix")}, // capabilities acknowledged on separate lines
		{capStep("ACK", "multi-prefix"), capStep("ACK", "away-notify")},
		{capStep("NEW", "away-notify"), capStep("ACK", "away-notify")}, // cap-notify during the exchange
		{capStep("ACK", "sasl")},
		{capStep("LS", "*", "batch"), capStep("LS", "server-time")},
		{capStep("DEL", "multi-prefix"), capStep("ACK", "batch")},
		{capStep("LIST"), capStep("ACK", "*", "foo")},
	} {
		u, p := plainCreds(r, 64)
		for _, fin := range []string{"903", "904"} {
			st := append([]string{lsMulti, ackSasl}, mid...)
			st = append(st, plus)
			st = append(st, mid...)
			st = append(st, numericStep(fin))
			out = append(out, append(Case{"P", u, p, "", "", "operuser", randSecret(r)}, st...))
		}
		out = append(out, append(Case{"C", "XMECH", RandBytes(r, 400, b64Alphabet), "", "", "operuser", randSecret(r)}, append(append([]string{ls, ack, plus}, mid...), numericStep("903"))...))
	}
	// ... and these are the lines that do elicit it on the current code (C09_cap_end_iff)
	for _, mid := range [][]string{
		{capStep("NAK", "foo")},
		{capStep("NEW", "unknown-cap")},
		{capStep("LS", "")},
		{capStep("ACK", "-sasl")},
		{capStep("DEL", "sasl"), capStep("ACK", "multi-prefix")},
	} {
		u, p := plainCreds(r, 64)
		out = append(out, append(Case{"P", u, p, "", "", "operuser", randSecret(r)}, append(append([]string{lsMulti, ackSasl, plus}, mid...), numericStep("904"))...))
	}
	// stateful mechanisms: several rounds, boundary lengths in any round, giving up late
	ch := stepLine("AUTHENTICATE", "Y2hhbGxlbmdl")
	rb := func(n int) string { return RandBytes(r, n, b64Alphabet) }
	out = append(out,
		Case{"S", "SCRAM-SHA-256", rb(60) + "," + rb(88) + "," + "+", randSecret(r), "", "operuser", randSecret(r), ls, ack, plus, ch, ch, numericStep("903")},
		Case{"S", "XSTATEFUL", rb(400) + "," + rb(401), "", "", "operuser", randSecret(r), ls, ack, plus, ch, numericStep("900"), numericStep("903")},
		Case{"S", "XSTATEFUL", rb(16) + "," + rb(800), "", "", "operuser", randSecret(r), ls, ack, plus, ch, ch, numericStep("903")},
		Case{"S", "XSTATEFUL", rb(16) + ",," + rb(16), "", "", "operuser", randSecret(r), ls, ack, plus, ch, ch, numericStep("903")},
		Case{"S", "XSTATEFUL", rb(399), "", "", "operuser", randSecret(r), ls, ack, plus, numericStep("904"), ch})
	return out
}

// ---- scripted connections: sasl.fault, sasl.reconnect ---------------------------

// faultConn is the client's end of the pipe.  The occ-th write (counted from 0) that
// begins with prefix fails with errText, and so does every write after it: a link that
// breaks in the sending direction at exactly that line.  Reads keep working.
type faultConn struct {
	net.Conn
	mu      sync.Mutex
	prefix  string
	occ     int
	errText string
	seen    int
	failed  bool
	armed   bool
}

func (f *faultConn) Write(b []byte) (int, error) {
	f.mu.Lock()
	if f.armed && !f.failed && strings.HasPrefix(string(b), f.prefix) {
		if f.seen == f.occ {
			f.failed = true
		}
		f.seen++
	}
	failed := f.failed
	f.mu.Unlock()
	if failed {
		return 0, fmt.Errorf("%s", f.errText)
	}
	return f.Conn.Write(b)
}

// scriptedConnect runs one connection of cl against a server that advertises and
// acknowledges sasl, invites the response with "AUTHENTICATE +", answers the complete
// response with the numeric final ("903"/"904"), and, when the client has sent CAP END,
// lets the harness call Cmd.Oper (oper != nil) before closing.  It returns the lines the
// client wrote, Connect's result, and whether everything finished in time.
func scriptedConnect(cl *girc.Client, method, final, caps string, oper func(), wrap func(net.Conn) net.Conn) ([]string, error, bool) {
	in, out := net.Pipe()
	var conn net.Conn = out
	if wrap != nil {
		conn = wrap(out)
	}
	done := make(chan error, 1)
	go func() { done <- cl.MockConnect(conn) }()
	var mu sync.Mutex
	var lines []string
	capEnd, operSeen := make(chan struct{}, 1), make(chan struct{}, 1)
	send := func(l string) {
		_ = in.SetWriteDeadline(time.Now().Add(20 * time.Second))
		_, _ = in.Write([]byte(l + "\r\n"))
	}
	go func() {
		r := bufio.NewReader(in)
		for {
			l, err := r.ReadString('\n')
			if l != "" {
				l = strings.TrimSuffix(l, "\r\n")
				mu.Lock()
				lines = append(lines, l)
				mu.Unlock()
				switch {
				case strings.HasPrefix(l, "USER "):
					send(":srv CAP * LS :" + caps)
				case strings.HasPrefix(l, "CAP REQ"):
					send(":srv CAP * ACK :" + caps)
				case l == "AUTHENTICATE "+method:
					send("AUTHENTICATE +")
				case strings.HasPrefix(l, "AUTHENTICATE "):
					if len(l)-len("AUTHENTICATE ") < 400 {
						send(":srv " + final + " me :" + numericTexts[final])
					}
				case l == "CAP END":
					capEnd <- struct{}{}
				case strings.HasPrefix(l, "OPER ") || strings.Contains(l, " OPER "):
					operSeen <- struct{}{}
				}
			}
			if err != nil {
				return
			}
		}
	}()
	snapshot := func() []string {
		mu.Lock()
		defer mu.Unlock()
		return append([]string{}, lines...)
	}
	timeout := time.After(30 * time.Second)
	finish := func(err error) ([]string, error, bool) {
		in.Close()
		return snapshot(), err, true
	}
	select {
	case err := <-done:
		return finish(err)
	case <-capEnd:
	case <-timeout:
		in.Close()
		return snapshot(), nil, false
	}
	if oper != nil {
		oper()
		select {
		case err := <-done:
			return finish(err)
		case <-operSeen:
		case <-timeout:
			in.Close()
			return snapshot(), nil, false
		}
	}
	cl.Close()
	select {
	case err := <-done:
		return finish(err)
	case <-timeout:
		in.Close()
		return snapshot(), nil, false
	}
}

func sessionMech(kind, a1, a2 string) (girc.SASLMech, []string) {
	switch kind {
	case "P":
		return &girc.SASLPlain{User: a1, Pass: a2}, []string{a2, refB64(a1 + "\x00" + a1 + "\x00" + a2), a1 + "\x00" + a1 + "\x00" + a2}
	case "E":
		return &girc.SASLExternal{Identity: a1}, []string{a1}
	default:
		return &fixedMech{a1, a2}, []string{a2}
	}
}

func errClass(err error) string {
	switch err.(type) {
	case nil:
		return "nil"
	case *girc.ErrEvent:
		return "errevent"
	default:
		return "other"
	}
}

const cleanupPrefix = "received error, beginning cleanup: "

// runFault: one connection in which the write of one chosen line fails.
// Case: kind a1 a2 serverpass webircpass operuser operpass prefix occurrence errtext.
func runFault(c Case) Result {
	for len(c) < 11 {
		c = append(c, "")
	}
	kind, a1, a2, spass, wpass, ou, op, prefix, errText := c[0], c[1], c[2], c[3], c[4], c[5], c[6], c[7], c[9]
	// c[10]: "" = Cmd.Oper; "t" / "T" = the application sends the OPER line itself as a
	// Sensitive event that carries a message tag, through Client.Send, on a connection
	// where message-tags is not ("t") / is ("T") acknowledged (sendLoop strips the tags in
	// the first case: the event it logs and writes must still be the Sensitive one)
	tagMode := c[10]
	caps := "sasl"
	if tagMode == "T" {
		caps = "sasl message-tags"
	}
	sendOper := func(cl *girc.Client) {
		if tagMode == "" {
			cl.Cmd.Oper(ou, op)
			return
		}
		cl.Send(&girc.Event{Command: girc.OPER, Params: []string{ou, op}, Sensitive: true, Tags: girc.Tags{"label": "x1"}})
	}
	occ := 0
	fmt.Sscanf(c[8], "%d", &occ)
	cfg := drive.BaseConfig()
	cfg.DisableSTS = true
	dbg, out := &lockedBuf{}, &lockedBuf{}
	cfg.Debug, cfg.Out = dbg, out
	mech, secrets := sessionMech(kind, a1, a2)
	cfg.SASL = mech
	cfg.ServerPass = spass
	if wpass != "" {
		cfg.WebIRC = girc.WebIRC{Password: wpass, Gateway: "gw", Hostname: "host.example", Address: "192.0.2.7"}
	}
	secrets = append(secrets, spass, wpass, op)
	cl := girc.New(cfg)
	fc := &faultConn{prefix: prefix, occ: occ, errText: errText, armed: prefix != ""}
	lines, err, ok := scriptedConnect(cl, mech.Method(), "903", caps, func() { sendOper(cl) }, func(n net.Conn) net.Conn { fc.Conn = n; return fc })
	res := Result{Sig: kind + "/" + strings.TrimSpace(prefix) + c[8] + tagMode}
	if tagMode != "" && ok && (prefix == "" || prefix == "OPER " || prefix == "@label") {
		// the tag section is on the wire exactly when message-tags was acknowledged
		tagged := false
		for _, l := range lines {
			if strings.HasPrefix(l, "@label=x1 OPER ") {
				tagged = true
			}
		}
		if prefix == "" && tagged != (tagMode == "T") {
			return Result{Obs: "E-;C-", Sig: res.Sig, Oracle: fmt.Sprintf("harness-tag-section: tag section on the wire = %v with message-tags acknowledged = %v (lines %q)", tagged, tagMode == "T", lines)}
		}
	}
	var oracle []string
	if !ok {
		oracle = append(oracle, "harness-timeout: the scripted connection did not finish")
	}
	fc.mu.Lock()
	fired := fc.failed
	fc.mu.Unlock()
	if prefix != "" && !fired {
		oracle = append(oracle, fmt.Sprintf("harness-fault-not-reached: no %d-th line starting with %q was written (lines %q)", occ, prefix, lines))
	}
	dtext, otext := dbg.String(), out.String()
	cleanup := "-"
	for _, m := range debugMessages(dtext) {
		if strings.HasPrefix(m, cleanupPrefix) {
			cleanup = "=" + B(strings.Contains(m, errText))
			break
		}
	}
	etext := "-"
	if err != nil {
		etext = "=" + B(strings.Contains(err.Error(), errText))
	}
	// projected: is the I/O error still named by Connect's result and by the cleanup line
	// (wrapping it is fine; what it may be wrapped WITH is the oracle's business)
	res.Obs = "E" + etext + ";C" + cleanup
	if w := leak(dtext, secrets); w != "" {
		oracle = append(oracle, fmt.Sprintf("secret-in-debug: Config.Debug contains %q, part of a credential, after the write of line %q #%d failed", w, prefix, occ))
	}
	if w := leak(otext, secrets); w != "" {
		oracle = append(oracle, fmt.Sprintf("secret-in-out: Config.Out contains %q, part of a credential, after the write of line %q #%d failed", w, prefix, occ))
	}
	if err != nil {
		if w := leak(err.Error(), secrets); w != "" {
			oracle = append(oracle, fmt.Sprintf("secret-in-error: the error returned by Connect contains %q, part of a credential, after the write of line %q #%d failed", w, prefix, occ))
		}
	}
	res.Oracle = strings.Join(oracle, " | ")
	return res
}

// payloadLines: the AUTHENTICATE lines after the one naming the mechanism
func payloadLines(lines []string, method string) []string {
	var out []string
	for _, l := range lines {
		if strings.HasPrefix(l, "AUTHENTICATE ") && l != "AUTHENTICATE "+method {
			out = append(out, strings.TrimPrefix(l, "AUTHENTICATE "))
		}
	}
	return out
}

// runReconnect: two consecutive connections of one client that share one *SASLPlain; the
// application corrects the credential in between.  Case: user1 pass1 user2 pass2.
func runReconnect(c Case) Result {
	for len(c) < 4 {
		c = append(c, "")
	}
	cfg := drive.BaseConfig()
	cfg.DisableSTS = true
	creds := &girc.SASLPlain{User: c[0], Pass: c[1]}
	cfg.SASL = creds
	cl := girc.New(cfg)
	var oracle []string
	l1, e1, ok1 := scriptedConnect(cl, "PLAIN", "904", "sasl", nil, nil)
	creds.User, creds.Pass = c[2], c[3]
	l2, e2, ok2 := scriptedConnect(cl, "PLAIN", "903", "sasl", nil, nil)
	if !ok1 || !ok2 {
		oracle = append(oracle, "harness-timeout: a scripted connection did not finish")
	}
	p1, p2 := payloadLines(l1, "PLAIN"), payloadLines(l2, "PLAIN")
	check := func(n int, got []string, u, p string) {
		want := splitEvery(refB64(u+"\x00"+u+"\x00"+p), 400)
		if len(want[len(want)-1]) == 400 {
			want = append(want, "+")
		}
		if strings.Join(got, "\n") != strings.Join(want, "\n") {
			oracle = append(oracle, fmt.Sprintf("plain-response-stale: connection %d did not deliver base64(user NUL user NUL password) of the credential configured at that time (user %x pass %x)", n, u, p))
		}
	}
	check(1, p1, c[0], c[1])
	check(2, p2, c[2], c[3])
	if errClass(e1) != "errevent" {
		oracle = append(oracle, fmt.Sprintf("failure-not-fatal: 904 on the first connection: Connect returned %T", e1))
	}
	return Result{Obs: "A=" + HexList(p1) + ";" + errClass(e1) + ";B=" + HexList(p2) + ";" + errClass(e2),
		Oracle: strings.Join(oracle, " | "), Sig: "resp" + lenBucket(len(strings.Join(p1, ""))) + "/resp" + lenBucket(len(strings.Join(p2, "")))}
}

// ---- sasl.log ---------------------------------------------------------------

// text without IRC format codes (StripRaw is the identity on it)
func logSafeBytes(r *rand.Rand, n int) string {
	b := make([]byte, n)
	for i := range b {
		for {
			b[i] = byte(r.Intn(256))
			switch b[i] {
			case 0x01, 0x02, 0x03, 0x0f, 0x16, 0x1d, 0x1f:
				continue
			}
			break
		}
	}
	return string(b)
}

func runLog(c Case) Result {
	for len(c) < 3 {
		c = append(c, "")
	}
	dir, flags, cmd, params := c[0], c[1], c[2], append([]string{}, c[3:]...)
	cfg := drive.BaseConfig()
	dbg, out := &lockedBuf{}, &lockedBuf{}
	cfg.Debug, cfg.Out = dbg, out
	cl := girc.New(cfg)
	e := &girc.Event{Command: cmd, Params: params, Sensitive: strings.Contains(flags, "s"), Echo: strings.Contains(flags, "e")}
	wire := e.String()
	before := len(dbg.String())
	if strings.Contains(dir, "i") {
		cl.RunHandlers(e)
	} else {
		cl.Send(e) // never connected: write drops the event and logs it
	}
	added := strings.Join(debugMessages(dbg.String()[before:]), "\n")
	otext := out.String()
	res := Result{Sig: dir + flags}
	res.Obs = Hex(wire) + "," + B(strings.Contains(added, wire)) + B(strings.Contains(added, cmd)) + "," + Hex(otext)
	if e.Sensitive && !strings.Contains(dir, "i") {
		var long []string
		for _, p := range params {
			long = append(long, p)
		}
		if w := leak(dbg.String()[before:], long); w != "" {
			res.Oracle = "secret-in-debug: a Sensitive event's parameter text " + fmt.Sprintf("%q", w) + " was logged by the send path"
		}
	}
	if e.Sensitive {
		if w := leak(otext, params); w != "" {
			res.Oracle = "secret-in-out: a Sensitive event's parameter text " + fmt.Sprintf("%q", w) + " was written to Config.Out"
		}
	}
	return res
}

func init() {
	Register(&Suite{
		Name: "sasl.b64enc",
		Prop: []string{"C09"},
		Fixed: func() []Case {
			out := []Case{{""}, {"f"}, {"fo"}, {"foo"}, {"foob"}, {"fooba"}, {"foobar"}}
			for b := 0; b < 256; b++ { // every byte value at each of the three positions of a group
				out = append(out, Case{string([]byte{byte(b)})}, Case{string([]byte{0x5a, byte(b)})}, Case{string([]byte{0xa5, 0x3c, byte(b)})})
			}
			return out
		},
		Exhaustive: "every byte value at each of the three positions of a group",
		Gen: func(r *rand.Rand) Case {
			n := r.Intn(48)
			if r.Intn(10) == 0 {
				n = r.Intn(1000)
			}
			return Case{RandBytes(r, n, "")}
		},
		Run: func(c Case) Result {
			got := base64.StdEncoding.EncodeToString([]byte(c[0]))
			res := Result{Obs: Hex(got), Sig: fmt.Sprint("mod3=", len(c[0])%3)}
			if got != refB64(c[0]) {
				res.Oracle = "base64-reference: encoding/base64 and the reference encoder disagree"
			}
			return res
		},
	})
	Register(&Suite{
		Name: "sasl.b64dec",
		Prop: []string{"C09"},
		Fixed: func() []Case {
			return []Case{{""}, {"Zg=="}, {"Zm8="}, {"Zm9v"}, {"QR=="}, {"QQ="}, {"QQ"}, {"Q==="}, {"===="}, {"QQ=A"}, {"QQ==QQ=="}, {"QQQ=QQQQ"}, {"QQQQQQ=="}, {"QQ Q"}, {"Zm9v\x00"}, {"Zm9vY=E="}}
		},
		Gen: func(r *rand.Rand) Case {
			s := []byte(base64.StdEncoding.EncodeToString([]byte(RandBytes(r, r.Intn(40), ""))))
			switch r.Intn(6) {
			case 0:
				if len(s) > 0 {
					s[r.Intn(len(s))] = Pick(r, "=", "-", "_", " ", "\x00", "A", "z", "/", "+", "\xff")[0]
				}
			case 1:
				if len(s) > 0 {
					s = s[:r.Intn(len(s))]
				}
			case 2:
				s = []byte(RandBytes(r, 4*r.Intn(6), b64Alphabet+"=="))
			case 3:
				s = []byte(RandBytes(r, r.Intn(24), b64Alphabet+"=*"))
			}
			return Case{string(s)}
		},
		Run: func(c Case) Result {
			dec, err := base64.StdEncoding.DecodeString(c[0])
			if err != nil {
				return Result{Obs: "-", Sig: "invalid"}
			}
			d := string(dec)
			return Result{Obs: OptHex(&d), Sig: fmt.Sprint("valid/mod3=", len(d)%3)}
		},
	})
	paramVariants := func(r *rand.Rand) []string {
		switch r.Intn(10) {
		case 0:
			return nil
		case 1:
			return []string{""}
		case 2:
			return []string{"+", "+"}
		case 3:
			return []string{Pick(r, "x", "++", " +", "+ ", "=", "YWJj")}
		default:
			return []string{"+"}
		}
	}
	Register(&Suite{
		Name: "sasl.plain",
		Prop: []string{"C09"},
		Fixed: func() []Case {
			r := rand.New(rand.NewSource(910))
			out := []Case{{"", "", "+"}, {"u", "p", "+"}, {"u", "p"}, {"u", "p", ""}, {"u", "p", "+", "+"}, {"\x00", "\x00\x00", "+"}, {"\xff\xfe", "\x80", "+"}}
			for _, n := range plainTargets {
				for k := 0; k < 3; k++ {
					u, p := plainCreds(r, n)
					out = append(out, Case{u, p, "+"})
				}
			}
			return out
		},
		Gen: func(r *rand.Rand) Case {
			n := plainTargets[r.Intn(len(plainTargets))]
			if r.Intn(2) == 0 {
				n = 4 * (1 + r.Intn(40))
			}
			u, p := plainCreds(r, n)
			return append(Case{u, p}, paramVariants(r)...)
		},
		Run: func(c Case) Result {
			for len(c) < 2 {
				c = append(c, "")
			}
			params := append([]string{}, c[2:]...)
			got := (&girc.SASLPlain{User: c[0], Pass: c[1]}).Encode(params)
			res := Result{Obs: Hex(got), Sig: "resp" + lenBucket(len(got))}
			if len(params) == 1 && params[0] == "+" {
				want := c[0] + "\x00" + c[0] + "\x00" + c[1]
				dec, err := base64.StdEncoding.Strict().DecodeString(got)
				if got != refB64(want) || err != nil || string(dec) != want {
					res.Oracle = fmt.Sprintf("plain-response: Encode is not base64(user NUL user NUL pass) for user %x pass %x", c[0], c[1])
				}
			} else {
				res.Sig = "declined"
			}
			return res
		},
	})
	Register(&Suite{
		Name: "sasl.external",
		Prop: []string{"C09"},
		Fixed: func() []Case {
			return []Case{{"", "+"}, {"id", "+"}, {"id"}, {"", ""}, {"id", "+", "+"}, {"id", "x"}}
		},
		Gen: func(r *rand.Rand) Case {
			id := ""
			if r.Intn(3) > 0 {
				id = RandBytes(r, 1+r.Intn(40), "")
			}
			return append(Case{id}, paramVariants(r)...)
		},
		Run: func(c Case) Result {
			params := append([]string{}, c[1:]...)
			got := (&girc.SASLExternal{Identity: c[0]}).Encode(params)
			sig := "declined"
			if got == "+" {
				sig = "plus"
			} else if got != "" {
				sig = "identity"
			}
			return Result{Obs: Hex(got), Sig: sig}
		},
	})
	Register(&Suite{
		Name:  "sasl.session",
		Prop:  []string{"C09"},
		Fixed: fixedSessionCases,
		Gen:   genSessionCase,
		Run:   runSession,
	})
	Register(&Suite{
		Name: "sasl.plainseq",
		Prop: []string{"C09"},
		Fixed: func() []Case {
			return []Case{
				{"alice", "one", "+", "alice", "two", "+", "bob", "two", "+"},
				{"u", "p", "x", "u", "p", "+", "u", "q", "+"},
				{"u", "p", "+", "", "", "+", "u", "p", "+"},
				{"acct", "mistyped-password", "+", "acct", "correct-password", "+"},
			}
		},
		Gen: func(r *rand.Rand) Case {
			var c Case
			u, p := plainCreds(r, 4*(1+r.Intn(30)))
			for i, n := 0, 2+r.Intn(4); i < n; i++ {
				switch r.Intn(4) {
				case 0:
					p = RandBytes(r, r.Intn(24), "")
				case 1:
					u = RandBytes(r, r.Intn(12), "")
				case 2:
					u, p = plainCreds(r, plainTargets[r.Intn(6)])
				}
				c = append(c, u, p, Pick(r, "+", "+", "+", "+", "x", ""))
			}
			return c
		},
		Run: func(c Case) Result {
			m := &girc.SASLPlain{}
			var got []string
			res := Result{Sig: fmt.Sprint("steps", len(c)/3)}
			for i := 0; i+2 < len(c); i += 3 {
				m.User, m.Pass = c[i], c[i+1]
				r := m.Encode([]string{c[i+2]})
				got = append(got, r)
				want := ""
				if c[i+2] == "+" {
					want = refB64(c[i] + "\x00" + c[i] + "\x00" + c[i+1])
				}
				if r != want && res.Oracle == "" {
					res.Oracle = fmt.Sprintf("plain-response-stale: Encode call %d on one SASLPlain value is not base64(user NUL user NUL password) of its CURRENT fields (user %x pass %x)", i/3+1, c[i], c[i+1])
				}
			}
			res.Obs = HexList(got)
			return res
		},
	})
	Register(&Suite{
		Name: "sasl.reconnect",
		Prop: []string{"C09"},
		Fixed: func() []Case {
			r := rand.New(rand.NewSource(911))
			out := []Case{{"acct", "mistyped-password", "acct", "correct-password"}, {"alice", "pw", "bob", "pw"}}
			for _, n := range []int{396, 400, 404, 800} {
				u, p := plainCreds(r, n)
				u2, p2 := plainCreds(r, 64)
				out = append(out, Case{u, p, u2, p2}, Case{u2, p2, u, p})
			}
			return out
		},
		Gen: func(r *rand.Rand) Case {
			u, p := plainCreds(r, 4*(1+r.Intn(40)))
			u2, p2 := u, RandBytes(r, 1+r.Intn(24), "")
			if r.Intn(3) == 0 {
				u2, p2 = plainCreds(r, plainTargets[r.Intn(8)])
			}
			return Case{u, p, u2, p2}
		},
		Run: runReconnect,
	})
	Register(&Suite{
		Name: "sasl.fault",
		Prop: []string{"C09"},
		Fixed: func() []Case {
			r := rand.New(rand.NewSource(912))
			var out []Case
			for _, n := range []int{64, 804} {
				u, p := plainCreds(r, n)
				base := Case{"P", u, p, randSecret(r), randSecret(r), "operuser", randSecret(r)}
				targets := [][2]string{{"PASS ", "0"}, {"WEBIRC ", "0"}, {"AUTHENTICATE ", "0"}, {"AUTHENTICATE ", "1"}, {"OPER ", "0"}, {"NICK ", "0"}, {"CAP END", "0"}, {"", "0"}}
				if n > 800 {
					targets = append(targets, [2]string{"AUTHENTICATE ", "2"}, [2]string{"AUTHENTICATE ", "3"})
				}
				for _, t := range targets {
					out = append(out, append(append(Case{}, base...), t[0], t[1], "write: broken pipe"))
				}
			}
			for _, tm := range []string{"t", "T"} {
				u, p := plainCreds(r, 64)
				out = append(out, Case{"P", u, p, "", "", "operuser", randSecret(r), "", "0", "write: broken pipe", tm})
			}
			{
				u, p := plainCreds(r, 64)
				out = append(out, Case{"P", u, p, "", "", "operuser", randSecret(r), "OPER ", "0", "write: broken pipe", "t"},
					Case{"P", u, p, "", "", "operuser", randSecret(r), "@label", "0", "write: broken pipe", "T"})
			}
			out = append(out, Case{"C", "XMECH", RandBytes(r, 400, b64Alphabet), "", "", "operuser", randSecret(r), "AUTHENTICATE ", "2", "injected write fault"},
				Case{"E", RandBytes(r, 40, b64Alphabet), "", "", "", "operuser", randSecret(r), "AUTHENTICATE ", "1", "injected write fault"})
			return out
		},
		Gen: func(r *rand.Rand) Case {
			var kind, a1, a2, resp string
			switch r.Intn(4) {
			case 0:
				kind, a1, a2 = "C", "XMECH", RandBytes(r, saslTargets[1+r.Intn(len(saslTargets)-1)], b64Alphabet)
				resp = a2
			case 1:
				kind, a1 = "E", RandBytes(r, 8+r.Intn(60), b64Alphabet)
				resp = a1
			default:
				kind = "P"
				a1, a2 = plainCreds(r, plainTargets[r.Intn(len(plainTargets)-2)])
				resp = refB64(a1 + "\x00" + a1 + "\x00" + a2)
			}
			nPayload := len(splitEvery(resp, 400))
			if len(resp)%400 == 0 {
				nPayload++
			}
			spass, wpass := "", ""
			if r.Intn(3) > 0 {
				spass = randSecret(r)
			}
			if r.Intn(2) == 0 {
				wpass = randSecret(r)
			}
			type tg struct {
				p string
				o int
			}
			ts := []tg{{"OPER ", 0}, {"OPER ", 0}, {"NICK ", 0}, {"USER ", 0}, {"CAP REQ", 0}, {"CAP END", 0}, {"CAP LS", 0}, {"", 0}}
			for k := 0; k <= nPayload; k++ {
				ts = append(ts, tg{"AUTHENTICATE ", k}, tg{"AUTHENTICATE ", k})
			}
			if spass != "" {
				ts = append(ts, tg{"PASS ", 0}, tg{"PASS ", 0}, tg{"PASS ", 0})
			}
			if wpass != "" {
				ts = append(ts, tg{"WEBIRC ", 0}, tg{"WEBIRC ", 0}, tg{"WEBIRC ", 0})
			}
			t := ts[r.Intn(len(ts))]
			tagMode := Pick(r, "", "", "t", "T")
			if tagMode == "T" && t.p == "OPER " {
				t.p = "@label" // the tagged line starts with its tag section
			}
			return Case{kind, a1, a2, spass, wpass, "operuser", randSecret(r), t.p, fmt.Sprint(t.o),
				Pick(r, "write: broken pipe", "injected write fault", "write tcp 192.0.2.1:6667: connection reset by peer", RandBytes(r, 1+r.Intn(20), safeSecretAlphabet)), tagMode}
		},
		Run: runFault,
	})
	Register(&Suite{
		Name: "sasl.log",
		Prop: []string{"C09"},
		Fixed: func() []Case {
			var out []Case
			for _, dir := range []string{"o", "i"} {
				for _, fl := range []string{"n", "s", "e", "se"} {
					out = append(out, Case{dir, fl, "ERROR", "closing connection: x"}, Case{dir, fl, "XVERIF", "a", "b c"}, Case{dir, fl, "XVERIF"})
					if dir == "o" {
						out = append(out, Case{dir, fl, "PASS", "hunter2hunter2"}, Case{dir, fl, "PRIVMSG", "#c", "hello there"},
							Case{dir, fl, "AUTHENTICATE", "QUJDREVGR0hJSktMTU5PUA=="}, Case{dir, fl, "OPER", "root", "s3cr3tpassw0rd"}, Case{dir, fl, "NOTICE"})
					}
				}
			}
			return out
		},
		Gen: func(r *rand.Rand) Case {
			dir := Pick(r, "o", "o", "i")
			c := Case{dir, Pick(r, "n", "n", "s", "s", "s", "e", "se")}
			if dir == "i" {
				c = append(c, Pick(r, "XVERIF", "ERROR", "900", "901", "907", "XOTHER"))
			} else {
				c = append(c, Pick(r, "PASS", "WEBIRC", "OPER", "AUTHENTICATE", "PRIVMSG", "NOTICE", "ERROR", "NICK", "CAP", "XVERIF"))
			}
			for i, n := 0, r.Intn(5); i < n; i++ {
				switch r.Intn(6) {
				case 0:
					c = append(c, logSafeBytes(r, r.Intn(24)))
				case 1:
					c = append(c, Pick(r, "", ":", ":x", "a b", " ", "x\r\ny", "\xc3\xa9", "\xc3", "\xe2\x82"))
				default:
					c = append(c, RandBytes(r, 8+r.Intn(24), safeSecretAlphabet))
				}
			}
			return c
		},
		Run: runLog,
	})
}
