package suites

// C10 — strict transport security. Suites:
//
//	sts.scenarios  connected route: a client with a scripted Dialer; every dialled
//	               connection is a net.Pipe whose far end is an in-process peer that
//	               classifies the first bytes (TLS ClientHello or plaintext), completes a
//	               real TLS handshake for TLS legs and plays a CAP script; several
//	               Connect calls on the SAME client; scripted time between dials.
//	sts.policy     the same route, complete enumeration of the policy value table
//	               (port x duration x transport x configuration) with a follow-up Connect.
//	sts.expiry     synchronous: strictTransport.expired(), the five-minute fallback window
//	               of possibleCapList, enabled() and the address selection of server().
//
// Case layout of sts.scenarios / sts.policy:
//
//	arg0  configuration bits: D DisableSTS, L SSL, F DisableSTSFallback, S SASL PLAIN,
//	      P Config.SupportedCaps lists "sts" (the application negotiates it itself)
//	arg1  policy installed before the first Connect: "" or "port,duration,receivedAgoSec[,failedAgoSec]"
//	arg2… tokens: "C" starts a Connect call; "L<age>,<dial>,<hs>,<end>" starts a connection
//	      script (age: scripted seconds that pass before the dial; dial 1/0; hs 1 ok, 0 peer
//	      closes after the ClientHello, 2 peer answers in plaintext; end c = application
//	      calls Close(), e = peer closes, x = peer hangs up together with its last line,
//	      without waiting for the answer, k / q = the application calls Close() / Quit() from
//	      its handler of a marker NOTICE that the peer sends in ONE write together with its
//	      last line, so that this line is still queued when the client is told to stop); "E<params joined by LF>" is one CAP event the
//	      peer sends on the current connection.
//
// Scripted time: the harness moves the policy's two timestamps into the past through a
// hook, the model advances its clock parameter by the same whole number of seconds. Real
// time only adds to that; a run that took less than a second of real time therefore saw
// exactly the model's whole-second values (a slower run is repeated, see runSTSScenario).

import (
	"bufio"
	"crypto/ecdsa"
	"crypto/elliptic"
	crand "crypto/rand"
	"crypto/tls"
	"crypto/x509"
	"crypto/x509/pkix"
	"errors"
	"fmt"
	"io"
	"math/big"
	"math/rand"
	"net"
	"sort"
	"strconv"
	"strings"
	"sync"
	"sync/atomic"
	"time"

	"github.com/lrstanley/girc"
)

const (
	stsHost     = "irc.test"
	stsCfgPort  = 6667
	stsPeerWait = 10 * time.Second
)

// ---------------------------------------------------------------- TLS peer

var (
	stsTLSOnce sync.Once
	stsTLSConf *tls.Config
	stsTLSErr  error
)

func stsServerTLS() (*tls.Config, error) {
	stsTLSOnce.Do(func() {
		key, err := ecdsa.GenerateKey(elliptic.P256(), crand.Reader)
		if err != nil {
			stsTLSErr = err
			return
		}
		tmpl := &x509.Certificate{
			SerialNumber: big.NewInt(1),
			Subject:      pkix.Name{CommonName: stsHost},
			DNSNames:     []string{stsHost},
			NotBefore:    time.Now().Add(-time.Hour),
			NotAfter:     time.Now().Add(24 * time.Hour),
			KeyUsage:     x509.KeyUsageDigitalSignature,
			ExtKeyUsage:  []x509.ExtKeyUsage{x509.ExtKeyUsageServerAuth},
		}
		der, err := x509.CreateCertificate(crand.Reader, tmpl, tmpl, &key.PublicKey, key)
		if err != nil {
			stsTLSErr = err
			return
		}
		stsTLSConf = &tls.Config{
			Certificates:           []tls.Certificate{{Certificate: [][]byte{der}, PrivateKey: key}},
			SessionTicketsDisabled: true,
		}
	})
	return stsTLSConf, stsTLSErr
}

// prefixConn replays bytes already consumed from the socket in front of it.
type prefixConn struct {
	net.Conn
	r io.Reader
}

func (p *prefixConn) Read(b []byte) (int, error) { return p.r.Read(b) }

// ---------------------------------------------------------------- scripts

type stsLeg struct {
	age    int
	dialOK bool
	hs     int // 1 ok, 0 close, 2 plaintext garbage
	end    byte
	events [][]string
}

type stsScript struct {
	bits     string
	init     string
	connects [][]stsLeg
}

func parseSTSCase(c Case) (stsScript, bool) {
	var s stsScript
	if len(c) < 2 {
		return s, false
	}
	s.bits, s.init = c[0], c[1]
	for _, tok := range c[2:] {
		switch {
		case tok == "C":
			s.connects = append(s.connects, nil)
		case strings.HasPrefix(tok, "L"):
			if len(s.connects) == 0 {
				return s, false
			}
			f := strings.Split(tok[1:], ",")
			if len(f) != 4 {
				return s, false
			}
			age, e1 := stsNat(f[0])
			dial, e2 := stsNat(f[1])
			hs, e3 := stsNat(f[2])
			if !e1 || !e2 || !e3 || len(f[3]) != 1 {
				return s, false
			}
			k := len(s.connects) - 1
			s.connects[k] = append(s.connects[k], stsLeg{age: age, dialOK: dial == 1, hs: hs, end: f[3][0]})
		case strings.HasPrefix(tok, "E"):
			if len(s.connects) == 0 || len(s.connects[len(s.connects)-1]) == 0 {
				return s, false
			}
			k := len(s.connects) - 1
			j := len(s.connects[k]) - 1
			s.connects[k][j].events = append(s.connects[k][j].events, strings.Split(tok[1:], "\n"))
		default:
			return s, false
		}
	}
	return s, true
}

// stsNat / stsInt: decimal numbers exactly as the model driver's parse_nat / parse_int read them.
func stsNat(s string) (int, bool) {
	if s == "" || len(s) > 15 {
		return 0, false
	}
	for i := 0; i < len(s); i++ {
		if s[i] < '0' || s[i] > '9' {
			return 0, false
		}
	}
	n, err := strconv.Atoi(s)
	return n, err == nil
}

func stsInt(s string) (int, bool) {
	if s != "" && (s[0] == '-' || s[0] == '+') {
		n, ok := stsNat(s[1:])
		if s[0] == '-' {
			n = -n
		}
		return n, ok
	}
	return stsNat(s)
}

func stsHas(bits string, b byte) bool { return strings.IndexByte(bits, b) >= 0 }

// ---------------------------------------------------------------- records

type stsEvRec struct {
	params   []string
	lines    []string // canonical renderings of what the client wrote in answer
	closed   bool     // the client closed the connection instead of / after answering
	hung     bool     // the peer hung up together with this line: no answer was collected
	mark     byte     // end mode that made the line's answer unobservable: x, k or q
	upgraded bool     // STS_UPGRADE_INIT fired while this event was outstanding
}

type stsLegRec struct {
	addr      string
	connected bool
	first     string // "P" plaintext, "T" TLS ClientHello, "-" nothing readable
	hsFailed  bool
	noBurst   bool
	timeout   bool
	evs       []stsEvRec
	// policy as the implementation reported it when the dial happened (oracle only)
	polAtDial girc.VerifSTS
	recvAgo   time.Duration
	recvZero  bool
}

type stsConnRec struct {
	legs      []*stsLegRec
	ret       string
	polBefore girc.VerifSTS
	polAfter  girc.VerifSTS
	times     girc.VerifSTSTimes
	server    string
}

// ---------------------------------------------------------------- the run

type stsRun struct {
	c        *girc.Client
	mu       sync.Mutex
	legs     []stsLeg // remaining scripts of the current Connect call
	cur      *stsConnRec
	wg       sync.WaitGroup
	upg      int32
	tlsConf  *tls.Config
	quitSeen chan struct{} // the peer has read the QUIT line of the current connection
}

type stsDialer struct{ r *stsRun }

func (d stsDialer) Dial(network, addr string) (net.Conn, error) {
	r := d.r
	r.mu.Lock()
	leg := stsLeg{dialOK: false, end: 'c', hs: 1}
	if len(r.legs) > 0 {
		leg, r.legs = r.legs[0], r.legs[1:]
	}
	rec := &stsLegRec{addr: addr, first: "-"}
	r.cur.legs = append(r.cur.legs, rec)
	r.mu.Unlock()

	if leg.age > 0 {
		r.c.VerifSTSShift(time.Duration(leg.age) * time.Second)
	}
	rec.polAtDial = r.c.VerifSTSState()
	tm := r.c.VerifSTSTimes()
	rec.recvAgo, rec.recvZero = tm.ReceivedAgo, tm.ReceivedZero
	if !leg.dialOK {
		return nil, errors.New("scripted dial failure")
	}
	rec.connected = true
	cli, srv := net.Pipe()
	r.wg.Add(1)
	go func() {
		defer r.wg.Done()
		r.servePeer(leg, rec, srv)
	}()
	return cli, nil
}

func stsCanonLine(l string) string {
	switch {
	case l == "CAP END":
		return "END"
	case strings.HasPrefix(l, "CAP REQ "):
		rest := strings.TrimPrefix(strings.TrimPrefix(l, "CAP REQ "), ":")
		toks := strings.Split(rest, " ")
		sort.Strings(toks)
		return "REQ:" + HexList(toks)
	case l == "CAP REQ":
		return "REQ:"
	case strings.HasPrefix(l, "AUTHENTICATE "):
		return "AUTH:" + Hex(strings.TrimPrefix(strings.TrimPrefix(l, "AUTHENTICATE "), ":"))
	}
	return "?" + Hex(l)
}

func stsEventLine(params []string) string {
	n := len(params)
	if n == 0 {
		return ":srv CAP"
	}
	var sb strings.Builder
	sb.WriteString(":srv CAP")
	for _, p := range params[:n-1] {
		sb.WriteString(" " + p)
	}
	sb.WriteString(" :" + params[n-1])
	return sb.String()
}

// servePeer is the far end of one dialled connection.
func (r *stsRun) servePeer(leg stsLeg, rec *stsLegRec, raw net.Conn) {
	defer raw.Close()
	br := bufio.NewReader(raw)
	raw.SetReadDeadline(time.Now().Add(stsPeerWait))
	head, err := br.Peek(2)
	if err != nil || len(head) < 2 {
		if ne, ok := err.(net.Error); ok && ne.Timeout() {
			rec.timeout = true
		}
		return
	}
	raw.SetReadDeadline(time.Time{})
	var conn net.Conn = &prefixConn{Conn: raw, r: br}
	if head[0] == 0x16 && head[1] == 0x03 {
		rec.first = "T"
		switch leg.hs {
		case 1:
			ts := tls.Server(conn, r.tlsConf)
			raw.SetDeadline(time.Now().Add(stsPeerWait))
			if err := ts.Handshake(); err != nil {
				rec.hsFailed = true
				return
			}
			raw.SetDeadline(time.Time{})
			conn = ts
			defer ts.Close()
		case 2:
			rec.hsFailed = true
			// a plaintext server on the TLS port: drain the hello, answer in the clear
			go io.Copy(io.Discard, br)
			raw.SetWriteDeadline(time.Now().Add(stsPeerWait))
			raw.Write([]byte(":srv NOTICE * :*** Looking up your hostname...\r\n"))
			return
		default:
			rec.hsFailed = true
			return
		}
	} else {
		rec.first = "P"
	}

	type item struct {
		line string
		eof  bool
	}
	items := make(chan item, 256)
	go func() {
		lr := bufio.NewReader(conn)
		for {
			l, err := lr.ReadString('\n')
			if l != "" && err == nil {
				items <- item{line: strings.TrimRight(l, "\r\n")}
			}
			if err != nil {
				items <- item{eof: true}
				return
			}
		}
	}()
	next := func() (item, bool) {
		select {
		case it := <-items:
			return it, true
		case <-time.After(stsPeerWait):
			rec.timeout = true
			return item{}, false
		}
	}
	send := func(s string) {
		conn.SetWriteDeadline(time.Now().Add(stsPeerWait))
		conn.Write([]byte(s))
	}

	// registration burst: ends with USER
	for {
		it, ok := next()
		if !ok || it.eof {
			rec.noBurst = true
			return
		}
		if strings.HasPrefix(it.line, "USER ") {
			break
		}
	}

	closed := false
	for k, params := range leg.events {
		ev := stsEvRec{params: params}
		upBefore := atomic.LoadInt32(&r.upg)
		sync := fmt.Sprintf("s%d", k)
		isAck := len(params) == 3 && params[1] == "ACK"
		collect := func() {
			// answers to this event are in front of the PONG that answers our PING
			send("PING :" + sync + "\r\n")
			for {
				it, ok := next()
				if !ok {
					return
				}
				if it.eof {
					ev.closed = true
					return
				}
				if it.line == "PONG :"+sync || it.line == "PONG "+sync {
					return
				}
				if strings.HasPrefix(it.line, "PONG ") {
					continue
				}
				ev.lines = append(ev.lines, stsCanonLine(it.line))
			}
		}
		if (leg.end == 'k' || leg.end == 'q') && k == len(leg.events)-1 {
			// marker and last line in one write: the application's handler of the marker
			// tells the client to stop while the line is queued behind it
			marker := "close-wait"
			if leg.end == 'q' {
				marker = "quit-wait"
			}
			ev.hung, ev.mark = true, leg.end
			rec.evs = append(rec.evs, ev)
			send(":srv NOTICE me :" + marker + "\r\n" + stsEventLine(params) + "\r\n")
			for {
				it, ok := next()
				if !ok || it.eof {
					return
				}
				if strings.HasPrefix(it.line, "QUIT") {
					select {
					case r.quitSeen <- struct{}{}:
					default:
					}
				}
			}
		}
		send(stsEventLine(params) + "\r\n")
		if leg.end == 'x' && k == len(leg.events)-1 {
			// the peer hangs up at the very moment of its last line
			ev.hung, ev.mark = true, 'x'
			rec.evs = append(rec.evs, ev)
			return
		}
		if isAck {
			// An acknowledgement is answered by exactly one line or by the client closing
			// the connection; nothing is sent after it until that answer was seen, so that
			// whatever the client writes "after the ACK" is its own doing.
			it, ok := next()
			switch {
			case !ok:
			case it.eof:
				ev.closed = true
			default:
				if !strings.HasPrefix(it.line, "PONG ") {
					ev.lines = append(ev.lines, stsCanonLine(it.line))
				}
				collect()
			}
		} else {
			collect()
		}
		ev.upgraded = atomic.LoadInt32(&r.upg) > upBefore
		rec.evs = append(rec.evs, ev)
		if ev.closed || rec.timeout {
			closed = true
			break
		}
	}
	if closed {
		return
	}
	if leg.end == 'e' || leg.end == 'x' {
		return // deferred Close: the peer goes away
	}
	if leg.end == 'q' {
		send(":srv NOTICE me :quit-now\r\n")
	} else if leg.end == 'k' {
		send(":srv NOTICE me :close-now\r\n")
	} else {
		r.c.Close()
	}
	for {
		it, ok := next()
		if !ok || it.eof {
			return
		}
	}
}

func stsRetClass(err error) string {
	if err == nil {
		return "nil"
	}
	var su *girc.ErrSTSUpgradeFailed
	if errors.As(err, &su) {
		return "sts"
	}
	var ee *girc.ErrEvent
	if errors.As(err, &ee) {
		return "errevent"
	}
	return "other"
}

func stsPortOf(addr string) string {
	h, p, err := net.SplitHostPort(addr)
	if err != nil || h != stsHost {
		return "?" + Hex(addr)
	}
	return p
}

func stsBucket(zero bool, ago time.Duration) string {
	switch {
	case zero:
		return "Z"
	case ago < 300*time.Second:
		return "R"
	}
	return "O"
}

func stsPolString(p girc.VerifSTS, t girc.VerifSTSTimes) string {
	return fmt.Sprintf("%s,%s,%d,%d,%s,%s,%s", B(p.Enabled), B(p.BeginUpgrade), p.UpgradePort, p.PersistenceDuration,
		B(p.Preload), stsBucket(t.FailedZero, t.FailedAgo), stsBucket(t.ReceivedZero, t.ReceivedAgo))
}

// runSTSOnce plays the scenario once; elapsed is the real time it took.
func runSTSOnce(sc stsScript) (recs []*stsConnRec, initPol string, elapsed time.Duration, fatal string) {
	tconf, err := stsServerTLS()
	if err != nil {
		return nil, "", 0, "?tls-setup:" + err.Error()
	}
	cfg := girc.Config{Server: stsHost, Port: stsCfgPort, Nick: "me", User: "user", Name: "Real Name", AllowFlood: true,
		DisableSTS: stsHas(sc.bits, 'D'), SSL: stsHas(sc.bits, 'L'), DisableSTSFallback: stsHas(sc.bits, 'F'),
		TLSConfig:   &tls.Config{InsecureSkipVerify: true, ServerName: stsHost},
		RecoverFunc: func(*girc.Client, *girc.HandlerError) {}}
	if stsHas(sc.bits, 'S') {
		cfg.SASL = &girc.SASLPlain{User: "u", Pass: "p"}
	}
	if stsHas(sc.bits, 'P') {
		cfg.SupportedCaps = map[string][]string{"sts": nil}
	}
	start := time.Now()
	r := &stsRun{tlsConf: tconf}
	r.c = girc.New(cfg)
	r.c.Handlers.Add(girc.STS_UPGRADE_INIT, func(*girc.Client, girc.Event) { atomic.AddInt32(&r.upg, 1) })
	r.quitSeen = make(chan struct{}, 1)
	// the application: closes / quits when the marker arrives.  "-wait": a server line was
	// sent in the same write; it is let into the receive queue first (no sleeping: the hook
	// reports the queue length), so that it is handled after the client was told to stop.
	r.c.Handlers.Add(girc.NOTICE, func(c *girc.Client, e girc.Event) {
		txt := e.Last()
		if strings.HasSuffix(txt, "-wait") {
			for dl := time.Now().Add(stsPeerWait); c.VerifRxQueued() == 0 && time.Now().Before(dl); {
				time.Sleep(50 * time.Microsecond)
			}
		}
		switch {
		case strings.HasPrefix(txt, "close-"):
			c.Close()
		case strings.HasPrefix(txt, "quit-"):
			select {
			case <-r.quitSeen:
			default:
			}
			c.Quit("bye")
			if strings.HasSuffix(txt, "-wait") {
				// sendLoop calls Close() right after the QUIT went out
				select {
				case <-r.quitSeen:
				case <-time.After(stsPeerWait):
				}
			}
		}
	})
	if sc.init != "" {
		f := strings.Split(sc.init, ",")
		if len(f) < 3 {
			return nil, "", 0, "?bad-init"
		}
		port, e1 := stsInt(f[0])
		dur, e2 := stsInt(f[1])
		ago, e3 := stsInt(f[2])
		if !e1 || !e2 || !e3 {
			return nil, "", 0, "?bad-init"
		}
		r.c.VerifSetSTS(port, dur, time.Duration(ago)*time.Second)
		if len(f) >= 4 && f[3] != "" {
			fa, e4 := stsInt(f[3])
			if !e4 {
				return nil, "", 0, "?bad-init"
			}
			r.c.VerifSetSTSLastFailed(time.Duration(fa) * time.Second)
		}
	}
	initPol = stsPolString(r.c.VerifSTSState(), r.c.VerifSTSTimes()) + ";srv=" + stsPortOf(r.c.Server())
	for _, legs := range sc.connects {
		cr := &stsConnRec{polBefore: r.c.VerifSTSState()}
		r.mu.Lock()
		r.legs = append([]stsLeg(nil), legs...)
		r.cur = cr
		r.mu.Unlock()
		done := make(chan error, 1)
		go func() { done <- r.c.DialerConnect(stsDialer{r}) }()
		select {
		case err := <-done:
			cr.ret = stsRetClass(err)
		case <-time.After(3 * stsPeerWait):
			return nil, "", 0, "?connect-did-not-return"
		}
		wait := make(chan struct{})
		go func() { r.wg.Wait(); close(wait) }()
		select {
		case <-wait:
		case <-time.After(3 * stsPeerWait):
			return nil, "", 0, "?peer-did-not-finish"
		}
		cr.polAfter = r.c.VerifSTSState()
		cr.times = r.c.VerifSTSTimes()
		cr.server = r.c.Server()
		recs = append(recs, cr)
	}
	return recs, initPol, time.Since(start), ""
}

func renderSTS(initPol string, recs []*stsConnRec) string {
	var sb strings.Builder
	sb.WriteString("init=" + initPol)
	for k, cr := range recs {
		fmt.Fprintf(&sb, "|C%d:", k)
		for _, lg := range cr.legs {
			sb.WriteString("[d=" + stsPortOf(lg.addr) + ",")
			switch {
			case !lg.connected:
				sb.WriteString("F")
			case lg.timeout:
				sb.WriteString(lg.first + "?timeout")
			case lg.hsFailed:
				sb.WriteString(lg.first + "h")
			case lg.noBurst:
				sb.WriteString(lg.first + "?noburst")
			default:
				sb.WriteString(lg.first)
				for _, ev := range lg.evs {
					if ev.hung {
						sb.WriteString(";" + string(ev.mark))
						continue
					}
					parts := append([]string(nil), ev.lines...)
					if ev.closed {
						switch {
						case ev.upgraded:
							parts = append(parts, "U")
						case cr.ret == "errevent":
							parts = append(parts, "E")
						default:
							parts = append(parts, "X")
						}
					}
					sb.WriteString(";" + strings.Join(parts, ","))
				}
			}
			sb.WriteString("]")
		}
		sb.WriteString(";ret=" + cr.ret + ";pol=" + stsPolString(cr.polAfter, cr.times) + ";srv=" + stsPortOf(cr.server))
	}
	return sb.String()
}

// ---------------------------------------------------------------- the oracle

// stsPolicyOf reads the policy a simple exchange advertises: the LAST "sts" token of the
// final CAP LS line. ok is false when the exchange is not of the simple shape
// LS(final) … ACK "sts" the oracle pronounces on.
func stsSimpleExchange(evs []stsEvRec) (ackIdx int, kv map[string]string, ok bool) {
	ackIdx = -1
	lsSeen := 0
	var val string
	hasVal := false
	for i, ev := range evs {
		p := ev.params
		if len(p) < 2 {
			return -1, nil, false
		}
		switch {
		case len(p) == 3 && p[1] == "LS":
			lsSeen++
			n := 0
			for _, tok := range strings.Split(p[2], " ") {
				name, v, has := strings.Cut(tok, "=")
				if name == "sts" {
					n++
					val, hasVal = v, has && v != ""
				}
			}
			if n != 1 {
				return -1, nil, false
			}
		case len(p) == 3 && p[1] == "ACK":
			toks := strings.Split(p[2], " ")
			found := false
			for _, t := range toks {
				if t == "sts" {
					found = true
				}
				if strings.HasPrefix(t, "-") {
					return -1, nil, false // removals in the same line: not the simple shape
				}
			}
			if !found || ackIdx >= 0 {
				return -1, nil, false
			}
			ackIdx = i
		default:
			return -1, nil, false
		}
	}
	if lsSeen != 1 || ackIdx < 1 {
		return -1, nil, false
	}
	kv = map[string]string{}
	if hasVal {
		for _, opt := range strings.Split(val, ",") {
			k, v, _ := strings.Cut(opt, "=")
			kv[k] = v
		}
	}
	return ackIdx, kv, true
}

// usable port as the property reads it: a decimal number (optional sign) of at least 21
func stsUsablePort(kv map[string]string) (int, bool) {
	p, ok := kv["port"]
	if !ok {
		return 0, false
	}
	n, err := strconv.Atoi(p)
	if err != nil {
		var ne *strconv.NumError
		if errors.As(err, &ne) && ne.Err == strconv.ErrRange && n > 0 {
			return n, true
		}
		return 0, false
	}
	return n, n >= 21
}

func stsHasWrite(lines []string) bool { return len(lines) > 0 }

func stsReqHasSTS(lines []string) bool {
	for _, l := range lines {
		if strings.HasPrefix(l, "REQ:") {
			for _, h := range strings.Split(strings.TrimPrefix(l, "REQ:"), ",") {
				if h == Hex("sts") {
					return true
				}
			}
		}
	}
	return false
}

// stsRenewal: what the oracle itself knows, when a dial happens, about the last time a TLS
// connection acknowledged a duration (scripted seconds; at < 0 = nothing known).
type stsRenewal struct{ now, at, dur int }

// stsRenewals replays the scenario on the oracle's own clock (the ages of the scripts):
// every duration acknowledged on a TLS connection (simple exchange, answered regularly)
// restarts the policy at that moment. Anything the oracle cannot read (other shapes,
// upgrades, dropped policies) makes it forget, so that it never claims more than it knows.
func stsRenewals(sc stsScript, recs []*stsConnRec, disabled bool) map[[2]int]stsRenewal {
	out := map[[2]int]stsRenewal{}
	now, at, dur := 0, -1, 0
	for ci, cr := range recs {
		for li, lg := range cr.legs {
			if ci < len(sc.connects) && li < len(sc.connects[ci]) {
				now += sc.connects[ci][li].age
			}
			out[[2]int{ci, li}] = stsRenewal{now, at, dur}
			if !lg.connected || lg.hsFailed || lg.timeout || lg.noBurst || lg.first == "-" {
				continue
			}
			if len(lg.evs) == 0 {
				continue
			}
			at = -1
			if lg.first != "T" || disabled {
				continue
			}
			ackIdx, kv, ok := stsSimpleExchange(lg.evs)
			if !ok || ackIdx != len(lg.evs)-1 || !stsReqHasSTS(lg.evs[0].lines) {
				continue
			}
			ack := lg.evs[ackIdx]
			d, has := kv["duration"]
			if !has || ack.hung || ack.closed || len(ack.lines) != 1 {
				continue
			}
			if n, err := strconv.Atoi(d); err == nil {
				at, dur = now, n
			}
		}
		if !cr.polAfter.Enabled {
			at = -1
		}
	}
	return out
}

func stsOracle(sc stsScript, recs []*stsConnRec, slack time.Duration) string {
	disabled, ssl, nofallback := stsHas(sc.bits, 'D'), stsHas(sc.bits, 'L'), stsHas(sc.bits, 'F')
	listed := stsHas(sc.bits, 'P') // SupportedCaps lists sts: requesting it is the application's wish
	cfgAddr := net.JoinHostPort(stsHost, strconv.Itoa(stsCfgPort))
	renewals := stsRenewals(sc, recs, disabled)
	for ci, cr := range recs {
		if cr.polAfter.BeginUpgrade {
			return fmt.Sprintf("upgrade-lost-on-close: connect %d returned %s with beginUpgrade still set", ci, cr.ret)
		}
		for li, lg := range cr.legs {
			last := li == len(cr.legs)-1
			wantTLS := ssl || lg.polAtDial.Enabled
			// ---- address and transport selection (persist / disabled)
			if lg.polAtDial.Enabled {
				want := net.JoinHostPort(stsHost, strconv.Itoa(lg.polAtDial.UpgradePort))
				if lg.addr != want {
					return fmt.Sprintf("persist-addr: connect %d dial %d went to %s while the retained policy says %s", ci, li, lg.addr, want)
				}
			} else if lg.addr != cfgAddr {
				return fmt.Sprintf("addr-without-policy: connect %d dial %d went to %s with no policy retained", ci, li, lg.addr)
			}
			if lg.connected && !lg.timeout && lg.first != "-" {
				if wantTLS && lg.first != "T" {
					return fmt.Sprintf("persist-plaintext: connect %d dial %d to %s started in plaintext although TLS was due", ci, li, lg.addr)
				}
				if !wantTLS && lg.first != "P" {
					return fmt.Sprintf("tls-unexpected: connect %d dial %d to %s started with a TLS hello without SSL or policy", ci, li, lg.addr)
				}
			}
			// ---- failed dial
			if !lg.connected {
				if !last {
					return fmt.Sprintf("dial-after-failure: connect %d kept dialling after dial %d failed", ci, li)
				}
				if lg.polAtDial.Enabled {
					if cr.ret != "sts" {
						return fmt.Sprintf("no-downgrade-error: connect %d: dial failed under a policy but Connect returned %s", ci, cr.ret)
					}
					// expired when the dial failed? (recvAgo was read just before the failure,
					// the run's whole real duration is allowed as slack.)  Keeping a policy
					// longer than required is not a downgrade: the code's exact condition
					// is the correspondence's business, the oracle polices the direction
					// the property is about.
					expired := lg.recvZero || int((lg.recvAgo+slack).Seconds()) > lg.polAtDial.PersistenceDuration
					if dropped := !cr.polAfter.Enabled; dropped && !(expired && !nofallback) {
						return fmt.Sprintf("policy-dropped: connect %d: failed dial dropped an unexpired policy or fallback was disabled", ci)
					}
					// the oracle's own clock: the last duration a TLS connection acknowledged
					// restarted the policy at that (scripted) moment, whatever the client's
					// timestamp says
					if rn := renewals[[2]int{ci, li}]; rn.at >= 0 && int64(rn.now-rn.at)+int64(slack.Seconds())+2 <= int64(rn.dur) && !cr.polAfter.Enabled {
						return fmt.Sprintf("policy-dropped: connect %d: failed dial %d s after the server renewed the policy for %d s dropped it", ci, rn.now-rn.at, rn.dur)
					}
				} else if cr.ret == "sts" {
					return fmt.Sprintf("sts-error-without-policy: connect %d", ci)
				}
				continue
			}
			if lg.timeout || lg.noBurst || lg.hsFailed || lg.first == "-" {
				if lg.hsFailed {
					if !last {
						return fmt.Sprintf("dial-after-handshake-failure: connect %d dial %d", ci, li)
					}
					if cr.ret == "nil" {
						return fmt.Sprintf("handshake-failure-ignored: connect %d returned nil", ci)
					}
					if lg.polAtDial.Enabled && !cr.polAfter.Enabled {
						return fmt.Sprintf("policy-dropped: connect %d: failed handshake dropped the policy", ci)
					}
				}
				continue
			}
			// ---- what the exchange did
			upgradedHere := false
			for _, ev := range lg.evs {
				if ev.upgraded {
					upgradedHere = true
				}
			}
			if upgradedHere && (disabled || lg.first == "T") {
				return fmt.Sprintf("upgrade-unexpected: connect %d dial %d: upgrade with DisableSTS or on a TLS connection", ci, li)
			}
			if (disabled || ssl) && !listed {
				for _, ev := range lg.evs {
					for _, l := range ev.lines {
						if strings.HasPrefix(l, "REQ:") {
							for _, h := range strings.Split(strings.TrimPrefix(l, "REQ:"), ",") {
								if h == Hex("sts") {
									return fmt.Sprintf("sts-requested: connect %d dial %d requested sts with DisableSTS/SSL", ci, li)
								}
							}
						}
					}
				}
			}
			ackIdx, kv, ok := stsSimpleExchange(lg.evs)
			if !ok || ackIdx != len(lg.evs)-1 {
				continue
			}
			lsLines := lg.evs[0].lines
			requested := false
			for _, l := range lsLines {
				if strings.HasPrefix(l, "REQ:") {
					for _, h := range strings.Split(strings.TrimPrefix(l, "REQ:"), ",") {
						if h == Hex("sts") {
							requested = true
						}
					}
				}
			}
			ack := lg.evs[ackIdx]
			if ack.hung && lg.first == "T" && (ack.mark == 'k' || ack.mark == 'q') && !disabled && requested && lg.polAtDial.Enabled {
				// the application stopped the client while the acknowledgement was queued:
				// the line is still handled, on what still is a TLS connection
				if _, has := kv["duration"]; has && last {
					if !cr.polAfter.Enabled || cr.polAfter.UpgradePort != lg.polAtDial.UpgradePort {
						return fmt.Sprintf("policy-dropped: connect %d: a valid policy acknowledged on TLS while the application was closing the client was dropped (server %s)", ci, cr.server)
					}
				}
			}
			if ack.hung {
				// the server hung up with the acknowledgement: nothing can be said about
				// lines, but a valid policy on plaintext must still lead to the secure redial
				if port, usable := stsUsablePort(kv); !disabled && requested && lg.first == "P" && usable {
					if last {
						return fmt.Sprintf("upgrade-lost-on-close: connect %d: server hung up with the sts acknowledgement, Connect returned %s without the secure redial", ci, cr.ret)
					}
					nx := cr.legs[li+1]
					if want := net.JoinHostPort(stsHost, strconv.Itoa(port)); nx.addr != want {
						return fmt.Sprintf("redial-addr: connect %d redialled %s, policy port is %d", ci, nx.addr, port)
					}
					if nx.connected && nx.first == "P" {
						return fmt.Sprintf("redial-plaintext: connect %d redial to %s started in plaintext", ci, nx.addr)
					}
				}
				continue
			}
			switch {
			case disabled:
				if ack.closed || len(ack.lines) != 1 {
					return fmt.Sprintf("disabled-acted: connect %d dial %d: DisableSTS but the sts acknowledgement was not simply answered (%v closed=%v)", ci, li, ack.lines, ack.closed)
				}
				if cr.polAfter.UpgradePort != cr.polBefore.UpgradePort || cr.polAfter.PersistenceDuration != cr.polBefore.PersistenceDuration {
					return fmt.Sprintf("disabled-acted: connect %d: DisableSTS but the policy changed", ci)
				}
			case !requested:
				// the server acknowledged something that was never requested: outside the
				// statement (SSL, or the five-minute fallback window)
			case lg.first == "P":
				port, usable := stsUsablePort(kv)
				if usable {
					if stsHasWrite(ack.lines) {
						return fmt.Sprintf("write-after-ack: connect %d dial %d wrote %v after the sts acknowledgement", ci, li, ack.lines)
					}
					if !ack.closed || !ack.upgraded {
						return fmt.Sprintf("no-upgrade: connect %d dial %d: valid policy acknowledged on plaintext but no upgrade", ci, li)
					}
					if last {
						return fmt.Sprintf("no-redial: connect %d: Connect returned %s without dialling the policy port", ci, cr.ret)
					}
					nx := cr.legs[li+1]
					if want := net.JoinHostPort(stsHost, strconv.Itoa(port)); nx.addr != want {
						return fmt.Sprintf("redial-addr: connect %d redialled %s, policy port is %d", ci, nx.addr, port)
					}
					if nx.connected && nx.first == "P" {
						return fmt.Sprintf("redial-plaintext: connect %d redial to %s started in plaintext", ci, nx.addr)
					}
				} else {
					if stsHasWrite(ack.lines) {
						return fmt.Sprintf("write-after-ack: connect %d dial %d wrote %v after an invalid sts acknowledgement", ci, li, ack.lines)
					}
					if !ack.closed || ack.upgraded || !last || cr.ret != "errevent" {
						return fmt.Sprintf("invalid-accepted: connect %d dial %d: policy without usable port did not abort with an error (ret=%s)", ci, li, cr.ret)
					}
					if cr.polAfter.Enabled || cr.server != cfgAddr {
						return fmt.Sprintf("invalid-retained: connect %d: rejected policy retained (server %s)", ci, cr.server)
					}
				}
			case lg.first == "T":
				if _, has := kv["duration"]; has {
					if ack.closed || len(ack.lines) != 1 {
						return fmt.Sprintf("tls-policy-not-accepted: connect %d dial %d: %v closed=%v", ci, li, ack.lines, ack.closed)
					}
					if len(cr.legs) > li+1 {
						return fmt.Sprintf("tls-redial: connect %d dial %d: a policy on TLS caused another dial", ci, li)
					}
					if lg.polAtDial.Enabled && (cr.polAfter.UpgradePort != lg.polAtDial.UpgradePort) {
						return fmt.Sprintf("tls-port-used: connect %d: port key on TLS changed the policy port %d -> %d", ci, lg.polAtDial.UpgradePort, cr.polAfter.UpgradePort)
					}
					if !lg.polAtDial.Enabled && cr.polAfter.Enabled {
						return fmt.Sprintf("tls-port-used: connect %d: port key on TLS enabled an upgrade policy", ci)
					}
				} else {
					if stsHasWrite(ack.lines) {
						return fmt.Sprintf("write-after-ack: connect %d dial %d wrote %v after an invalid sts acknowledgement", ci, li, ack.lines)
					}
					if !ack.closed || !last || cr.ret != "errevent" {
						return fmt.Sprintf("invalid-accepted: connect %d dial %d: TLS policy without duration did not abort (ret=%s)", ci, li, cr.ret)
					}
					if cr.polAfter.Enabled || cr.server != cfgAddr {
						return fmt.Sprintf("invalid-retained: connect %d: rejected policy retained (server %s)", ci, cr.server)
					}
				}
			}
		}
	}
	return ""
}

func stsSig(recs []*stsConnRec) string {
	var parts []string
	for _, cr := range recs {
		var ls []string
		for _, lg := range cr.legs {
			s := lg.first
			switch {
			case !lg.connected:
				s = "F"
			case lg.hsFailed:
				s += "h"
			default:
				for _, ev := range lg.evs {
					if ev.hung {
						s += string(ev.mark)
					} else if ev.upgraded {
						s += "U"
					} else if ev.closed {
						s += "E"
					}
				}
			}
			ls = append(ls, s)
		}
		parts = append(parts, strings.Join(ls, ">")+"="+cr.ret)
	}
	return strings.Join(parts, "/")
}

func runSTSScenario(c Case) Result {
	sc, ok := parseSTSCase(c)
	if !ok {
		return Result{Obs: "?bad-case", Sig: "trivial-bad-case"}
	}
	var recs []*stsConnRec
	var initPol string
	var elapsed time.Duration
	for try := 0; try < 6; try++ {
		var fatal string
		recs, initPol, elapsed, fatal = runSTSOnce(sc)
		if fatal == "?bad-init" {
			return Result{Obs: fatal, Sig: "trivial-bad-case"}
		}
		if fatal != "" {
			return Result{Obs: fatal, Oracle: "harness: " + fatal, Sig: "harness"}
		}
		if elapsed < 800*time.Millisecond {
			break
		}
	}
	return Result{Obs: renderSTS(initPol, recs), Oracle: stsOracle(sc, recs, elapsed), Sig: stsSig(recs)}
}

// ---------------------------------------------------------------- generators

var stsPortVals = []string{"", "=", "=abc", "=0", "=20", "=21", "=6697", "=65535", "=70000", "=-6697", "=+6697", "=6697x", "=1", "=99999999999999999999", "=6667"}
var stsDurVals = []string{"", "=", "=junk", "=0", "=1", "=3", "=600", "=1000000000", "=-5"}

// stsToken builds an "sts=…" capability token from a port and a duration choice: "" = key
// absent, otherwise the text that follows the key ("=6697", "=" for an empty value).
func stsToken(port, dur string, preload int) string {
	var opts []string
	if port != "" {
		opts = append(opts, "port"+port)
	}
	if dur != "" {
		opts = append(opts, "duration"+dur)
	}
	switch preload {
	case 1:
		opts = append(opts, "preload")
	case 2:
		opts = append(opts, "preload=true")
	case 3:
		opts = append(opts, "preload=0")
	}
	if len(opts) == 0 {
		return "sts"
	}
	return "sts=" + strings.Join(opts, ",")
}

func stsLegTok(age int, dial bool, hs int, end byte) string {
	d := 0
	if dial {
		d = 1
	}
	return fmt.Sprintf("L%d,%d,%d,%c", age, d, hs, end)
}

func stsLS(tokens ...string) string  { return "E*\nLS\n" + strings.Join(tokens, " ") }
func stsACK(tokens ...string) string { return "E*\nACK\n" + strings.Join(tokens, " ") }

func pickStr(r *rand.Rand, xs []string) string { return xs[r.Intn(len(xs))] }

func genSTSAges(r *rand.Rand) int {
	switch r.Intn(8) {
	case 0:
		return 5
	case 1:
		return 400
	case 2:
		return 3600
	case 3:
		return 700
	}
	return 0
}

// genSTSLeg: one connection script with a mostly well-formed exchange.
func genSTSLeg(r *rand.Rand, sasl bool) []string {
	dial := r.Intn(7) != 0
	hs := 1
	if r.Intn(8) == 0 {
		hs = r.Intn(3)
	}
	end := byte('c')
	if r.Intn(5) == 0 {
		end = 'e'
	}
	out := []string{stsLegTok(genSTSAges(r), dial, hs, end)}
	port, dur := pickStr(r, stsPortVals), pickStr(r, stsDurVals)
	if r.Intn(3) == 0 {
		port = "=6697"
	}
	if r.Intn(3) == 0 {
		dur = pickStr(r, []string{"=600", "=1000000000", "=3"})
	}
	tok := stsToken(port, dur, r.Intn(4))
	others := []string{"multi-prefix", "sasl", "away-notify", "server-time", "foo", "sasl=PLAIN,EXTERNAL"}
	var adv []string
	for _, o := range others {
		if r.Intn(3) == 0 {
			adv = append(adv, o)
		}
	}
	if r.Intn(8) != 0 {
		adv = append(adv, tok)
	}
	if r.Intn(12) == 0 {
		adv = append(adv, stsToken(pickStr(r, stsPortVals), pickStr(r, stsDurVals), 0)) // duplicate sts token
	}
	r.Shuffle(len(adv), func(i, j int) { adv[i], adv[j] = adv[j], adv[i] })
	if len(adv) == 0 {
		adv = []string{"multi-prefix"}
	}
	switch r.Intn(10) {
	case 0: // multi-line LS
		out = append(out, "E*\nLS\n*\n"+adv[0], stsLS(adv[1:]...))
	default:
		out = append(out, stsLS(adv...))
	}
	// acknowledgement
	var ack []string
	for _, a := range adv {
		name, _, _ := strings.Cut(a, "=")
		if name == "foo" {
			continue
		}
		if name == "sasl" && !sasl && r.Intn(4) != 0 {
			continue
		}
		if r.Intn(6) != 0 {
			ack = append(ack, name)
		}
	}
	switch r.Intn(14) {
	case 0:
		ack = append(ack, "sts") // acknowledged although perhaps never advertised / requested
	case 1:
		out = append(out, "E*\nNAK\nsts")
		return out
	case 2:
		ack = append(ack, tok) // full token instead of the name
	case 3:
		return out // no acknowledgement at all
	}
	if len(ack) == 0 {
		ack = []string{"multi-prefix"}
	}
	if r.Intn(10) == 0 { // acknowledged removals ("-name"), before or after the name itself
		rem := Pick(r, "-sts", "-sts", "-multi-prefix", "-", "-sasl")
		k := r.Intn(len(ack) + 1)
		ack = append(ack[:k], append([]string{rem}, ack[k:]...)...)
	}
	if r.Intn(16) == 0 {
		out = append(out, "E*\nACK\nx\n"+strings.Join(ack, " ")) // four parameters: not an acknowledgement the code reads
	}
	out = append(out, stsACK(ack...))
	if r.Intn(10) == 0 {
		out = append(out, "E*\nDEL\nsts")
	}
	if r.Intn(12) == 0 {
		out = append(out, "E*\nNEW\n"+tok, stsACK("sts"))
	}
	return out
}

func genSTSScenario(r *rand.Rand) Case {
	bits := ""
	if r.Intn(6) == 0 {
		bits += "D"
	}
	if r.Intn(7) == 0 {
		bits += "L"
	}
	if r.Intn(3) == 0 {
		bits += "F"
	}
	sasl := r.Intn(3) == 0
	if sasl {
		bits += "S"
	}
	if r.Intn(5) == 0 || (strings.Contains(bits, "D") && r.Intn(2) == 0) {
		bits += "P"
	}
	if r.Intn(4) == 0 {
		return genSTSRenewal(r, bits)
	}
	if r.Intn(8) == 0 {
		return genSTSCloseQueued(r, bits)
	}
	init := ""
	switch r.Intn(6) {
	case 0:
		init = fmt.Sprintf("%d,%s,%d", r.Intn(2)*6697+r.Intn(2)*9999, Pick(r, "-1", "0", "3", "600", "1000000000"), genSTSAges(r))
	case 1:
		init = fmt.Sprintf("6697,%s,%d,%d", Pick(r, "600", "3", "1000000000"), genSTSAges(r), r.Intn(2)*400)
	case 2:
		init = fmt.Sprintf("-1,-1,0,%d", r.Intn(3)*200)
	}
	c := Case{bits, init}
	nconn := 1 + r.Intn(3)
	for i := 0; i < nconn; i++ {
		c = append(c, "C")
		nlegs := 2 + r.Intn(2)
		for j := 0; j < nlegs; j++ {
			c = append(c, genSTSLeg(r, sasl)...)
		}
	}
	return c
}

// genSTSRenewal: a policy is learnt, its TLS connections end cleanly or not, a later TLS
// connection acknowledges the same or another duration, time passes, a dial fails (or not).
func genSTSRenewal(r *rand.Rand, bits string) Case {
	durs := []int{600, 900, 3600, 60}
	d1 := durs[r.Intn(len(durs))]
	d2 := d1
	if r.Intn(3) == 0 {
		d2 = durs[r.Intn(len(durs))]
	}
	frac := func(d int) int { // a multiple of 5 somewhere in (0, 1.2 d)
		return 5 * (1 + r.Intn(d*12/50))
	}
	end := func() string { return Pick(r, "e", "e", "c") }
	tls := func(age, dur int, e string) []string {
		return []string{fmt.Sprintf("L%d,1,1,%s", age, e), stsLS(fmt.Sprintf("sts=duration=%d", dur), "multi-prefix"), stsACK("sts", "multi-prefix")}
	}
	var c Case
	if r.Intn(2) == 0 {
		c = Case{bits, "", "C", "L0,1,1,c", stsLS("sts=port=6697", "multi-prefix"), stsACK("sts")}
		c = append(c, tls(0, d1, end())...)
	} else {
		c = Case{bits, fmt.Sprintf("6697,%d,%d", d1, frac(d1)), "C"}
		c = append(c, tls(0, d1, end())...)
	}
	n := 1 + r.Intn(2)
	for i := 0; i < n; i++ {
		c = append(c, "C")
		c = append(c, tls(frac(d1), d2, end())...)
	}
	c = append(c, "C", fmt.Sprintf("L%d,%d,1,c", frac(d2), r.Intn(4)/3))
	c = append(c, "C", "L0,1,1,c", stsLS("sts=port=6697"), stsACK("sts"), "L0,1,1,c")
	return c
}

// genSTSCloseQueued: the application calls Close() / Quit() while the acknowledgement is still
// queued (end modes k, q), on the TLS connection of a held policy, on the TLS connection of an
// upgrade, and on plaintext; further Connect calls follow.  Only valid policies / other
// capabilities are acknowledged there (an injected ERROR racing with the shutdown has no
// determined return value).
func genSTSCloseQueued(r *rand.Rand, bits string) Case {
	bits = strings.ReplaceAll(bits, "L", "")
	e := Pick(r, "k", "k", "q")
	dur := Pick(r, "600", "900", "3600")
	tok := "sts=duration=" + dur
	if r.Intn(2) == 0 {
		tok += ",port=7000"
	}
	tlsLeg := []string{"L0,1,1," + e, stsLS(tok, "multi-prefix"), stsACK("sts", "multi-prefix")}
	var c Case
	switch r.Intn(4) {
	case 0: // policy held
		c = append(Case{bits, "6697," + Pick(r, "600", "60") + ",5", "C"}, tlsLeg...)
	case 1: // upgrade, then the TLS connection is closed by the application
		c = append(Case{bits, "", "C", "L0,1,1,c", stsLS("sts=port=6697"), stsACK("sts")}, tlsLeg...)
	case 2: // plaintext: the upgrade's acknowledgement is queued behind the marker
		c = append(Case{bits, "", "C", "L0,1,1," + e, stsLS("sts=port=6697", "multi-prefix"), stsACK("sts")}, "L0,1,1,c", stsLS(tok), stsACK("sts"))
	default: // no sts at all
		c = Case{bits, "", "C", "L0,1,1," + e, stsLS("multi-prefix", "away-notify"), stsACK("multi-prefix")}
	}
	c = append(c, "C", fmt.Sprintf("L%d,1,1,c", 5*r.Intn(3)), "C", fmt.Sprintf("L%d,0,1,c", 5*r.Intn(100)), "C", "L0,1,1,c")
	return c
}

// fixed scenarios: the shapes the property's clauses talk about
func fixedSTSScenarios() []Case {
	up := func(extra ...string) []string {
		return append([]string{"C", "L0,1,1,c", stsLS("multi-prefix", "sts=port=6697"), stsACK("sts")}, extra...)
	}
	tlsLeg := func(tok string, end string) []string {
		return []string{"L0,1,1," + end, stsLS(tok, "multi-prefix"), stsACK("sts", "multi-prefix")}
	}
	cat := func(parts ...[]string) Case {
		var c Case
		for _, p := range parts {
			c = append(c, p...)
		}
		return c
	}
	var out []Case
	for _, bits := range []string{"", "F", "S", "FS", "D", "L", "DL", "DF", "LF", "DP", "DFP", "P", "LP", "DSP"} {
		hd := []string{bits, ""}
		// renewal: duration learnt, connections dropped, the same / another duration acknowledged
		// again, the dial fails later than D after the first receipt but sooner after the renewal
		for _, e := range []string{"e", "c"} {
			for _, d2 := range []string{"600", "900"} {
				out = append(out, cat(hd, up(), tlsLeg("sts=duration=600", e),
					[]string{"C"}, []string{"L400,1,1," + e, stsLS("sts=duration="+d2, "multi-prefix"), stsACK("sts", "multi-prefix")},
					[]string{"C", "L400,0,1,c", "C", "L0,1,1,c", stsLS("sts=port=6697"), stsACK("sts"), "L0,1,1,c"}))
			}
		}
		// upgrade, persistence learnt over TLS, clean close, second and third connect
		out = append(out, cat(hd, up(), tlsLeg("sts=duration=600,port=7000", "c"),
			[]string{"C"}, tlsLeg("sts=duration=600", "c"), []string{"C", "L700,1,1,e"}))
		// upgrade, redial fails (no duration known: the upgrade policy counts as expired)
		out = append(out, cat(hd, up("L0,0,1,c"), []string{"C", "L0,1,1,c", stsLS("sts=port=6697"), stsACK("sts")},
			[]string{"L0,1,1,c"}, []string{"C", "L400,1,1,c", stsLS("sts=port=6697"), stsACK("sts"), "L0,1,1,c"}))
		// upgrade, handshake fails
		out = append(out, cat(hd, up("L0,1,0,c"), []string{"C", "L0,1,2,c"}, []string{"C", "L0,0,1,c"}))
		// persistence, then failed dials before and after expiry
		out = append(out, cat(hd, up(), tlsLeg("sts=duration=600", "c"), []string{"C", "L5,0,1,c", "C", "L700,0,1,c", "C", "L0,1,1,c", stsLS("sts=port=6697"), stsACK("sts")}))
		out = append(out, cat([]string{bits, "6697,600,0"}, []string{"C", "L0,0,1,c", "C", "L5,0,1,c", "C", "L3600,0,1,c", "C", "L0,0,1,c", "C", "L0,1,1,c", stsLS("sts=port=6697"), stsACK("sts"), "L0,1,1,c"}))
		out = append(out, cat([]string{bits, "6697,0,0"}, []string{"C", "L0,0,1,c", "C", "L5,0,1,c", "C", "L0,1,1,c"}))
		// invalid policies
		out = append(out, cat(hd, []string{"C", "L0,1,1,c", stsLS("sts=port=5"), stsACK("sts"), "L0,1,1,c", "C", "L0,1,1,c"}))
		out = append(out, cat(hd, []string{"C", "L0,1,1,c", stsLS("sts=duration=100"), stsACK("sts"), "L0,1,1,c", "C", "L0,1,1,c"}))
		out = append(out, cat(hd, up(), tlsLeg("sts=port=6697", "c"), []string{"C", "L0,1,1,c"}))
		out = append(out, cat([]string{bits, "6697,600,5"}, []string{"C"}, tlsLeg("sts=preload", "c"), []string{"C", "L0,1,1,c"}))
		// the application closes / quits while the acknowledgement is still queued
		for _, e := range []string{"k", "q"} {
			if strings.Contains(bits, "L") {
				break // sts unrequested under SSL: the acknowledgement is invalid, its ERROR races with the shutdown
			}
			out = append(out, cat([]string{bits, "6697,600,5"}, []string{"C", "L0,1,1," + e, stsLS("sts=duration=900", "multi-prefix"), stsACK("sts", "multi-prefix"),
				"C", "L5,1,1,c", "C", "L5,0,1,c", "C", "L0,1,1,c"}))
			out = append(out, cat(hd, up(), []string{"L0,1,1," + e, stsLS("sts=duration=600,port=7000"), stsACK("sts"), "C", "L0,1,1,c", "C", "L5,0,1,c"}))
			out = append(out, cat(hd, []string{"C", "L0,1,1," + e, stsLS("sts=port=6697"), stsACK("sts"), "L0,1,1,c", stsLS("sts=duration=600"), stsACK("sts"), "C", "L0,1,1,c"}))
			out = append(out, cat(hd, []string{"C", "L0,1,1," + e, "C", "L0,1,1,c"}))
		}
		// removals acknowledged in the same line or later
		out = append(out, cat(hd, []string{"C", "L0,1,1,c", stsLS("sts=port=6697"), stsACK("sts", "-sts"), "L0,1,1,c", "C", "L0,1,1,c", stsLS("sts=port=6697"), stsACK("-sts", "sts"), "L0,1,1,c"}))
		out = append(out, cat([]string{bits, "6697,600,5"}, []string{"C"}, tlsLeg("sts=duration=900", "c")[:3], []string{stsACK("-sts"), stsACK("multi-prefix"), "C", "L0,1,1,c"}))
		// acknowledged without having been advertised
		out = append(out, cat(hd, []string{"C", "L0,1,1,c", stsLS("multi-prefix"), stsACK("sts", "multi-prefix"), "C", "L0,1,1,c"}))
	}
	return out
}

// complete policy table: every port value x every duration value, on plaintext and on an
// upgraded TLS connection, each followed by another Connect of the same client.
func fixedSTSPolicy() []Case {
	var out []Case
	for _, bits := range []string{"", "F", "D", "L", "DP"} {
		for _, p := range stsPortVals {
			for _, d := range stsDurVals {
				tok := stsToken(p, d, 0)
				// plaintext leg gets the token; a possible redial gets it again over TLS
				out = append(out, Case{bits, "", "C", "L0,1,1,c", stsLS(tok), stsACK("sts"), "L0,1,1,c", stsLS(tok), stsACK("sts"),
					"C", "L5,1,1,c", "C", "L0,0,1,c"})
			}
		}
	}
	for _, bits := range []string{"", "F"} {
		for _, p := range stsPortVals {
			for _, d := range stsDurVals {
				tok := stsToken(p, d, 1)
				// a policy is already held: the token arrives on the TLS connection
				out = append(out, Case{bits, "6697,600,5", "C", "L0,1,1,c", stsLS(tok), stsACK("sts"), "C", "L5,0,1,c", "C", "L3600,0,1,c", "C", "L0,1,1,e"})
			}
		}
	}
	return out
}

// ---------------------------------------------------------------- sts.expiry

func runSTSExpiry(c Case) Result {
	if len(c) < 3 {
		return Result{Obs: "?short-case", Sig: "trivial"}
	}
	switch c[0] {
	case "X": // expired(duration, ago in ms)
		dur, e1 := stsInt(c[1])
		ms, e2 := stsNat(c[2])
		if !e1 || !e2 {
			return Result{Obs: "?bad-case", Sig: "trivial"}
		}
		want := ms / 1000
		var exp bool
		settled := false
		for try := 0; try < 50 && !settled; try++ {
			e, b, a := girc.VerifSTSExpired(dur, time.Duration(ms)*time.Millisecond)
			if b == want && a == want {
				exp, settled = e, true
			}
		}
		if !settled {
			return Result{Obs: "?clock", Oracle: "harness: could not pin the elapsed whole seconds", Sig: "harness"}
		}
		oracle := ""
		if exp != (want > dur) {
			oracle = fmt.Sprintf("expiry: policy of %d s received %d ms ago: expired()=%v", dur, ms, exp)
		}
		return Result{Obs: B(exp), Oracle: oracle, Sig: "X" + B(exp)}
	case "R": // is sts requested, `ago` seconds after a fallback (bits as in sts.scenarios)
		bits := c[1]
		cfg := girc.Config{Server: stsHost, Port: stsCfgPort, Nick: "me", User: "user", DisableSTS: stsHas(bits, 'D'),
			SSL: stsHas(bits, 'L'), DisableSTSFallback: stsHas(bits, 'F')}
		if stsHas(bits, 'P') {
			cfg.SupportedCaps = map[string][]string{"sts": nil}
		}
		cl := girc.New(cfg)
		if c[2] != "" {
			ago, ok := stsNat(c[2])
			if !ok {
				return Result{Obs: "?bad-case", Sig: "trivial"}
			}
			cl.VerifSetSTSLastFailed(time.Duration(ago) * time.Second)
		}
		has := false
		for _, k := range cl.VerifPossibleCaps() {
			if k == "sts" {
				has = true
			}
		}
		oracle := ""
		if has && (stsHas(bits, 'D') || stsHas(bits, 'L')) && !stsHas(bits, 'P') {
			oracle = "sts-requested: sts is requestable with DisableSTS/SSL"
		}
		return Result{Obs: B(has), Oracle: oracle, Sig: "R" + B(has)}
	case "A": // enabled(port) and the address server() selects
		port, ok := stsInt(c[1])
		if !ok {
			return Result{Obs: "?bad-case", Sig: "trivial"}
		}
		en := girc.VerifSTSEnabled(port)
		addr := girc.VerifSTSServer(girc.Config{Server: stsHost, Port: stsCfgPort}, port)
		oracle := ""
		if en != (port > 0) {
			oracle = fmt.Sprintf("enabled: port %d enabled()=%v", port, en)
		}
		return Result{Obs: B(en) + "," + stsPortOf(addr), Oracle: oracle, Sig: "A" + B(en)}
	}
	return Result{Obs: "?bad-case", Sig: "trivial"}
}

func genSTSExpiry(r *rand.Rand) Case {
	switch r.Intn(4) {
	case 0:
		return Case{"R", Pick(r, "", "F", "D", "L", "DF", "LF", "DL", "P", "DP", "LP", "FP", "DFP"), Pick(r, "", "0", "5", "200", "290", "310", "400", "3600", "100000")}
	case 1:
		return Case{"A", strconv.Itoa(r.Intn(70000) - 1000), ""}
	}
	dur := r.Intn(50) - 5
	if r.Intn(5) == 0 {
		dur = r.Intn(2000000000)
	}
	secs := dur + r.Intn(5) - 2
	if secs < 0 || r.Intn(6) == 0 {
		secs = r.Intn(100)
	}
	return Case{"X", strconv.Itoa(dur), strconv.Itoa(secs*1000 + r.Intn(400))}
}

func fixedSTSExpiry() []Case {
	var out []Case
	for _, d := range []int{-1, 0, 1, 2, 3, 10, 600} {
		for s := 0; s <= 12; s++ {
			out = append(out, Case{"X", strconv.Itoa(d), strconv.Itoa(s*1000 + 1)}, Case{"X", strconv.Itoa(d), strconv.Itoa(s*1000 + 350)})
		}
		for _, s := range []int{598, 599, 600, 601, 602} {
			out = append(out, Case{"X", strconv.Itoa(d), strconv.Itoa(s*1000 + 1)})
		}
	}
	for _, p := range []int{-1, 0, 1, 20, 21, 6667, 6697, 65535, 70000} {
		out = append(out, Case{"A", strconv.Itoa(p), ""})
	}
	for _, b := range []string{"", "F", "D", "L", "DF", "LF", "DL", "DLF", "P", "DP", "LP", "FP", "DFP", "DLP"} {
		for _, a := range []string{"", "0", "5", "200", "290", "310", "400", "100000"} {
			out = append(out, Case{"R", b, a})
		}
	}
	return out
}

// ---------------------------------------------------------------- sts.closeatack
//
// The server acknowledges a policy on plaintext and hangs up at the same moment (what an
// on-path attacker can always do).  Inside the client this is a race between handleCAP's
// Close() and readLoop's EOF; since 52091d0 both orders end in the secure redial, so the
// scenario is deterministic and is compared with the model like any other (end mode x; the
// model reads it as "group.Wait() returns the I/O error").  Only shapes whose outcome does
// not depend on that race are generated: a valid policy (upgrade either way) or DisableSTS
// (no upgrade either way, Connect returns the I/O error).
func closeAtAckCase(bits, port string, others []string, tail []string) Case {
	adv := append([]string{"sts=port" + port}, others...)
	ack := append([]string{"sts"}, others...)
	c := Case{bits, "", "C", "L0,1,1,x", stsLS(adv...), stsACK(ack...)}
	return append(c, tail...)
}

var closeAtAckTails = [][]string{
	{"L0,1,1,c", stsLS("sts=duration=600,port=7000", "multi-prefix"), stsACK("sts", "multi-prefix"), "C", "L5,1,1,c"},
	{"L0,1,1,e", stsLS("sts=duration=600"), stsACK("sts"), "C", "L5,0,1,c"},
	{"L0,0,1,c", "C", "L0,1,1,c", stsLS("sts=port=6697"), stsACK("sts"), "L0,1,1,c"},
	{"L0,1,0,c", "C", "L0,1,1,c"},
	{"L0,1,1,c", stsLS("sts=port=6697"), stsACK("sts"), "C", "L0,1,1,c"},
	{"L0,1,1,c", "C", "L400,1,1,c", "C", "L0,0,1,c"},
}

func fixedCloseAtAck() []Case {
	var out []Case
	for _, bits := range []string{"", "F", "S", "D", "DF"} {
		for i, tail := range closeAtAckTails {
			port := []string{"=6697", "=21", "=65535", "=70000", "=+6697", "=6667"}[i%6]
			var others []string
			if i%2 == 1 {
				others = []string{"multi-prefix"}
			}
			if bits == "S" {
				others = append(others, "sasl")
			}
			out = append(out, closeAtAckCase(bits, port, others, tail))
		}
	}
	return out
}

func genCloseAtAck(r *rand.Rand) Case {
	bits := Pick(r, "", "", "F", "S", "FS", "D", "DF")
	port := Pick(r, "=6697", "=21", "=65535", "=70000", "=+6697", "=6667", "=99999999999999999999")
	var others []string
	for _, o := range []string{"multi-prefix", "away-notify", "server-time"} {
		if r.Intn(3) == 0 {
			others = append(others, o)
		}
	}
	if strings.Contains(bits, "S") && r.Intn(2) == 0 {
		others = append(others, "sasl")
	}
	return closeAtAckCase(bits, port, others, closeAtAckTails[r.Intn(len(closeAtAckTails))])
}

func init() {
	Register(&Suite{Name: "sts.scenarios", Prop: []string{"C10"}, Fixed: fixedSTSScenarios, Gen: genSTSScenario, Run: runSTSScenario})
	Register(&Suite{Name: "sts.policy", Prop: []string{"C10"}, Fixed: fixedSTSPolicy,
		Exhaustive: "every port value x every duration value of the policy table on plaintext and on TLS, under four configurations",
		Run:        runSTSScenario})
	Register(&Suite{Name: "sts.expiry", Prop: []string{"C10"}, Fixed: fixedSTSExpiry, Gen: genSTSExpiry, Run: runSTSExpiry})
	Register(&Suite{Name: "sts.closeatack", Prop: []string{"C10"}, Fixed: fixedCloseAtAck, Gen: genCloseAtAck, Run: runSTSScenario})
}
