package suites

// C16 — flood protection bounds the send rate.
//
// rate.arith: ircConn.rate against the model, exactly.  rate() reads the real clock
// (time.Since(lastWrite)), so an exact comparison needs a clock reading that does not
// depend on when the call happens:
//   kind "z": hook VerifRateZero leaves lastWrite at the zero Time; time.Since of the zero
//             Time saturates at 1<<63-1 ns whatever the clock reads, so the result is an
//             exact function of (writeDelay, chars).  writeDelay is chosen near
//             1<<63-1 - cost so that the sum lands on and around 0 and 8 s: every
//             comparison and constant of rate() is exercised to the nanosecond.
//   kind "r": hook VerifRate sets lastWrite = now - since; rate() reads the clock eps >= 0
//             later.  The call is bracketed by two clock readings and repeated until the
//             bracket is <= 5 ms (eps <= bracket); the observation is floor(wd'/10ms) and
//             the delay, and the generator only emits cases whose observation is the same
//             for every eps in [0, 5 ms] (wd+cost-since <= 0, or its residue mod 10 ms is
//             > 5 ms; the 8 s threshold is a multiple of 10 ms).  No tolerance is left to
//             chance: a slow machine repeats the call, it cannot change the observation.
//   kind "m": hook VerifRateAt sets lastWrite = now - since and lastRate = now - sinceRate
//             (negative = unset): the time forgiven is the time since the LATER of the two;
//             same observation as "r" plus whether lastRate was advanced by the call.
//
// rate.wire: connected scenarios against a peer that timestamps every line.  Only lower
// bounds on arrival times are ever required (a loaded machine makes things later, never
// earlier), except "keep-alive not held" / "AllowFlood not held", which are stated as
// "took less than the event's own cost (>= 1 s)".

import (
	"bufio"
	"fmt"
	"go/ast"
	"go/parser"
	"go/token"
	"math"
	"math/rand"
	"net"
	"os"
	"path/filepath"
	"sort"
	"strconv"
	"strings"
	"sync"
	"sync/atomic"
	"time"

	"gircverif/drive"

	"github.com/lrstanley/girc"
)

const (
	c16Second    = int64(time.Second)
	c16Threshold = 8 * c16Second
	c16MaxDur    = int64(math.MaxInt64)
	c16Quantum   = int64(10 * time.Millisecond)
	c16Eps       = int64(5 * time.Millisecond)
)

func c16Cost(chars int64) int64 { return c16Second + chars*c16Second/100 }

// ---------------------------------------------------------------- rate.arith

func c16ArithCase(kind string, wd, since, chars int64) Case {
	return Case{kind, strconv.FormatInt(wd, 10), strconv.FormatInt(since, 10), strconv.FormatInt(chars, 10)}
}

// interesting values of x = writeDelay + cost - elapsed
func c16PickX(r *rand.Rand, cost int64) int64 {
	switch r.Intn(12) {
	case 0:
		return 0
	case 1:
		return int64(r.Intn(5)) - 2
	case 2:
		return c16Threshold
	case 3:
		return c16Threshold + int64(r.Intn(7)) - 3
	case 4:
		return c16Threshold + int64(r.Intn(2000001)) - 1000000
	case 5:
		return -r.Int63n(20 * c16Second)
	case 6:
		return r.Int63n(c16Threshold + 1)
	case 7:
		return c16Threshold + r.Int63n(30*c16Second)
	case 8:
		return cost
	case 9:
		return cost - int64(r.Intn(3))
	default:
		return r.Int63n(2*c16Threshold) - c16Second
	}
}

func c16GenArith(r *rand.Rand) Case {
	if r.Intn(3) == 0 { // exact kind
		var chars int64
		switch r.Intn(6) {
		case 0:
			chars = 699 + int64(r.Intn(4)) // cost = 7.99 .. 8.02 s
		case 1:
			chars = int64(r.Intn(6000))
		case 2:
			chars = 700 + int64(r.Intn(3000))
		default:
			chars = int64(r.Intn(512))
		}
		cost := c16Cost(chars)
		if r.Intn(8) == 0 { // any accumulated delay at all
			return c16ArithCase("z", r.Int63(), 0, chars)
		}
		x := c16PickX(r, cost)
		if x > cost { // writeDelay <= MaxInt64 bounds x by cost
			x = cost - r.Int63n(cost)
		}
		return c16ArithCase("z", x-cost+c16MaxDur, 0, chars)
	}
	for {
		chars := int64(r.Intn(520))
		cost := c16Cost(chars)
		wd := r.Int63n(30 * c16Second)
		if r.Intn(4) == 0 {
			wd = 0
		}
		x := c16PickX(r, cost)
		if x > 0 { // move the residue mod 10 ms into (5 ms, 10 ms)
			x = x - x%c16Quantum + c16Eps + 1 + r.Int63n(c16Quantum-c16Eps-1)
		}
		since := wd + cost - x
		if since < 0 || since > 60*c16Second {
			continue
		}
		if r.Intn(2) == 0 {
			return c16ArithCase("r", wd, since, chars)
		}
		// both times set: the later one (the smaller "ago") is `since`
		other := since
		switch r.Intn(5) {
		case 0: // equal
		case 1:
			other = -1 // unset
		case 2:
			other = since + 1 + r.Int63n(1000)
		default:
			other = since + r.Int63n(30*c16Second)
		}
		c := c16ArithCase("m", wd, since, chars)
		if r.Intn(2) == 0 {
			return append(c, strconv.FormatInt(other, 10)) // lastWrite is the later one
		}
		c[2] = strconv.FormatInt(other, 10) // lastRate is the later one
		return append(c, strconv.FormatInt(since, 10))
	}
}

func c16RunArith(c Case) Result {
	if len(c) != 4 && !(len(c) == 5 && c[0] == "m") {
		return Result{Obs: "?bad-args"}
	}
	wd, e1 := strconv.ParseInt(c[1], 10, 64)
	since, e2 := strconv.ParseInt(c[2], 10, 64)
	chars, e3 := strconv.ParseInt(c[3], 10, 64)
	if e1 != nil || e2 != nil || e3 != nil {
		return Result{Obs: "?bad-args"}
	}
	cost := c16Cost(chars)
	var nd, d time.Duration
	var obs, sig string
	if c[0] == "z" {
		nd, d = girc.VerifRateZero(time.Duration(wd), int(chars))
		obs = fmt.Sprintf("%d %d", int64(nd), int64(d))
		sig = "z"
	} else if c[0] == "m" {
		sinceRate, e4 := strconv.ParseInt(c[4], 10, 64)
		if e4 != nil {
			return Result{Obs: "?bad-args"}
		}
		adv := false
		for try := 0; try < 5000; try++ {
			t0 := time.Now()
			nd, d, adv = girc.VerifRateAt(time.Duration(wd), time.Duration(since), time.Duration(sinceRate), int(chars))
			if int64(time.Since(t0)) <= c16Eps {
				break
			}
		}
		obs = fmt.Sprintf("%d %d %s", int64(nd)/c16Quantum, int64(d), B(adv))
		sig = "m"
		switch {
		case since < 0 || sinceRate < 0:
			sig += "/unset"
		case since < sinceRate:
			sig += "/write-later"
		case since > sinceRate:
			sig += "/rate-later"
		default:
			sig += "/equal"
		}
		if !adv {
			oracle := "rate-lastrate-not-advanced: rate() left lastRate before the time of the call"
			return Result{Obs: obs, Oracle: oracle, Sig: sig}
		}
	} else {
		for try := 0; try < 5000; try++ {
			t0 := time.Now()
			nd, d = girc.VerifRate(time.Duration(wd), time.Duration(since), int(chars))
			if int64(time.Since(t0)) <= c16Eps {
				break
			}
		}
		obs = fmt.Sprintf("%d %d", int64(nd)/c16Quantum, int64(d))
		sig = "r"
	}
	switch {
	case nd == 0:
		sig += "/clamped"
	case int64(nd) == c16Threshold:
		sig += "/at8s"
	case int64(nd) < c16Threshold:
		sig += "/below"
	case int64(nd) <= c16Threshold+3:
		sig += "/just-above"
	default:
		sig += "/above"
	}
	if chars >= 700 {
		sig += "/cost>=8s"
	}
	oracle := ""
	switch {
	case nd < 0:
		oracle = fmt.Sprintf("rate-negative-delay: writeDelay %d after rate(%d)", nd, chars)
	case d != 0 && int64(d) != cost:
		oracle = fmt.Sprintf("rate-delay-not-cost: rate(%d) returned %d, the cost is %d", chars, d, cost)
	case int64(nd) > c16Threshold && int64(d) != cost:
		oracle = fmt.Sprintf("rate-not-held: writeDelay %d > 8s but rate(%d) returned %d", nd, chars, d)
	case int64(nd) <= c16Threshold && d != 0:
		oracle = fmt.Sprintf("rate-held-early: writeDelay %d <= 8s but rate(%d) returned %d", nd, chars, d)
	}
	return Result{Obs: obs, Oracle: oracle, Sig: sig}
}

// ---------------------------------------------------------------- rate.wire

type c16Arrival struct {
	line string
	at   time.Time
}

type c16Sess struct {
	c    *girc.Client
	peer net.Conn
	mu   sync.Mutex
	arr  []c16Arrival
	sig  chan struct{}
	done chan error
}

func c16Start(allowFlood bool) *c16Sess {
	return c16StartCfg(girc.Config{Server: "irc.test", Port: 6667, Nick: "me", User: "user", Name: "Real Name",
		AllowFlood: allowFlood, RecoverFunc: func(*girc.Client, *girc.HandlerError) {}})
}

func c16StartCfg(cfg girc.Config) *c16Sess {
	s := &c16Sess{sig: make(chan struct{}, 1), done: make(chan error, 1)}
	s.c = girc.New(cfg)
	in, out := net.Pipe()
	s.peer = in
	go func() {
		r := bufio.NewReader(in)
		for {
			l, err := r.ReadString('\n')
			if l != "" {
				now := time.Now()
				s.mu.Lock()
				s.arr = append(s.arr, c16Arrival{strings.TrimRight(l, "\r\n"), now})
				s.mu.Unlock()
				select {
				case s.sig <- struct{}{}:
				default:
				}
			}
			if err != nil {
				return
			}
		}
	}()
	go func() { s.done <- s.c.MockConnect(out) }()
	s.wait(func(a []c16Arrival) bool {
		for _, x := range a {
			if strings.HasPrefix(x.line, "USER ") {
				return true
			}
		}
		return false
	}, 10*time.Second)
	return s
}

func (s *c16Sess) snapshot() []c16Arrival {
	s.mu.Lock()
	defer s.mu.Unlock()
	return append([]c16Arrival(nil), s.arr...)
}

// wait until pred holds of the arrivals so far
func (s *c16Sess) wait(pred func([]c16Arrival) bool, d time.Duration) bool {
	deadline := time.Now().Add(d)
	for {
		if pred(s.snapshot()) {
			return true
		}
		left := time.Until(deadline)
		if left <= 0 {
			return false
		}
		if left > 20*time.Millisecond {
			left = 20 * time.Millisecond
		}
		select {
		case <-s.sig:
		case <-time.After(left):
		}
	}
}

func (s *c16Sess) stop() {
	s.c.Close()
	select {
	case <-s.done:
	case <-time.After(5 * time.Second):
	}
	s.peer.Close()
}

// idleUntil waits until the connection has not written for at least d and returns a lower
// bound of lastWrite (T0); ok is false if the client is not connected.
func (s *c16Sess) idleUntil(d time.Duration) (time.Time, bool) {
	for i := 0; i < 200; i++ {
		before := time.Now()
		_, since, ok := s.c.VerifRateState()
		if !ok {
			return time.Time{}, false
		}
		if since >= d {
			return before.Add(-since), true
		}
		time.Sleep(d - since + time.Millisecond)
	}
	return time.Time{}, false
}

func c16Text(id int, n int) string { // n = wanted e.Len() of "PRIVMSG #tt <text>"
	t := fmt.Sprintf("m%03d", id)
	if n-12 > len(t) {
		t += strings.Repeat("x", n-12-len(t))
	}
	return t
}

func c16Count(a []c16Arrival, prefix string) int {
	n := 0
	for _, x := range a {
		if strings.HasPrefix(x.line, prefix) {
			n++
		}
	}
	return n
}

type c16Sent struct {
	g, id    int
	cost     time.Duration
	s, ret   time.Time // before / after the Send call
	arrival  time.Time
	arrived  bool
	arrOrder int
}

// credit check, sound for any number of senders: if event j certainly was not held by the
// limiter (its Send returned in less than its cost), then the cost of everything whose Send
// had returned before j's Send began, plus j's own, fits in the 8 s allowance plus all the
// time that passed since T0 (the last write before the burst) until j's Send returned.
func c16CreditCheck(evs []*c16Sent, t0 time.Time) string {
	for _, j := range evs {
		if j.ret.Sub(j.s) >= j.cost {
			continue
		}
		sum := j.cost
		n := 1
		for _, i := range evs {
			if i != j && !i.ret.After(j.s) {
				sum += i.cost
				n++
			}
		}
		if allowed := 8*time.Second + j.ret.Sub(t0); sum > allowed {
			return fmt.Sprintf("event g%d/%d (the %dth to be sent) was not held although %.2fs of cost had been sent in %.2fs since the last write (allowance 8s + elapsed = %.2fs)",
				j.g, j.id, n, sum.Seconds(), j.ret.Sub(t0).Seconds(), allowed.Seconds())
		}
	}
	return ""
}

// ---- S: one sender, each line seen by the peer before the next Send; keep-alives inside

func c16RunSync(lens []int) (obs, oracle string) {
	for attempt := 0; ; attempt++ {
		obs, oracle, overhead := c16RunSyncOnce(lens)
		// the predicted pattern assumes less than 1.5 s of accumulated scheduling overhead
		if overhead < 1400*time.Millisecond || attempt >= 2 || oracle != "" {
			return obs, oracle
		}
	}
}

func c16RunSyncOnce(lens []int) (obs, oracle string, overhead time.Duration) {
	s := c16Start(false)
	defer s.stop()
	if len(lens) == 0 {
		return "S=", "", 0
	}
	first := time.Duration(c16Cost(int64(lens[0])))
	t0, ok := s.idleUntil(first)
	if !ok {
		return "S=?disconnected", "", 0
	}
	if time.Since(t0) > time.Hour {
		return "S=?unstamped", "lastwrite-unstamped: the registration lines were written but lastWrite is still unset: every rate call forgives everything", 0
	}
	var evs []*c16Sent
	var pat []byte
	var sum time.Duration
	prevRet := time.Time{}
	for i, n := range lens {
		e := &girc.Event{Command: girc.PRIVMSG, Params: []string{"#s0", c16Text(i, n)}}
		if e.Len() != n {
			return "?bad-len", "", 0
		}
		ev := &c16Sent{id: i, cost: time.Duration(c16Cost(int64(n)))}
		ev.s = time.Now()
		s.c.Send(e)
		ev.ret = time.Now()
		want := i + 1
		if !s.wait(func(a []c16Arrival) bool { return c16Count(a, "PRIVMSG #s0 ") >= want }, 15*time.Second) {
			return "S=?lost", fmt.Sprintf("line-lost: event %d never reached the peer", i), 0
		}
		dur := ev.ret.Sub(ev.s)
		if dur >= ev.cost {
			pat = append(pat, 'D')
			overhead += dur - ev.cost
		} else {
			pat = append(pat, 'U')
			overhead += dur
		}
		if !prevRet.IsZero() {
			overhead += ev.s.Sub(prevRet)
		}
		prevRet = ev.ret
		evs = append(evs, ev)
	}
	k := 0
	for _, a := range s.snapshot() {
		if strings.HasPrefix(a.line, "PRIVMSG #s0 ") && k < len(evs) {
			evs[k].arrival, evs[k].arrived = a.at, true
			if !strings.HasPrefix(a.line, "PRIVMSG #s0 "+fmt.Sprintf("m%03d", k)) && oracle == "" {
				oracle = fmt.Sprintf("reordered: line %d on the wire is %q", k, a.line[:20])
			}
			k++
		}
	}
	// the property on the implementation: line budget by arrival time, hold of each event
	// sent with the allowance used
	for i, ev := range evs {
		sum += ev.cost
		if oracle != "" {
			break
		}
		if allowed := 8*time.Second + ev.arrival.Sub(t0); sum > allowed {
			oracle = fmt.Sprintf("rate-exceeded: %d lines of total cost %.2fs were on the wire %.2fs after the last write before the burst (allowance 8s + elapsed = %.2fs)",
				i+1, sum.Seconds(), ev.arrival.Sub(t0).Seconds(), allowed.Seconds())
		} else if sum > 8*time.Second+ev.ret.Sub(t0) && ev.arrival.Sub(ev.s) < ev.cost {
			oracle = fmt.Sprintf("not-held: event %d sent with the allowance used was written %.3fs after Send, its cost is %.2fs", i, ev.arrival.Sub(ev.s).Seconds(), ev.cost.Seconds())
		}
	}
	if oracle == "" {
		if m := c16CreditCheck(evs, t0); m != "" {
			oracle = "sync-burst-unthrottled: " + m
		}
	}
	return "S=" + string(pat), oracle, overhead
}

// ---- P: keep-alives while a Send is being held

// rateStateNB reads the limiter state without ever blocking the scenario: ok is false when
// the read did not return within 100 ms (somebody is sitting on the connection lock).
func (s *c16Sess) rateStateNB() (wd time.Duration, ok bool) {
	ch := make(chan time.Duration, 1)
	go func() {
		w, _, _ := s.c.VerifRateState()
		ch <- w
	}()
	select {
	case w := <-ch:
		return w, true
	case <-time.After(100 * time.Millisecond):
		return 0, false
	}
}

// The allowance is used up (accumulated delay set to 20 s).  For the server's PING and for
// the client's own Cmd.Ping in turn: one goroutine starts a Send that is certainly held for
// its cost (>= 3 s); as soon as its rate call is seen (the accumulated delay has grown, or
// the limiter state cannot be read because the connection lock is being sat on), the
// keep-alive is requested.  It must reach the peer BEFORE the held PRIVMSG and in less
// than half the hold, both as seen by the peer.
func c16RunKeepalive(lens []int) (obs, oracle string) {
	s := c16Start(false)
	defer s.stop()
	if len(lens) != 2 || !s.c.VerifSetWriteDelay(20*time.Second) {
		return "P=?", ""
	}
	held, seen := 0, 0
	for round, n := range lens {
		target := fmt.Sprintf("#p%d", round)
		e := &girc.Event{Command: girc.PRIVMSG, Params: []string{target, c16Text(round, n)}}
		if e.Len() != n || n < 200 {
			return "?bad-len", ""
		}
		cost := time.Duration(c16Cost(int64(n)))
		wd0, ok := s.rateStateNB()
		if !ok {
			return "P=?locked", "keepalive-delayed: the connection lock is held although no Send is in progress"
		}
		var sendDur time.Duration
		done := make(chan struct{})
		go func() {
			t := time.Now()
			s.c.Send(e)
			sendDur = time.Since(t)
			close(done)
		}()
		for i := 0; i < 3000; i++ { // until the rate call of that Send is seen
			wd, ok := s.rateStateNB()
			if !ok || wd > wd0 {
				break
			}
			time.Sleep(time.Millisecond)
		}
		kind, prefix := "PONG", fmt.Sprintf("PONG kp%d", round)
		at := time.Now()
		if round == 0 {
			s.peer.Write([]byte(fmt.Sprintf("PING :kp%d\r\n", round)))
		} else {
			kind, prefix = "PING", fmt.Sprintf("PING kp%d", round)
			s.c.Cmd.Ping(fmt.Sprintf("kp%d", round))
		}
		<-done
		heldPrefix := "PRIVMSG " + target + " "
		if !s.wait(func(a []c16Arrival) bool { return c16Count(a, heldPrefix) >= 1 && c16Count(a, prefix) >= 1 }, 15*time.Second) {
			return "P=?lost", fmt.Sprintf("keepalive-lost: %s or the held event never written", prefix)
		}
		if sendDur < cost {
			return "P=?nothold", fmt.Sprintf("not-held: a %d-byte event sent with 20s of accumulated delay was not held (Send took %.3fs)", n, sendDur.Seconds())
		}
		ki, hi := -1, -1
		var karr time.Time
		for i, a := range s.snapshot() {
			if ki < 0 && strings.HasPrefix(a.line, prefix) {
				ki, karr = i, a.at
			}
			if hi < 0 && strings.HasPrefix(a.line, heldPrefix) {
				hi = i
			}
		}
		seen++
		if ki > hi || karr.Sub(at) >= cost/2 {
			held++
			if oracle == "" {
				order := "before"
				if ki > hi {
					order = "AFTER"
				}
				oracle = fmt.Sprintf("keepalive-delayed: %s reached the peer %.3fs after it was requested, %s the PRIVMSG that the limiter was holding for %.2fs at the time",
					kind, karr.Sub(at).Seconds(), order, cost.Seconds())
			}
		}
	}
	return fmt.Sprintf("P=%d/%d", held, seen), oracle
}

// ---- X: one sender uses the allowance up, then one Send that is split into pieces

func c16RunSplit(linelen int, lens []int, textlen int) (obs, oracle string) {
	s := c16Start(false)
	defer s.stop()
	if len(lens) != 5 {
		return "X=?", ""
	}
	s.peer.Write([]byte(fmt.Sprintf(":srv 005 me LINELEN=%d NICKLEN=9 :are supported by this server\r\n", linelen)))
	deadline := time.Now().Add(5 * time.Second)
	for s.c.MaxEventLength() > linelen && time.Now().Before(deadline) {
		time.Sleep(time.Millisecond)
	}
	max := s.c.MaxEventLength()
	if max > linelen || max < 97 {
		return fmt.Sprintf("X=?max%d", max), ""
	}
	t0, ok := s.idleUntil(time.Duration(c16Cost(int64(lens[0]))))
	if !ok {
		return "X=?disconnected", ""
	}
	var pat []byte
	var sum time.Duration
	for i, n := range lens {
		e := &girc.Event{Command: girc.PRIVMSG, Params: []string{"#x0", c16Text(i, n)}}
		if e.Len() != n || n >= max {
			return "?bad-len", ""
		}
		cost := time.Duration(c16Cost(int64(n)))
		t := time.Now()
		s.c.Send(e)
		if time.Since(t) >= cost {
			pat = append(pat, 'D')
		} else {
			pat = append(pat, 'U')
		}
		sum += cost
		want := i + 1
		if !s.wait(func(a []c16Arrival) bool { return c16Count(a, "PRIVMSG #x0 ") >= want }, 15*time.Second) {
			return "X=?lost", fmt.Sprintf("line-lost: event %d never reached the peer", i)
		}
	}
	// the long one: text without spaces, so the pieces concatenate back to it
	text := "L" + strings.Repeat("y", textlen-1)
	e := &girc.Event{Command: girc.PRIVMSG, Params: []string{"#x0", text}}
	ts := time.Now()
	s.c.Send(e)
	dur := time.Since(ts)
	time.Sleep(100 * time.Millisecond)
	var pieces []c16Arrival
	for _, a := range s.snapshot() {
		if strings.HasPrefix(a.line, "PRIVMSG #x0 ") && !strings.HasPrefix(a.line, "PRIVMSG #x0 m") {
			pieces = append(pieces, a)
		}
	}
	if len(pieces) < 2 {
		return fmt.Sprintf("X=?pieces%d", len(pieces)), ""
	}
	got := ""
	var acc time.Duration
	for i, p := range pieces {
		got += strings.TrimPrefix(strings.TrimPrefix(p.line, "PRIVMSG #x0 "), ":")
		cost := time.Duration(c16Cost(int64(len(p.line))))
		acc += cost
		sum += cost
		// every piece is an event of its own on the line budget: n lines may be on the wire
		// t after the last write before the burst only if their costs fit in 8 s + t (a piece
		// that is not rated, or not held, arrives with its predecessor and breaks it)
		if allowed := 8*time.Second + p.at.Sub(t0); sum > allowed && oracle == "" {
			oracle = fmt.Sprintf("rate-exceeded: piece %d of %d of a split PRIVMSG was on the wire %.2fs after the last write before the burst with %.2fs of cost written (allowance 8s + elapsed = %.2fs)",
				i+1, len(pieces), p.at.Sub(t0).Seconds(), sum.Seconds(), allowed.Seconds())
		}
	}
	if got != text && oracle == "" {
		oracle = "reordered: the pieces of the split PRIVMSG do not concatenate to the text sent"
	}
	d := "U"
	if dur >= acc {
		d = "D"
	}
	return "X=" + string(pat) + "/" + d, oracle
}

// ---- T: g senders in tight loops

func c16RunTight(g int, lens []int) (obs, oracle string) {
	s := c16Start(false)
	defer s.stop()
	if g <= 0 || len(lens) == 0 {
		return "T=?", ""
	}
	per := len(lens) / g
	// idle long enough for the largest first event: writeDelay is 0 and forgiven
	idle := time.Duration(0)
	for k := 0; k < g; k++ {
		if per > 0 {
			if c := time.Duration(c16Cost(int64(lens[k*per]))); c > idle {
				idle = c
			}
		}
	}
	t0, ok := s.idleUntil(idle + 200*time.Millisecond)
	if !ok {
		return "T=?disconnected", ""
	}
	all := make([][]*c16Sent, g)
	var wg sync.WaitGroup
	start := make(chan struct{})
	bad := false
	for k := 0; k < g; k++ {
		mine := lens[k*per : (k+1)*per]
		all[k] = make([]*c16Sent, len(mine))
		evs := make([]*girc.Event, len(mine))
		for i, n := range mine {
			evs[i] = &girc.Event{Command: girc.PRIVMSG, Params: []string{fmt.Sprintf("#t%d", k), c16Text(i, n)}}
			if evs[i].Len() != n {
				bad = true
			}
			all[k][i] = &c16Sent{g: k, id: i, cost: time.Duration(c16Cost(int64(n)))}
		}
		wg.Add(1)
		go func(k int) {
			defer wg.Done()
			<-start
			for i, e := range evs {
				all[k][i].s = time.Now()
				s.c.Send(e)
				all[k][i].ret = time.Now()
			}
		}(k)
	}
	if bad {
		close(start)
		wg.Wait()
		return "?bad-len", ""
	}
	close(start)
	wg.Wait()
	total := per * g
	if !s.wait(func(a []c16Arrival) bool { return c16Count(a, "PRIVMSG #t") >= total }, 15*time.Second) {
		oracle = fmt.Sprintf("line-lost: %d of %d events reached the peer", c16Count(s.snapshot(), "PRIVMSG #t"), total)
	}
	var sb strings.Builder
	sb.WriteString("T=")
	arr := s.snapshot()
	for k := 0; k < g; k++ {
		fmt.Fprintf(&sb, "g%d:", k)
		prefix := fmt.Sprintf("PRIVMSG #t%d m", k)
		last := -1
		for _, a := range arr {
			if strings.HasPrefix(a.line, prefix) && len(a.line) >= len(prefix)+3 {
				id, err := strconv.Atoi(a.line[len(prefix) : len(prefix)+3])
				if err != nil {
					id = -1
				}
				fmt.Fprintf(&sb, "%d,", id)
				if id <= last && oracle == "" {
					oracle = fmt.Sprintf("reordered: sender %d: event %d reached the wire after event %d", k, id, last)
				}
				last = id
				if id >= 0 && id < len(all[k]) {
					all[k][id].arrival, all[k][id].arrived = a.at, true
				}
			}
		}
		sb.WriteString(";")
	}
	var flat []*c16Sent
	for k := range all {
		flat = append(flat, all[k]...)
	}
	if oracle == "" {
		for _, ev := range flat { // time.After never fires early: a held event is written at least its cost after Send
			if ev.arrived && ev.ret.Sub(ev.s) >= ev.cost && ev.arrival.Sub(ev.s) < ev.cost {
				oracle = fmt.Sprintf("not-held: event g%d/%d written %.3fs after Send although Send took its cost %.2fs", ev.g, ev.id, ev.arrival.Sub(ev.s).Seconds(), ev.cost.Seconds())
			}
		}
	}
	if oracle == "" {
		if m := c16CreditCheck(flat, t0); m != "" {
			oracle = "tight-burst-unthrottled: " + m
		}
	}
	return sb.String(), oracle
}

// ---- F: AllowFlood

func c16RunFlood(n int) (obs, oracle string) {
	s := c16Start(true)
	defer s.stop()
	held := time.Duration(0)
	for i := 0; i < n; i++ {
		e := &girc.Event{Command: girc.PRIVMSG, Params: []string{"#f0", c16Text(i, 30)}}
		cost := time.Duration(c16Cost(int64(e.Len())))
		t := time.Now()
		s.c.Send(e)
		if d := time.Since(t); d >= cost {
			held += cost
			if oracle == "" {
				oracle = fmt.Sprintf("allowflood-delayed: Send of event %d took %.2fs with AllowFlood set (its cost is %.2fs)", i, d.Seconds(), cost.Seconds())
			}
		}
	}
	if !s.wait(func(a []c16Arrival) bool { return c16Count(a, "PRIVMSG #f0 ") >= n }, 15*time.Second) && oracle == "" {
		oracle = fmt.Sprintf("line-lost: %d of %d events reached the peer", c16Count(s.snapshot(), "PRIVMSG #f0 "), n)
	}
	order, k := "ordered", 0
	for _, a := range s.snapshot() {
		if strings.HasPrefix(a.line, "PRIVMSG #f0 ") {
			if !strings.HasPrefix(a.line, fmt.Sprintf("PRIVMSG #f0 m%03d", k)) {
				order = "reordered"
				if oracle == "" {
					oracle = fmt.Sprintf("reordered: line %d on the wire is %q", k, a.line)
				}
			}
			k++
		}
	}
	// events that Send splits: texts of 1x .. 6x MaxEventLength.  No wall clock: with AllowFlood
	// the limiter is never consulted, so writeDelay and lastRate are exactly what they were
	// before the Send (rate() always advances lastRate).
	rated := 0
	max := s.c.MaxEventLength()
	for m := 1; m <= 6 && rated == 0; m++ {
		w0, _, lr0, ok0 := s.c.VerifLimiterState()
		text := fmt.Sprintf("S%d", m) + strings.Repeat("y", m*max)
		cmd := girc.PRIVMSG
		if m%2 == 0 {
			cmd = girc.NOTICE
		}
		s.c.Send(&girc.Event{Command: cmd, Params: []string{"#f1", text}})
		w1, _, lr1, ok1 := s.c.VerifLimiterState()
		if ok0 && ok1 && (w1 != w0 || !lr1.Equal(lr0)) {
			rated++
			if oracle == "" {
				oracle = fmt.Sprintf("allowflood-delayed: with AllowFlood set, Send of a %s of %d x MaxEventLength (split into pieces) consulted the limiter: writeDelay %v -> %v, lastRate moved %v",
					cmd, m, w0, w1, !lr1.Equal(lr0))
			}
		}
	}
	return fmt.Sprintf("F=%d/%d/%s/rated%d", k, int64(held), order, rated), oracle
}

func c16Ints(f []string) ([]int, bool) {
	out := make([]int, len(f))
	for i, x := range f {
		v, err := strconv.Atoi(x)
		if err != nil {
			return nil, false
		}
		out[i] = v
	}
	return out, true
}

// the last argument is the sum of all bytes of the others (see Driver/DrvC16.v)
func c16Checksum(c Case) string {
	n := 0
	for _, a := range c {
		for i := 0; i < len(a); i++ {
			n += int(a[i])
		}
	}
	return strconv.Itoa(n)
}

func c16RunWire(c Case) Result {
	if len(c) == 0 || c[len(c)-1] != c16Checksum(c[:len(c)-1]) {
		return Result{Obs: "?bad-case"}
	}
	c = c[:len(c)-1]
	obs := make([]string, len(c))
	orc := make([]string, len(c))
	sigs := make([]string, len(c))
	var wg sync.WaitGroup
	for i := range c {
		f := strings.Split(c[i], " ")
		if f[0] == "H" && len(f) >= 3 {
			wg.Add(1)
			go func(i int, f []string) {
				defer wg.Done()
				obs[i], orc[i] = c16RunHelpers(f[1] == "1", f[2] == "1", f[3:])
				sigs[i] = "H" + f[1] + f[2]
			}(i, f)
			continue
		}
		nums, ok := c16Ints(f[1:])
		if !ok || len(f) < 2 {
			obs[i] = "?scenario"
			continue
		}
		switch f[0] {
		case "S":
			wg.Add(1)
			go func(i int) {
				defer wg.Done()
				obs[i], orc[i] = c16RunSync(nums)
				sigs[i] = fmt.Sprintf("S%d:%dU", len(nums), strings.Count(obs[i], "U"))
			}(i)
		case "P":
			wg.Add(1)
			go func(i int) {
				defer wg.Done()
				obs[i], orc[i] = c16RunKeepalive(nums)
				sigs[i] = "P"
			}(i)
		case "T":
			wg.Add(1)
			go func(i int) {
				defer wg.Done()
				obs[i], orc[i] = c16RunTight(nums[0], nums[1:])
				sigs[i] = fmt.Sprintf("T%dx%d", nums[0], len(nums)-1)
			}(i)
		case "F":
			wg.Add(1)
			go func(i int) {
				defer wg.Done()
				obs[i], orc[i] = c16RunFlood(nums[0])
				sigs[i] = "F"
			}(i)
		case "I":
			if len(nums) != 2 {
				obs[i] = "?scenario"
				continue
			}
			wg.Add(1)
			go func(i int) {
				defer wg.Done()
				obs[i], orc[i] = c16RunInboundWire(nums[0], nums[1])
				sigs[i] = "I"
			}(i)
		case "X":
			if len(nums) != 7 {
				obs[i] = "?scenario"
				continue
			}
			wg.Add(1)
			go func(i int) {
				defer wg.Done()
				obs[i], orc[i] = c16RunSplit(nums[0], nums[1:6], nums[6])
				sigs[i] = "X"
			}(i)
		default:
			obs[i] = "?scenario"
		}
	}
	wg.Wait()
	res := Result{}
	for i := range c {
		res.Obs += obs[i] + "|"
		// one oracle line per case: anything else takes precedence over the class of the
		// stale-lastWrite finding, so that a known finding can never hide another failure
		if orc[i] != "" && (res.Oracle == "" || strings.HasPrefix(res.Oracle, "tight-burst-unthrottled:")) {
			res.Oracle = orc[i]
		}
		if sigs[i] != "" {
			res.Sig += sigs[i] + " "
		}
	}
	res.Sig = strings.TrimSpace(res.Sig)
	return res
}

// lens for an S scenario: the first event short (its cost is the idle wait), then events of
// varied sizes whose prefix sums of cost stay out of (8 s, 9.5 s], then short ones.
func c16GenSyncLens(r *rand.Rand, n int) []int {
	for {
		lens := []int{16 + r.Intn(16)}
		var sum int64
		crossed := false
		ok := true
		for len(lens) < n {
			l := 16 + r.Intn(26)
			if !crossed {
				switch r.Intn(3) {
				case 0:
					l = 16 + r.Intn(300)
				case 1:
					l = 16 + r.Intn(120)
				}
			}
			sum += c16Cost(int64(l))
			if sum > c16Threshold {
				if !crossed && sum <= c16Threshold+3*c16Second/2 {
					ok = false
					break
				}
				crossed = true
			}
			lens = append(lens, l)
		}
		if ok && crossed {
			return lens
		}
	}
}

func c16Join(kind string, v []int) string {
	p := make([]string, len(v)+1)
	p[0] = kind
	for i, x := range v {
		p[i+1] = strconv.Itoa(x)
	}
	return strings.Join(p, " ")
}

func c16GenWire(r *rand.Rand) Case {
	n := 11 + r.Intn(4)
	sl := c16GenSyncLens(r, n)
	t1 := make([]int, 11+r.Intn(4))
	for i := range t1 {
		t1[i] = 16 + r.Intn(30)
	}
	per := 4 + r.Intn(2)
	t3 := make([]int, 3*per)
	for i := range t3 {
		t3[i] = 16 + r.Intn(40)
	}
	// X: LINELEN 196..230 (MaxEventLength 100..134 with NICKLEN=9), four events of 90..99 bytes
	// whose costs add up to 7.82..7.96 s (never held: <= 8 s), a text of 2.4..2.9 pieces: even
	// if every sleep inside the Send is forgiven, the last piece is rated at >= 7.82 + 1.45 s
	linelen := 196 + r.Intn(35)
	xl := []int{16 + r.Intn(15), 0, 0, 0, 0}
	for {
		total := 382 + r.Intn(15)
		xl[1], xl[2], xl[3] = 93+r.Intn(7), 93+r.Intn(7), 93+r.Intn(7)
		xl[4] = total - xl[1] - xl[2] - xl[3]
		if xl[4] >= 90 && xl[4] <= 99 {
			break
		}
	}
	textlen := (linelen - 96 - 13) * (24 + r.Intn(6)) / 10
	c := Case{c16Join("S", sl), c16Join("P", []int{200 + r.Intn(100), 200 + r.Intn(100)}), c16Join("T", append([]int{1}, t1...)),
		c16Join("T", append([]int{3}, t3...)), "F 50", c16Join("X", append(append([]int{linelen}, xl...), textlen))}
	c = append(c, c16Join("I", []int{1 + r.Intn(4), 3}))
	for _, v := range [][2]string{{"0", "0"}, {"1", "0"}, {"0", "1"}, {"1", "1"}} {
		names := c16AllHelperNames()
		r.Shuffle(len(names), func(i, j int) { names[i], names[j] = names[j], names[i] })
		names = append(names, "Client.Quit")
		c = append(c, "H "+v[0]+" "+v[1]+" "+strings.Join(names, " "))
	}
	return append(c, c16Checksum(c))
}

func init() {
	Register(&Suite{
		Name: "rate.arith",
		Prop: []string{"C16"},
		Fixed: func() []Case {
			var out []Case
			for _, chars := range []int64{0, 1, 99, 100, 512, 699, 700, 701, 1000} {
				cost := c16Cost(chars)
				for _, x := range []int64{-1, 0, 1, c16Threshold - 1, c16Threshold, c16Threshold + 1, cost} {
					if x <= cost {
						out = append(out, c16ArithCase("z", x-cost+c16MaxDur, 0, chars))
					}
				}
				out = append(out, c16ArithCase("z", 0, 0, chars))
			}
			// the later of lastWrite / lastRate is the one that counts, either way round
			for _, p := range [][2]int64{{2 * c16Second, 5 * c16Second}, {5 * c16Second, 2 * c16Second}, {3 * c16Second, 3 * c16Second}, {-1, 2 * c16Second}, {2 * c16Second, -1}} {
				// writeDelay 9 s, cost 1.3 s, 2 s forgiven -> 8.3 s: held; 5 s forgiven -> 5.3 s: not held
				out = append(out, append(c16ArithCase("m", 9*c16Second+c16Eps+1, p[0], 30), strconv.FormatInt(p[1], 10)))
			}
			// around the threshold on the real clock: at or below 8 s exactly is never held
			for _, wd := range []int64{0, 7 * c16Second, 8 * c16Second, 20 * c16Second} {
				cost := c16Cost(30)
				for _, x := range []int64{c16Threshold - c16Quantum + c16Eps + 1, c16Threshold + c16Eps + 1, c16Threshold + c16Quantum - 1} {
					if since := wd + cost - x; since >= 0 {
						out = append(out, c16ArithCase("r", wd, since, 30))
					}
				}
			}
			return out
		},
		Gen: c16GenArith,
		Run: c16RunArith,
	})
	Register(&Suite{
		Name: "rate.wire",
		Prop: []string{"C16"},
		Gen:  c16GenWire,
		Run:  c16RunWire,
	})
}

// ---------------------------------------------------------------- every exported sender

// c16Helper is one exported way of sending: its name (as in Model/Rate.v entry_points), a
// call that makes it send exactly `events` lines containing the token, and whether it is a
// keep-alive (routed around the limiter).
type c16Helper struct {
	name      string
	events    int
	keepalive bool
	call      func(c *girc.Client, tok string)
}

func c16SrcEvent(tok string, channel bool) girc.Event {
	e := girc.Event{Source: &girc.Source{Name: "n" + tok, Ident: "i", Host: "h"}, Command: girc.PRIVMSG, Params: []string{"me", "hi"}}
	if channel {
		e.Params[0] = "#" + tok
	}
	return e
}

// one row per exported method of *girc.Commands (a second row where a method has two send
// paths), plus Client.Send and Client.Quit.  Client.Quit must stay last (the connection
// ends once QUIT is written).
var c16Helpers = []c16Helper{
	{"Nick", 1, false, func(c *girc.Client, t string) { c.Cmd.Nick(t) }},
	{"Join", 1, false, func(c *girc.Client, t string) { c.Cmd.Join("#" + t) }},
	{"JoinKey", 1, false, func(c *girc.Client, t string) { c.Cmd.JoinKey("#"+t, "key") }},
	{"Part", 1, false, func(c *girc.Client, t string) { c.Cmd.Part("#" + t) }},
	{"PartMessage", 1, false, func(c *girc.Client, t string) { c.Cmd.PartMessage("#"+t, "bye") }},
	{"SendCTCP", 1, false, func(c *girc.Client, t string) { c.Cmd.SendCTCP(t, "VERSION", "") }},
	{"SendCTCPf", 1, false, func(c *girc.Client, t string) { c.Cmd.SendCTCPf(t, "PING", "%d", 7) }},
	{"SendCTCPReplyf", 1, false, func(c *girc.Client, t string) { c.Cmd.SendCTCPReplyf(t, "PING", "%d", 7) }},
	{"SendCTCPReply", 1, false, func(c *girc.Client, t string) { c.Cmd.SendCTCPReply(t, "VERSION", "v") }},
	{"Message", 1, false, func(c *girc.Client, t string) { c.Cmd.Message(t, "hello") }},
	{"Messagef", 1, false, func(c *girc.Client, t string) { c.Cmd.Messagef(t, "n=%d", 1) }},
	{"Reply", 1, false, func(c *girc.Client, t string) { c.Cmd.Reply(c16SrcEvent(t, true), "re") }},
	{"Reply/private", 1, false, func(c *girc.Client, t string) { c.Cmd.Reply(c16SrcEvent(t, false), "re") }},
	{"Replyf", 1, false, func(c *girc.Client, t string) { c.Cmd.Replyf(c16SrcEvent(t, true), "re %d", 2) }},
	{"ReplyTo", 1, false, func(c *girc.Client, t string) { c.Cmd.ReplyTo(c16SrcEvent(t, true), "re") }},
	{"ReplyTo/private", 1, false, func(c *girc.Client, t string) { c.Cmd.ReplyTo(c16SrcEvent(t, false), "re") }},
	{"ReplyTof", 1, false, func(c *girc.Client, t string) { c.Cmd.ReplyTof(c16SrcEvent(t, true), "re %d", 3) }},
	{"Action", 1, false, func(c *girc.Client, t string) { c.Cmd.Action(t, "waves") }},
	{"Actionf", 1, false, func(c *girc.Client, t string) { c.Cmd.Actionf(t, "waves %d", 4) }},
	{"Notice", 1, false, func(c *girc.Client, t string) { c.Cmd.Notice(t, "note") }},
	{"Noticef", 1, false, func(c *girc.Client, t string) { c.Cmd.Noticef(t, "note %d", 5) }},
	{"SendRaw", 1, false, func(c *girc.Client, t string) { c.Cmd.SendRaw("PRIVMSG " + t + " :raw text") }},
	{"SendRaw/other", 1, false, func(c *girc.Client, t string) { c.Cmd.SendRaw("VERSION " + t) }},
	{"SendRawf", 1, false, func(c *girc.Client, t string) { c.Cmd.SendRawf("NOTICE %s :raw %d", t, 6) }},
	{"Topic", 1, false, func(c *girc.Client, t string) { c.Cmd.Topic("#"+t, "topic") }},
	{"Who", 1, false, func(c *girc.Client, t string) { c.Cmd.Who(t) }},
	{"Whois", 1, false, func(c *girc.Client, t string) { c.Cmd.Whois(t) }},
	{"Ping", 1, true, func(c *girc.Client, t string) { c.Cmd.Ping(t) }},
	{"Pong", 1, true, func(c *girc.Client, t string) { c.Cmd.Pong(t) }},
	{"Oper", 1, false, func(c *girc.Client, t string) { c.Cmd.Oper(t, "pw") }},
	{"Kick", 1, false, func(c *girc.Client, t string) { c.Cmd.Kick("#"+t, "bob", "") }},
	{"Kick/reason", 2, false, func(c *girc.Client, t string) { c.Cmd.Kick("#"+t, "bob", "out") }},
	{"Ban", 1, false, func(c *girc.Client, t string) { c.Cmd.Ban("#"+t, "*!*@h") }},
	{"Unban", 1, false, func(c *girc.Client, t string) { c.Cmd.Unban("#"+t, "*!*@h") }},
	{"Mode", 1, false, func(c *girc.Client, t string) { c.Cmd.Mode("#"+t, "+o", "bob") }},
	{"Invite", 1, false, func(c *girc.Client, t string) { c.Cmd.Invite("#"+t, "bob") }},
	{"Away", 1, false, func(c *girc.Client, t string) { c.Cmd.Away("gone " + t) }},
	{"List", 1, false, func(c *girc.Client, t string) { c.Cmd.List("#" + t) }},
	{"Whowas", 1, false, func(c *girc.Client, t string) { c.Cmd.Whowas(t, 2) }},
	{"Monitor", 1, false, func(c *girc.Client, t string) { c.Cmd.Monitor('+', t) }},
	{"Client.Send", 1, false, func(c *girc.Client, t string) {
		c.Send(&girc.Event{Command: girc.PRIVMSG, Params: []string{t, "direct"}})
	}},
	{"Client.Quit", 1, false, func(c *girc.Client, t string) { c.Quit("bye " + t) }},
}

// Away("") / Back() and List() carry no argument a token could ride in: they are exercised
// with the distinct command words they alone produce in this scenario.
var c16HelpersNoToken = []c16Helper{
	{"Back", 1, false, func(c *girc.Client, t string) { c.Cmd.Back() }},
	{"Away/empty", 1, false, func(c *girc.Client, t string) { c.Cmd.Away("") }},
	{"List/all", 1, false, func(c *girc.Client, t string) { c.Cmd.List() }},
}

func c16HelperByName(name string) (c16Helper, bool) {
	for _, h := range c16Helpers {
		if h.name == name {
			return h, true
		}
	}
	for _, h := range c16HelpersNoToken {
		if h.name == name {
			return h, true
		}
	}
	return c16Helper{}, false
}

func c16AllHelperNames() []string {
	var out []string
	for _, h := range c16Helpers {
		if h.name != "Client.Quit" {
			out = append(out, h.name)
		}
	}
	for _, h := range c16HelpersNoToken {
		out = append(out, h.name)
	}
	return out
}

func c16BareLine(name string) string {
	switch name {
	case "Back", "Away/empty":
		return "AWAY"
	case "List/all":
		return "LIST"
	}
	return ""
}

// the line(s) a helper produced: by token, or for the token-less ones by exact line (never
// two senders of the same bare line in one batch, and a batch is over before the next starts)
func c16HelperMatch(name, tok string) func(line string) bool {
	if b := c16BareLine(name); b != "" {
		return func(l string) bool { return l == b }
	}
	return func(l string) bool { return strings.Contains(l, tok) }
}

// H: every exported sender, with the allowance used up (accumulated delay 30 s).  Helpers
// are started one after the other in batches of nine; a helper counts as started once
// either its line is at the peer (it was not rated at all) or the accumulated delay has
// grown (its rate call is done: it is sleeping).  After a batch is started a marker PING is
// sent through Cmd.Ping; an event that the limiter holds reaches the peer after the marker,
// at least its cost after the helper was called.
//
//	'H' rated and held   'r' rated, not held   'U' not rated   '?' unknown name   '!' stuck
func c16RunHelpers(gf, af bool, names []string) (obs, oracle string) {
	s := c16StartCfg(girc.Config{Server: "irc.test", Port: 6667, Nick: "me", User: "user", Name: "Real Name",
		AllowFlood: af, GlobalFormat: gf, RecoverFunc: func(*girc.Client, *girc.HandlerError) {}})
	defer s.stop()
	if !s.c.VerifSetWriteDelay(30 * time.Second) {
		return "H=?disconnected", ""
	}
	res := make([]byte, len(names))
	for i := range res {
		res[i] = '?'
	}
	type started struct {
		idx    int
		h      c16Helper
		tok    string
		at     time.Time
		rated  bool
		done   chan struct{}
		panicv interface{}
	}
	fail := func(msg string) {
		if oracle == "" {
			oracle = msg
		}
	}
	// batches of nine; Client.Quit alone (the connection ends once QUIT is written)
	var bounds [][2]int
	for lo := 0; lo < len(names); {
		hi := lo
		bare := map[string]bool{} // AWAY / LIST: at most one sender of each bare line per batch
		for hi < len(names) && hi-lo < 9 && (names[hi] != "Client.Quit" || hi == lo) {
			if b := c16BareLine(names[hi]); b != "" {
				if bare[b] {
					break
				}
				bare[b] = true
			}
			hi++
			if names[hi-1] == "Client.Quit" {
				break
			}
		}
		bounds = append(bounds, [2]int{lo, hi})
		lo = hi
	}
	batchNo := 0
	for _, bd := range bounds {
		lo, hi := bd[0], bd[1]
		var batch []*started
		for i := lo; i < hi; i++ {
			h, ok := c16HelperByName(names[i])
			if !ok {
				continue
			}
			st := &started{idx: i, h: h, tok: fmt.Sprintf("zq%02dx", i), done: make(chan struct{})}
			match := c16HelperMatch(h.name, st.tok)
			base := 0
			for _, a := range s.snapshot() {
				if match(a.line) {
					base++
				}
			}
			wd0, ok := s.rateStateNB()
			if !ok {
				res[i] = '!'
				fail("keepalive-delayed: the connection lock is held while no Send is being rated")
				continue
			}
			st.at = time.Now()
			go func() {
				defer func() { st.panicv = recover(); close(st.done) }()
				h.call(s.c, st.tok)
			}()
			decided := false
			for k := 0; k < 5000 && !decided; k++ {
				if wd, ok := s.rateStateNB(); !ok || wd > wd0 {
					st.rated, decided = true, true
					break
				}
				n := 0
				for _, a := range s.snapshot() {
					if match(a.line) {
						n++
					}
				}
				if n > base {
					decided = true
					break
				}
				time.Sleep(time.Millisecond)
			}
			if !decided {
				res[i] = '!'
				fail(fmt.Sprintf("line-lost: %s neither reached the limiter nor the wire within 5s", h.name))
				continue
			}
			batch = append(batch, st)
		}
		// the marker
		batchNo++
		mk := fmt.Sprintf("mk%02dq", batchNo)
		anyRated := false
		for _, st := range batch {
			anyRated = anyRated || st.rated
		}
		if anyRated { // nothing to order against otherwise (and after an unheld QUIT the connection is gone)
			s.c.Cmd.Ping(mk)
			if !s.wait(func(a []c16Arrival) bool { return c16Count(a, "PING "+mk) >= 1 }, 10*time.Second) {
				fail("keepalive-lost: marker PING never written")
			}
		}
		for _, st := range batch {
			select {
			case <-st.done:
			case <-time.After(20 * time.Second):
				fail(fmt.Sprintf("line-lost: %s did not return within 20s", st.h.name))
			}
			if st.panicv != nil {
				fail(fmt.Sprintf("panic: %s: %v", st.h.name, st.panicv))
			}
		}
		for _, st := range batch {
			match := c16HelperMatch(st.h.name, st.tok)
			want := st.h.events
			s.wait(func(a []c16Arrival) bool {
				n := 0
				for _, x := range a {
					if match(x.line) && !x.at.Before(st.at) {
						n++
					}
				}
				return n >= want
			}, 10*time.Second)
			arr := s.snapshot()
			mki := -1
			for i, a := range arr {
				if strings.HasPrefix(a.line, "PING "+mk) {
					mki = i
				}
			}
			n, afterMarker, early := 0, true, ""
			for i, a := range arr {
				if !match(a.line) || a.at.Before(st.at) {
					continue
				}
				n++
				if i < mki {
					afterMarker = false
				}
				if cost := time.Duration(c16Cost(int64(len(a.line)))); a.at.Sub(st.at) < cost {
					early = fmt.Sprintf("%q reached the peer %.3fs after %s was called, its cost is %.2fs", a.line, a.at.Sub(st.at).Seconds(), st.h.name, cost.Seconds())
				}
			}
			switch {
			case n < want:
				res[st.idx] = '!'
				fail(fmt.Sprintf("line-lost: %s wrote %d of %d lines", st.h.name, n, want))
			case !st.rated:
				res[st.idx] = 'U'
			case afterMarker && early == "":
				res[st.idx] = 'H'
			default:
				res[st.idx] = 'r'
			}
			// the property on the implementation
			switch {
			case res[st.idx] == '!':
			case st.h.keepalive || af:
				if res[st.idx] != 'U' {
					cls := "keepalive-delayed"
					if !st.h.keepalive {
						cls = "allowflood-delayed"
					}
					fail(fmt.Sprintf("%s: %s went through the limiter (GlobalFormat=%v AllowFlood=%v)", cls, st.h.name, gf, af))
				}
			case res[st.idx] == 'U':
				fail(fmt.Sprintf("limiter-bypassed: %s wrote its event without consulting the limiter although the allowance was used (GlobalFormat=%v)", st.h.name, gf))
			case res[st.idx] == 'r':
				fail(fmt.Sprintf("not-held: %s: %s (GlobalFormat=%v)", st.h.name, early, gf))
			}
		}
	}
	return "H=" + string(res), oracle
}

// ---------------------------------------------------------------- rate.entry (static)

// The route of every exported sender, read off the source of the repository under check
// (commands.go, client.go, conn.go): "send" if it reaches Client.Send only, "write" if it
// reaches the unthrottled Client.write (or the tx queue) only, "mixed" if both, "none".
// Client.Send itself is "send" when its body consults ircConn.rate.
func c16RepoDir() string {
	if d := os.Getenv("VERIF_REPO"); d != "" {
		return d
	}
	return "/repo"
}

var (
	c16RoutesOnce sync.Once
	c16Routes     map[string]string
)

func c16StaticRoutes() map[string]string {
	c16RoutesOnce.Do(func() {
		c16Routes = map[string]string{}
		fset := token.NewFileSet()
		direct := map[string]map[string]bool{} // method -> {"send","write"}
		deps := map[string][]string{}
		scan := func(file, recvType, prefix string) {
			f, err := parser.ParseFile(fset, filepath.Join(c16RepoDir(), file), nil, 0)
			if err != nil {
				return
			}
			for _, d := range f.Decls {
				fd, ok := d.(*ast.FuncDecl)
				if !ok || fd.Recv == nil || len(fd.Recv.List) != 1 || fd.Body == nil || !fd.Name.IsExported() {
					continue
				}
				st, ok := fd.Recv.List[0].Type.(*ast.StarExpr)
				if !ok {
					continue
				}
				id, ok := st.X.(*ast.Ident)
				if !ok || id.Name != recvType {
					continue
				}
				recv := ""
				if len(fd.Recv.List[0].Names) == 1 {
					recv = fd.Recv.List[0].Names[0].Name
				}
				name := prefix + fd.Name.Name
				direct[name] = map[string]bool{}
				ast.Inspect(fd.Body, func(n ast.Node) bool {
					switch x := n.(type) {
					case *ast.SendStmt: // something <- event
						direct[name]["write"] = true
					case *ast.CallExpr:
						sel, ok := x.Fun.(*ast.SelectorExpr)
						if !ok {
							return true
						}
						switch sel.Sel.Name {
						case "Send":
							direct[name]["send"] = true
						case "write":
							direct[name]["write"] = true
						case "rate":
							direct[name]["rate"] = true
						default:
							// a call of another method of the same receiver (cmd.Message, ...)
							if base, ok := sel.X.(*ast.Ident); ok && base.Name == recv && recvType == "Commands" {
								deps[name] = append(deps[name], sel.Sel.Name)
							}
							// c.Cmd.X from a Client method
							if inner, ok := sel.X.(*ast.SelectorExpr); ok && inner.Sel.Name == "Cmd" {
								deps[name] = append(deps[name], sel.Sel.Name)
							}
						}
					}
					return true
				})
			}
		}
		scan("commands.go", "Commands", "")
		var reach func(name string, seen map[string]bool) map[string]bool
		reach = func(name string, seen map[string]bool) map[string]bool {
			out := map[string]bool{}
			if seen[name] {
				return out
			}
			seen[name] = true
			for k := range direct[name] {
				out[k] = true
			}
			for _, d := range deps[name] {
				for k := range reach(d, seen) {
					out[k] = true
				}
			}
			return out
		}
		names := []string{}
		for n := range direct {
			names = append(names, n)
		}
		for _, n := range names {
			r := reach(n, map[string]bool{})
			switch {
			case r["send"] && r["write"]:
				c16Routes[n] = "mixed"
			case r["send"]:
				c16Routes[n] = "send"
			case r["write"]:
				c16Routes[n] = "write"
			default:
				c16Routes[n] = "none"
			}
		}
		// Client.Send (conn.go) and Client.Quit (client.go)
		direct, deps = map[string]map[string]bool{}, map[string][]string{}
		scan("conn.go", "Client", "Client.")
		scan("client.go", "Client", "Client.")
		if d, ok := direct["Client.Send"]; ok {
			switch {
			case d["rate"] && d["write"]:
				c16Routes["Client.Send"] = "send" // rate, sleep, write: the limited path itself
			case d["write"]:
				c16Routes["Client.Send"] = "write"
			default:
				c16Routes["Client.Send"] = "none"
			}
		}
		if d, ok := direct["Client.Quit"]; ok {
			switch {
			case d["send"] && d["write"]:
				c16Routes["Client.Quit"] = "mixed"
			case d["send"]:
				c16Routes["Client.Quit"] = "send"
			case d["write"]:
				c16Routes["Client.Quit"] = "write"
			default:
				c16Routes["Client.Quit"] = "none"
			}
		}
	})
	return c16Routes
}

func init() {
	Register(&Suite{
		Name:       "rate.entry",
		Prop:       []string{"C16"},
		Exhaustive: "every exported method of *Commands in commands.go, Client.Send and Client.Quit, plus every name of the model's entry-point table",
		Fixed: func() []Case {
			seen := map[string]bool{}
			var names []string
			add := func(n string) {
				if i := strings.IndexByte(n, '/'); i >= 0 {
					n = n[:i]
				}
				if !seen[n] {
					seen[n] = true
					names = append(names, n)
				}
			}
			for n := range c16StaticRoutes() {
				add(n)
			}
			for _, n := range c16AllHelperNames() {
				add(n)
			}
			add("Client.Quit")
			sort.Strings(names)
			out := make([]Case, len(names))
			for i, n := range names {
				out[i] = Case{n}
			}
			return out
		},
		Run: func(c Case) Result {
			if len(c) != 1 {
				return Result{Obs: "?bad-args"}
			}
			route, ok := c16StaticRoutes()[c[0]]
			if !ok {
				return Result{Obs: "absent", Sig: "absent"}
			}
			oracle := ""
			keep := c[0] == "Ping" || c[0] == "Pong"
			switch {
			case keep && route != "write":
				oracle = fmt.Sprintf("keepalive-delayed: %s does not go straight to Client.write (static route: %s)", c[0], route)
			case !keep && route != "send":
				oracle = fmt.Sprintf("limiter-bypassed: %s can reach the wire without Client.Send (static route: %s)", c[0], route)
			}
			if _, listed := c16HelperByName(c[0]); !listed {
				oracle = fmt.Sprintf("sender-unlisted: exported sender %s is not in the table of rate.wire scenario H", c[0])
			}
			return Result{Obs: route, Oracle: oracle, Sig: route}
		},
	})
}

// ---------------------------------------------------------------- rate.inbound

// The limiter state (writeDelay, lastWrite, lastRate) has two documented writers: rate(),
// called from Send, and sendLoop stamping lastWrite.  No handler of inbound traffic is one.
// A connected client's limiter is primed (VerifSetWriteDelay) and a history of inbound
// events — keep-alives, numerics, CAP/SASL, and the hostile generator of state.hostile —
// is fed through the handlers one event at a time; after every event the state is read back
// (VerifLimiterState):
//   AllowFlood on  (Send never rates): writeDelay and lastRate are exactly what they were;
//   AllowFlood off (handlers that Send — JOIN, nick collision — do rate): lastRate only moves
//     forward, writeDelay is unchanged if lastRate is, and never drops by more than the time
//     that passed;
//   lastWrite only moves forward, never beyond the clock.
// case: allowFlood, primed writeDelay (ns), then an encoded history.

func c16InboundEvent(r *rand.Rand) Ev {
	srv := func(cmd string, params ...string) Ev {
		return Ev{HasSrc: true, Name: "irc.test", Cmd: cmd, Params: params}
	}
	switch r.Intn(20) {
	case 0, 1, 2:
		return srv("PONG", "irc.test", Pick(r, "12345", "x", "", strconv.FormatInt(r.Int63(), 10)))
	case 3:
		return Ev{Cmd: "PONG", Params: []string{Pick(r, "tok", "")}}
	case 4:
		return Ev{Cmd: "PONG"}
	case 5, 6:
		return srv("PING", Pick(r, "irc.test", "abc def", ""))
	case 7:
		return srv("001", "me", "Welcome")
	case 8:
		return srv("005", "me", Pick(r, "NICKLEN=9", "LINELEN=400", "CHANMODES=b,k,l,imnpst"), Pick(r, "PREFIX=(ov)@+", "NETWORK=T"), "are supported by this server")
	case 9:
		return srv("CAP", Pick(r, "*", "me"), Pick(r, "LS", "ACK", "NAK", "NEW", "DEL", "LIST"), Pick(r, "multi-prefix sasl", "account-tag", "sts=port=6697", "*", ""))
	case 10:
		return Ev{Cmd: "AUTHENTICATE", Params: []string{Pick(r, "+", "abc", "")}}
	case 11:
		return srv(Pick(r, "900", "903", "904", "905", "906", "908"), "me", "text")
	case 12:
		return srv(Pick(r, "433", "436", "437"), "*", Pick(r, "me", "other"), "Nickname is already in use")
	case 13:
		return Ev{HasSrc: true, Name: "me", Ident: "user", Host: "h", Cmd: "JOIN", Params: []string{Pick(r, "#chan", "#other")}}
	case 14:
		return Ev{HasSrc: true, Name: "alice", Ident: "a", Host: "h", Cmd: "PRIVMSG", Params: []string{"me", Pick(r, "\x01VERSION\x01", "\x01PING 1\x01", "\x01TIME\x01", "hello")}}
	default:
		return hostileEvent(r)
	}
}

func c16SendsFromHandler(e Ev) bool { // handlers that answer through Send (rated when flood protection is on)
	switch e.Cmd {
	case "JOIN", "433", "436", "437":
		return true
	}
	return false
}

func c16GenInbound(r *rand.Rand) Case {
	af := r.Intn(3) != 0
	var wd int64
	if af {
		wd = []int64{0, 1, 5 * c16Second, c16Threshold, c16Threshold + 1, 20 * c16Second, 3600 * c16Second}[r.Intn(7)]
	} else {
		wd = []int64{1 * c16Second, 2 * c16Second, 2*c16Second + 1}[r.Intn(3)] // handler Sends stay below 8 s: none is held
	}
	n := 4 + r.Intn(20)
	var evs []Ev
	sends := 0
	for len(evs) < n {
		e := c16InboundEvent(r)
		if !af && c16SendsFromHandler(e) {
			if sends >= 2 {
				continue
			}
			sends++
		}
		evs = append(evs, e)
	}
	mode := "0"
	if af {
		mode = "1"
	}
	return append(Case{mode, strconv.FormatInt(wd, 10)}, EncodeHistory("feed", "me", "user", evs)...)
}

func c16RunInbound(c Case) Result {
	if len(c) < 5 {
		return Result{Obs: "?bad-args"}
	}
	af := c[0] == "1"
	wd, err := strconv.ParseInt(c[1], 10, 64)
	_, nick, user, evs, ok := DecodeHistory(c[2:])
	if err != nil || !ok {
		return Result{Obs: "?bad-args"}
	}
	cfg := drive.BaseConfig()
	cfg.Nick, cfg.User, cfg.AllowFlood = nick, user, af
	ss := &StateSession{}
	ss.Session = drive.Start(cfg)
	ss.C.Handlers.Add(girc.UPDATE_GENERAL, func(c *girc.Client, e girc.Event) { atomic.AddInt64(&ss.general, 1) })
	defer ss.Stop()
	ss.Settle(5*time.Millisecond, time.Second)
	if !ss.C.VerifSetWriteDelay(time.Duration(wd)) {
		return Result{Obs: "?disconnected"}
	}
	wdObs, lrObs, lwObs, oracle := "same", "same", "mono", ""
	if !af {
		wdObs, lrObs = "kept", "mono"
	}
	seen := map[string]bool{}
	check := func(what string, w0 time.Duration, lw0, lr0 time.Time, t0 time.Time) (time.Duration, time.Time, time.Time) {
		w1, lw1, lr1, ok := ss.C.VerifLimiterState()
		if !ok {
			return w0, lw0, lr0
		}
		elapsed := time.Since(t0)
		fail := func(slot *string, v, msg string) {
			*slot = v
			if oracle == "" {
				oracle = "limiter-state-touched: " + what + " " + msg
			}
		}
		switch {
		case af && w1 != w0:
			fail(&wdObs, "CHANGED", fmt.Sprintf("changed writeDelay from %v to %v (AllowFlood: nothing rates)", w0, w1))
		case !af && lr1.Equal(lr0) && w1 != w0:
			fail(&wdObs, "CHANGED", fmt.Sprintf("changed writeDelay from %v to %v without a rate call", w0, w1))
		case !af && w1 < w0-elapsed:
			fail(&wdObs, "LOWERED", fmt.Sprintf("lowered writeDelay from %v to %v in %v", w0, w1, elapsed))
		}
		switch {
		case af && !lr1.Equal(lr0):
			fail(&lrObs, "CHANGED", "moved lastRate (AllowFlood: nothing rates)")
		case lr1.Before(lr0) || lr1.After(time.Now()):
			fail(&lrObs, "BACK", "moved lastRate backwards or beyond the clock")
		}
		if lw1.Before(lw0) || lw1.After(time.Now()) {
			fail(&lwObs, "BACK", "moved lastWrite backwards or beyond the clock")
		}
		return w1, lw1, lr1
	}
	w, lw, lr, _ := ss.C.VerifLimiterState()
	for i, e := range evs {
		seen[e.Cmd] = true
		t0 := time.Now()
		returned := make(chan struct{})
		go func(e Ev) { ss.Apply(e); close(returned) }(e)
		select {
		case <-returned:
		case <-time.After(20 * time.Second):
			return Result{Obs: "WEDGED", Oracle: fmt.Sprintf("liveness: the handlers of inbound event %d (%s) did not return", i, e.Cmd), Sig: "wedged"}
		}
		w, lw, lr = check(fmt.Sprintf("the handlers of inbound event %d (%s %q)", i, e.Cmd, e.Params), w, lw, lr, t0)
	}
	// background handlers (CTCP repliers, welcome) and sendLoop settle
	t0 := time.Now()
	ss.Settle(10*time.Millisecond, 2*time.Second)
	check("a background handler after the history", w, lw, lr, t0)
	if ss.PanicCount() > 0 && oracle == "" {
		oracle = "panic: a handler panicked"
	}
	sig := "flood-on"
	if af {
		sig = "allowflood"
	}
	if seen["PONG"] {
		sig += "/pong"
	}
	if seen["PING"] {
		sig += "/ping"
	}
	if seen["JOIN"] || seen["433"] || seen["436"] || seen["437"] {
		sig += "/handler-send"
	}
	return Result{Obs: "wd=" + wdObs + " lr=" + lrObs + " lw=" + lwObs, Oracle: oracle, Sig: sig}
}

// ---- I: unsolicited keep-alives from the server do not give the allowance back

func c16RunInboundWire(npong, nsend int) (obs, oracle string) {
	s := c16Start(false)
	defer s.stop()
	if !s.c.VerifSetWriteDelay(20 * time.Second) {
		return "I=?disconnected", ""
	}
	t0 := time.Now()
	for i := 0; i < npong; i++ {
		s.peer.Write([]byte(fmt.Sprintf(":irc.test PONG irc.test :unsolicited%d\r\n", i)))
		if i%2 == 1 {
			s.peer.Write([]byte(fmt.Sprintf("PING :between%d\r\n", i)))
		}
	}
	// lines are handled in order: once this PING is answered the PONGs before it have been
	s.peer.Write([]byte("PING :sync-i\r\n"))
	if !s.wait(func(a []c16Arrival) bool { return c16Count(a, "PONG sync-i") >= 1 }, 10*time.Second) {
		return "I=?nosync", "keepalive-lost: PING after the unsolicited PONGs was not answered"
	}
	time.Sleep(20 * time.Millisecond) // background handlers of the same lines
	if wd, ok := s.rateStateNB(); ok && wd < 20*time.Second-time.Since(t0) && oracle == "" {
		oracle = fmt.Sprintf("limiter-state-touched: %d unsolicited PONGs from the server lowered the accumulated delay from 20s to %v in %v", npong, wd, time.Since(t0).Round(time.Millisecond))
	}
	type sent struct {
		tok   string
		at    time.Time
		rated bool
		done  chan struct{}
	}
	var batch []*sent
	for j := 0; j < nsend; j++ {
		st := &sent{tok: fmt.Sprintf("zi%02dx", j), done: make(chan struct{})}
		wd0, _ := s.rateStateNB()
		st.at = time.Now()
		go func() {
			defer close(st.done)
			s.c.Cmd.Message("#i0", st.tok)
		}()
		for k := 0; k < 5000; k++ {
			if wd, ok := s.rateStateNB(); !ok || wd > wd0 {
				st.rated = true
				break
			}
			if c16Count(s.snapshot(), "PRIVMSG #i0 "+st.tok) > 0 {
				break
			}
			time.Sleep(time.Millisecond)
		}
		batch = append(batch, st)
	}
	s.c.Cmd.Ping("mk-i")
	s.wait(func(a []c16Arrival) bool { return c16Count(a, "PING mk-i") >= 1 }, 10*time.Second)
	res := make([]byte, 0, nsend)
	for _, st := range batch {
		select {
		case <-st.done:
		case <-time.After(20 * time.Second):
		}
		prefix := "PRIVMSG #i0 " + st.tok
		s.wait(func(a []c16Arrival) bool { return c16Count(a, prefix) >= 1 }, 10*time.Second)
		mki, li := -1, -1
		var lat time.Time
		for i, a := range s.snapshot() {
			if strings.HasPrefix(a.line, "PING mk-i") {
				mki = i
			}
			if li < 0 && strings.HasPrefix(a.line, prefix) {
				li, lat = i, a.at
			}
		}
		cost := time.Duration(c16Cost(int64(len(prefix))))
		switch {
		case li < 0:
			res = append(res, '!')
			if oracle == "" {
				oracle = "line-lost: a PRIVMSG sent after the unsolicited PONGs never reached the peer"
			}
		case st.rated && li > mki && lat.Sub(st.at) >= cost:
			res = append(res, 'H')
		default:
			res = append(res, 'U')
			if oracle == "" {
				oracle = fmt.Sprintf("not-held: after %d unsolicited PONGs from the server, %q sent with 20s of accumulated delay reached the peer %.3fs after the call (cost %.2fs), %s",
					npong, prefix, lat.Sub(st.at).Seconds(), cost.Seconds(), map[bool]string{true: "after", false: "BEFORE"}[li > mki]+" the marker")
			}
		}
	}
	return "I=" + string(res), oracle
}

func init() {
	Register(&Suite{
		Name: "rate.inbound",
		Prop: []string{"C16"},
		Fixed: func() []Case {
			pong := Ev{HasSrc: true, Name: "irc.test", Cmd: "PONG", Params: []string{"irc.test", "12345"}}
			ping := Ev{HasSrc: true, Name: "irc.test", Cmd: "PING", Params: []string{"irc.test"}}
			join := Ev{HasSrc: true, Name: "me", Ident: "user", Host: "h", Cmd: "JOIN", Params: []string{"#chan"}}
			var out []Case
			for _, m := range []string{"0", "1"} {
				for _, wd := range []string{"2000000000", "9000000000"} {
					if m == "0" && wd != "2000000000" {
						continue
					}
					out = append(out, append(Case{m, wd}, EncodeHistory("feed", "me", "user", []Ev{pong})...),
						append(Case{m, wd}, EncodeHistory("feed", "me", "user", []Ev{ping, pong, join, pong})...))
				}
			}
			return out
		},
		Gen: c16GenInbound,
		Run: c16RunInbound,
	})
}
