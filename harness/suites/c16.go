package suites

// C16 — flood protection bounds the send rate.
//
// rate.arith: ircConn.rate against the model, exactly.  rate() reads the real clock
// (time.Since(lastWrite)), so an exact comparison needs a clock reading that does not
// depend on when the call happens:
//   kind "z": hook VerifRateZero leaves lastWrite at the zero Time; time.Since of the zero
//             Time saturates at 1<<63-1 ns whatever the clock reads, so the result is an
//             exact function of (writeDelay, chars).  writeDelay is chosen near
//             1<<63-1 - cost so that the sum lands on and around 0 and 8 s: every
//             comparison and constant of rate() is exercised to the nanosecond.
//   kind "r": hook VerifRate sets lastWrite = now - since; rate() reads the clock eps >= 0
//             later.  The call is bracketed by two clock readings and repeated until the
//             bracket is <= 5 ms (eps <= bracket); the observation is floor(wd'/10ms) and
//             the delay, and the generator only emits cases whose observation is the same
//             for every eps in [0, 5 ms] (wd+cost-since <= 0, or its residue mod 10 ms is
//             > 5 ms; the 8 s threshold is a multiple of 10 ms).  No tolerance is left to
//             chance: a slow machine repeats the call, it cannot change the observation.
//   kind "m": hook VerifRateAt sets lastWrite = now - since and lastRate = now - sinceRate
//             (negative = unset): the time forgiven is the time since the LATER of the two;
//             same observation as "r" plus whether lastRate was advanced by the call.
//
// rate.wire: connected scenarios against a peer that timestamps every line.  Only lower
// bounds on arrival times are ever required (a loaded machine makes things later, never
// earlier), except "keep-alive not held" / "AllowFlood not held", which are stated as
// "took less than the event's own cost (>= 1 s)".

import (
	"bufio"
	"fmt"
	"math"
	"math/rand"
	"net"
	"strconv"
	"strings"
	"sync"
	"time"

	"github.com/lrstanley/girc"
)

const (
	c16Second    = int64(time.Second)
	c16Threshold = 8 * c16Second
	c16MaxDur    = int64(math.MaxInt64)
	c16Quantum   = int64(10 * time.Millisecond)
	c16Eps       = int64(5 * time.Millisecond)
)

func c16Cost(chars int64) int64 { return c16Second + chars*c16Second/100 }

// ---------------------------------------------------------------- rate.arith

func c16ArithCase(kind string, wd, since, chars int64) Case {
	return Case{kind, strconv.FormatInt(wd, 10), strconv.FormatInt(since, 10), strconv.FormatInt(chars, 10)}
}

// interesting values of x = writeDelay + cost - elapsed
func c16PickX(r *rand.Rand, cost int64) int64 {
	switch r.Intn(12) {
	case 0:
		return 0
	case 1:
		return int64(r.Intn(5)) - 2
	case 2:
		return c16Threshold
	case 3:
		return c16Threshold + int64(r.Intn(7)) - 3
	case 4:
		return c16Threshold + int64(r.Intn(2000001)) - 1000000
	case 5:
		return -r.Int63n(20 * c16Second)
	case 6:
		return r.Int63n(c16Threshold + 1)
	case 7:
		return c16Threshold + r.Int63n(30*c16Second)
	case 8:
		return cost
	case 9:
		return cost - int64(r.Intn(3))
	default:
		return r.Int63n(2*c16Threshold) - c16Second
	}
}

func c16GenArith(r *rand.Rand) Case {
	if r.Intn(3) == 0 { // exact kind
		var chars int64
		switch r.Intn(6) {
		case 0:
			chars = 699 + int64(r.Intn(4)) // cost = 7.99 .. 8.02 s
		case 1:
			chars = int64(r.Intn(6000))
		case 2:
			chars = 700 + int64(r.Intn(3000))
		default:
			chars = int64(r.Intn(512))
		}
		cost := c16Cost(chars)
		if r.Intn(8) == 0 { // any accumulated delay at all
			return c16ArithCase("z", r.Int63(), 0, chars)
		}
		x := c16PickX(r, cost)
		if x > cost { // writeDelay <= MaxInt64 bounds x by cost
			x = cost - r.Int63n(cost)
		}
		return c16ArithCase("z", x-cost+c16MaxDur, 0, chars)
	}
	for {
		chars := int64(r.Intn(520))
		cost := c16Cost(chars)
		wd := r.Int63n(30 * c16Second)
		if r.Intn(4) == 0 {
			wd = 0
		}
		x := c16PickX(r, cost)
		if x > 0 { // move the residue mod 10 ms into (5 ms, 10 ms)
			x = x - x%c16Quantum + c16Eps + 1 + r.Int63n(c16Quantum-c16Eps-1)
		}
		since := wd + cost - x
		if since < 0 || since > 60*c16Second {
			continue
		}
		if r.Intn(2) == 0 {
			return c16ArithCase("r", wd, since, chars)
		}
		// both times set: the later one (the smaller "ago") is `since`
		other := since
		switch r.Intn(5) {
		case 0: // equal
		case 1:
			other = -1 // unset
		case 2:
			other = since + 1 + r.Int63n(1000)
		default:
			other = since + r.Int63n(30*c16Second)
		}
		c := c16ArithCase("m", wd, since, chars)
		if r.Intn(2) == 0 {
			return append(c, strconv.FormatInt(other, 10)) // lastWrite is the later one
		}
		c[2] = strconv.FormatInt(other, 10) // lastRate is the later one
		return append(c, strconv.FormatInt(since, 10))
	}
}

func c16RunArith(c Case) Result {
	if len(c) != 4 && !(len(c) == 5 && c[0] == "m") {
		return Result{Obs: "?bad-args"}
	}
	wd, e1 := strconv.ParseInt(c[1], 10, 64)
	since, e2 := strconv.ParseInt(c[2], 10, 64)
	chars, e3 := strconv.ParseInt(c[3], 10, 64)
	if e1 != nil || e2 != nil || e3 != nil {
		return Result{Obs: "?bad-args"}
	}
	cost := c16Cost(chars)
	var nd, d time.Duration
	var obs, sig string
	if c[0] == "z" {
		nd, d = girc.VerifRateZero(time.Duration(wd), int(chars))
		obs = fmt.Sprintf("%d %d", int64(nd), int64(d))
		sig = "z"
	} else if c[0] == "m" {
		sinceRate, e4 := strconv.ParseInt(c[4], 10, 64)
		if e4 != nil {
			return Result{Obs: "?bad-args"}
		}
		adv := false
		for try := 0; try < 5000; try++ {
			t0 := time.Now()
			nd, d, adv = girc.VerifRateAt(time.Duration(wd), time.Duration(since), time.Duration(sinceRate), int(chars))
			if int64(time.Since(t0)) <= c16Eps {
				break
			}
		}
		obs = fmt.Sprintf("%d %d %s", int64(nd)/c16Quantum, int64(d), B(adv))
		sig = "m"
		switch {
		case since < 0 || sinceRate < 0:
			sig += "/unset"
		case since < sinceRate:
			sig += "/write-later"
		case since > sinceRate:
			sig += "/rate-later"
		default:
			sig += "/equal"
		}
		if !adv {
			oracle := "rate-lastrate-not-advanced: rate() left lastRate before the time of the call"
			return Result{Obs: obs, Oracle: oracle, Sig: sig}
		}
	} else {
		for try := 0; try < 5000; try++ {
			t0 := time.Now()
			nd, d = girc.VerifRate(time.Duration(wd), time.Duration(since), int(chars))
			if int64(time.Since(t0)) <= c16Eps {
				break
			}
		}
		obs = fmt.Sprintf("%d %d", int64(nd)/c16Quantum, int64(d))
		sig = "r"
	}
	switch {
	case nd == 0:
		sig += "/clamped"
	case int64(nd) == c16Threshold:
		sig += "/at8s"
	case int64(nd) < c16Threshold:
		sig += "/below"
	case int64(nd) <= c16Threshold+3:
		sig += "/just-above"
	default:
		sig += "/above"
	}
	if chars >= 700 {
		sig += "/cost>=8s"
	}
	oracle := ""
	switch {
	case nd < 0:
		oracle = fmt.Sprintf("rate-negative-delay: writeDelay %d after rate(%d)", nd, chars)
	case d != 0 && int64(d) != cost:
		oracle = fmt.Sprintf("rate-delay-not-cost: rate(%d) returned %d, the cost is %d", chars, d, cost)
	case int64(nd) > c16Threshold && int64(d) != cost:
		oracle = fmt.Sprintf("rate-not-held: writeDelay %d > 8s but rate(%d) returned %d", nd, chars, d)
	case int64(nd) <= c16Threshold && d != 0:
		oracle = fmt.Sprintf("rate-held-early: writeDelay %d <= 8s but rate(%d) returned %d", nd, chars, d)
	}
	return Result{Obs: obs, Oracle: oracle, Sig: sig}
}

// ---------------------------------------------------------------- rate.wire

type c16Arrival struct {
	line string
	at   time.Time
}

type c16Sess struct {
	c    *girc.Client
	peer net.Conn
	mu   sync.Mutex
	arr  []c16Arrival
	sig  chan struct{}
	done chan error
}

func c16Start(allowFlood bool) *c16Sess {
	s := &c16Sess{sig: make(chan struct{}, 1), done: make(chan error, 1)}
	s.c = girc.New(girc.Config{Server: "irc.test", Port: 6667, Nick: "me", User: "user", Name: "Real Name",
		AllowFlood: allowFlood, RecoverFunc: func(*girc.Client, *girc.HandlerError) {}})
	in, out := net.Pipe()
	s.peer = in
	go func() {
		r := bufio.NewReader(in)
		for {
			l, err := r.ReadString('\n')
			if l != "" {
				now := time.Now()
				s.mu.Lock()
				s.arr = append(s.arr, c16Arrival{strings.TrimRight(l, "\r\n"), now})
				s.mu.Unlock()
				select {
				case s.sig <- struct{}{}:
				default:
				}
			}
			if err != nil {
				return
			}
		}
	}()
	go func() { s.done <- s.c.MockConnect(out) }()
	s.wait(func(a []c16Arrival) bool {
		for _, x := range a {
			if strings.HasPrefix(x.line, "USER ") {
				return true
			}
		}
		return false
	}, 10*time.Second)
	return s
}

func (s *c16Sess) snapshot() []c16Arrival {
	s.mu.Lock()
	defer s.mu.Unlock()
	return append([]c16Arrival(nil), s.arr...)
}

// wait until pred holds of the arrivals so far
func (s *c16Sess) wait(pred func([]c16Arrival) bool, d time.Duration) bool {
	deadline := time.Now().Add(d)
	for {
		if pred(s.snapshot()) {
			return true
		}
		left := time.Until(deadline)
		if left <= 0 {
			return false
		}
		if left > 20*time.Millisecond {
			left = 20 * time.Millisecond
		}
		select {
		case <-s.sig:
		case <-time.After(left):
		}
	}
}

func (s *c16Sess) stop() {
	s.c.Close()
	select {
	case <-s.done:
	case <-time.After(5 * time.Second):
	}
	s.peer.Close()
}

// idleUntil waits until the connection has not written for at least d and returns a lower
// bound of lastWrite (T0); ok is false if the client is not connected.
func (s *c16Sess) idleUntil(d time.Duration) (time.Time, bool) {
	for i := 0; i < 200; i++ {
		before := time.Now()
		_, since, ok := s.c.VerifRateState()
		if !ok {
			return time.Time{}, false
		}
		if since >= d {
			return before.Add(-since), true
		}
		time.Sleep(d - since + time.Millisecond)
	}
	return time.Time{}, false
}

func c16Text(id int, n int) string { // n = wanted e.Len() of "PRIVMSG #tt <text>"
	t := fmt.Sprintf("m%03d", id)
	if n-12 > len(t) {
		t += strings.Repeat("x", n-12-len(t))
	}
	return t
}

func c16Count(a []c16Arrival, prefix string) int {
	n := 0
	for _, x := range a {
		if strings.HasPrefix(x.line, prefix) {
			n++
		}
	}
	return n
}

type c16Sent struct {
	g, id    int
	cost     time.Duration
	s, ret   time.Time // before / after the Send call
	arrival  time.Time
	arrived  bool
	arrOrder int
}

// credit check, sound for any number of senders: if event j certainly was not held by the
// limiter (its Send returned in less than its cost), then the cost of everything whose Send
// had returned before j's Send began, plus j's own, fits in the 8 s allowance plus all the
// time that passed since T0 (the last write before the burst) until j's Send returned.
func c16CreditCheck(evs []*c16Sent, t0 time.Time) string {
	for _, j := range evs {
		if j.ret.Sub(j.s) >= j.cost {
			continue
		}
		sum := j.cost
		n := 1
		for _, i := range evs {
			if i != j && !i.ret.After(j.s) {
				sum += i.cost
				n++
			}
		}
		if allowed := 8*time.Second + j.ret.Sub(t0); sum > allowed {
			return fmt.Sprintf("event g%d/%d (the %dth to be sent) was not held although %.2fs of cost had been sent in %.2fs since the last write (allowance 8s + elapsed = %.2fs)",
				j.g, j.id, n, sum.Seconds(), j.ret.Sub(t0).Seconds(), allowed.Seconds())
		}
	}
	return ""
}

// ---- S: one sender, each line seen by the peer before the next Send; keep-alives inside

func c16RunSync(lens []int, pongAt, pingAt int) (obs, pobs, oracle string) {
	for attempt := 0; ; attempt++ {
		obs, pobs, oracle, overhead := c16RunSyncOnce(lens, pongAt, pingAt)
		// the predicted pattern assumes less than 1.5 s of accumulated scheduling overhead
		if overhead < 1400*time.Millisecond || attempt >= 2 || oracle != "" {
			return obs, pobs, oracle
		}
	}
}

func c16RunSyncOnce(lens []int, pongAt, pingAt int) (obs, pobs, oracle string, overhead time.Duration) {
	s := c16Start(false)
	defer s.stop()
	if len(lens) == 0 {
		return "S=", "P=0/0", "", 0
	}
	first := time.Duration(c16Cost(int64(lens[0])))
	t0, ok := s.idleUntil(first)
	if !ok {
		return "S=?disconnected", "P=?", "", 0
	}
	if time.Since(t0) > time.Hour {
		return "S=?unstamped", "P=?", "lastwrite-unstamped: the registration lines were written but lastWrite is still unset: every rate call forgives everything", 0
	}
	tok := strings.Repeat("k", 150)
	var kaMu sync.Mutex
	kaHeld, kaSeen := 0, 0
	var kaWG sync.WaitGroup
	keepalive := func(inject func(), prefix string) {
		defer kaWG.Done()
		time.Sleep(50 * time.Millisecond)
		at := time.Now()
		inject()
		var arr time.Time
		got := s.wait(func(a []c16Arrival) bool {
			for _, x := range a {
				if strings.HasPrefix(x.line, prefix) {
					arr = x.at
					return true
				}
			}
			return false
		}, 20*time.Second)
		kaMu.Lock()
		defer kaMu.Unlock()
		if !got {
			if oracle == "" {
				oracle = "keepalive-lost: " + prefix + " never written"
			}
			return
		}
		kaSeen++
		own := time.Duration(c16Cost(int64(len(prefix) + len(tok))))
		if arr.Sub(at) >= own {
			kaHeld++
			if oracle == "" {
				oracle = fmt.Sprintf("keepalive-delayed: %s written %.2fs after it was requested while the limiter was holding events (its own cost would be %.2fs)",
					strings.TrimSpace(prefix), arr.Sub(at).Seconds(), own.Seconds())
			}
		}
	}
	var evs []*c16Sent
	var pat []byte
	var sum time.Duration
	prevRet := time.Time{}
	for i, n := range lens {
		e := &girc.Event{Command: girc.PRIVMSG, Params: []string{"#s0", c16Text(i, n)}}
		if e.Len() != n {
			return "?bad-len", "P=?", "", 0
		}
		ev := &c16Sent{id: i, cost: time.Duration(c16Cost(int64(n)))}
		if i == pongAt {
			kaWG.Add(1)
			go keepalive(func() { s.peer.Write([]byte("PING :pp" + tok + "\r\n")) }, "PONG pp")
		}
		if i == pingAt {
			kaWG.Add(1)
			go keepalive(func() { s.c.Cmd.Ping("cc" + tok) }, "PING cc")
		}
		ev.s = time.Now()
		s.c.Send(e)
		ev.ret = time.Now()
		want := i + 1
		if !s.wait(func(a []c16Arrival) bool { return c16Count(a, "PRIVMSG #s0 ") >= want }, 15*time.Second) {
			kaWG.Wait()
			return "S=?lost", "P=?", fmt.Sprintf("line-lost: event %d never reached the peer", i), 0
		}
		dur := ev.ret.Sub(ev.s)
		if dur >= ev.cost {
			pat = append(pat, 'D')
			overhead += dur - ev.cost
		} else {
			pat = append(pat, 'U')
			overhead += dur
		}
		if !prevRet.IsZero() {
			overhead += ev.s.Sub(prevRet)
		}
		prevRet = ev.ret
		evs = append(evs, ev)
	}
	kaWG.Wait()
	k := 0
	for _, a := range s.snapshot() {
		if strings.HasPrefix(a.line, "PRIVMSG #s0 ") && k < len(evs) {
			evs[k].arrival, evs[k].arrived = a.at, true
			if !strings.HasPrefix(a.line, "PRIVMSG #s0 "+fmt.Sprintf("m%03d", k)) && oracle == "" {
				oracle = fmt.Sprintf("reordered: line %d on the wire is %q", k, a.line[:20])
			}
			k++
		}
	}
	// the property on the implementation: line budget by arrival time, hold of each event
	// sent with the allowance used
	for i, ev := range evs {
		sum += ev.cost
		if oracle != "" {
			break
		}
		if allowed := 8*time.Second + ev.arrival.Sub(t0); sum > allowed {
			oracle = fmt.Sprintf("rate-exceeded: %d lines of total cost %.2fs were on the wire %.2fs after the last write before the burst (allowance 8s + elapsed = %.2fs)",
				i+1, sum.Seconds(), ev.arrival.Sub(t0).Seconds(), allowed.Seconds())
		} else if sum > 8*time.Second+ev.ret.Sub(t0) && ev.arrival.Sub(ev.s) < ev.cost {
			oracle = fmt.Sprintf("not-held: event %d sent with the allowance used was written %.3fs after Send, its cost is %.2fs", i, ev.arrival.Sub(ev.s).Seconds(), ev.cost.Seconds())
		}
	}
	if oracle == "" {
		if m := c16CreditCheck(evs, t0); m != "" {
			oracle = "sync-burst-unthrottled: " + m
		}
	}
	return "S=" + string(pat), fmt.Sprintf("P=%d/%d", kaHeld, kaSeen), oracle, overhead
}

// ---- X: one sender uses the allowance up, then one Send that is split into pieces

func c16RunSplit(linelen int, lens []int, textlen int) (obs, oracle string) {
	s := c16Start(false)
	defer s.stop()
	if len(lens) != 5 {
		return "X=?", ""
	}
	s.peer.Write([]byte(fmt.Sprintf(":srv 005 me LINELEN=%d NICKLEN=9 :are supported by this server\r\n", linelen)))
	deadline := time.Now().Add(5 * time.Second)
	for s.c.MaxEventLength() > linelen && time.Now().Before(deadline) {
		time.Sleep(time.Millisecond)
	}
	max := s.c.MaxEventLength()
	if max > linelen || max < 97 {
		return fmt.Sprintf("X=?max%d", max), ""
	}
	t0, ok := s.idleUntil(time.Duration(c16Cost(int64(lens[0]))))
	if !ok {
		return "X=?disconnected", ""
	}
	var pat []byte
	var sum time.Duration
	for i, n := range lens {
		e := &girc.Event{Command: girc.PRIVMSG, Params: []string{"#x0", c16Text(i, n)}}
		if e.Len() != n || n >= max {
			return "?bad-len", ""
		}
		cost := time.Duration(c16Cost(int64(n)))
		t := time.Now()
		s.c.Send(e)
		if time.Since(t) >= cost {
			pat = append(pat, 'D')
		} else {
			pat = append(pat, 'U')
		}
		sum += cost
		want := i + 1
		if !s.wait(func(a []c16Arrival) bool { return c16Count(a, "PRIVMSG #x0 ") >= want }, 15*time.Second) {
			return "X=?lost", fmt.Sprintf("line-lost: event %d never reached the peer", i)
		}
	}
	// the long one: text without spaces, so the pieces concatenate back to it
	text := "L" + strings.Repeat("y", textlen-1)
	e := &girc.Event{Command: girc.PRIVMSG, Params: []string{"#x0", text}}
	ts := time.Now()
	s.c.Send(e)
	dur := time.Since(ts)
	time.Sleep(100 * time.Millisecond)
	var pieces []c16Arrival
	for _, a := range s.snapshot() {
		if strings.HasPrefix(a.line, "PRIVMSG #x0 ") && !strings.HasPrefix(a.line, "PRIVMSG #x0 m") {
			pieces = append(pieces, a)
		}
	}
	if len(pieces) < 2 {
		return fmt.Sprintf("X=?pieces%d", len(pieces)), ""
	}
	got := ""
	var acc time.Duration
	for i, p := range pieces {
		got += strings.TrimPrefix(strings.TrimPrefix(p.line, "PRIVMSG #x0 "), ":")
		cost := time.Duration(c16Cost(int64(len(p.line))))
		acc += cost
		sum += cost
		// every piece is an event of its own on the line budget: n lines may be on the wire
		// t after the last write before the burst only if their costs fit in 8 s + t (a piece
		// that is not rated, or not held, arrives with its predecessor and breaks it)
		if allowed := 8*time.Second + p.at.Sub(t0); sum > allowed && oracle == "" {
			oracle = fmt.Sprintf("rate-exceeded: piece %d of %d of a split PRIVMSG was on the wire %.2fs after the last write before the burst with %.2fs of cost written (allowance 8s + elapsed = %.2fs)",
				i+1, len(pieces), p.at.Sub(t0).Seconds(), sum.Seconds(), allowed.Seconds())
		}
	}
	if got != text && oracle == "" {
		oracle = "reordered: the pieces of the split PRIVMSG do not concatenate to the text sent"
	}
	d := "U"
	if dur >= acc {
		d = "D"
	}
	return "X=" + string(pat) + "/" + d, oracle
}

// ---- T: g senders in tight loops

func c16RunTight(g int, lens []int) (obs, oracle string) {
	s := c16Start(false)
	defer s.stop()
	if g <= 0 || len(lens) == 0 {
		return "T=?", ""
	}
	per := len(lens) / g
	// idle long enough for the largest first event: writeDelay is 0 and forgiven
	idle := time.Duration(0)
	for k := 0; k < g; k++ {
		if per > 0 {
			if c := time.Duration(c16Cost(int64(lens[k*per]))); c > idle {
				idle = c
			}
		}
	}
	t0, ok := s.idleUntil(idle + 200*time.Millisecond)
	if !ok {
		return "T=?disconnected", ""
	}
	all := make([][]*c16Sent, g)
	var wg sync.WaitGroup
	start := make(chan struct{})
	bad := false
	for k := 0; k < g; k++ {
		mine := lens[k*per : (k+1)*per]
		all[k] = make([]*c16Sent, len(mine))
		evs := make([]*girc.Event, len(mine))
		for i, n := range mine {
			evs[i] = &girc.Event{Command: girc.PRIVMSG, Params: []string{fmt.Sprintf("#t%d", k), c16Text(i, n)}}
			if evs[i].Len() != n {
				bad = true
			}
			all[k][i] = &c16Sent{g: k, id: i, cost: time.Duration(c16Cost(int64(n)))}
		}
		wg.Add(1)
		go func(k int) {
			defer wg.Done()
			<-start
			for i, e := range evs {
				all[k][i].s = time.Now()
				s.c.Send(e)
				all[k][i].ret = time.Now()
			}
		}(k)
	}
	if bad {
		close(start)
		wg.Wait()
		return "?bad-len", ""
	}
	close(start)
	wg.Wait()
	total := per * g
	if !s.wait(func(a []c16Arrival) bool { return c16Count(a, "PRIVMSG #t") >= total }, 15*time.Second) {
		oracle = fmt.Sprintf("line-lost: %d of %d events reached the peer", c16Count(s.snapshot(), "PRIVMSG #t"), total)
	}
	var sb strings.Builder
	sb.WriteString("T=")
	arr := s.snapshot()
	for k := 0; k < g; k++ {
		fmt.Fprintf(&sb, "g%d:", k)
		prefix := fmt.Sprintf("PRIVMSG #t%d m", k)
		last := -1
		for _, a := range arr {
			if strings.HasPrefix(a.line, prefix) && len(a.line) >= len(prefix)+3 {
				id, err := strconv.Atoi(a.line[len(prefix) : len(prefix)+3])
				if err != nil {
					id = -1
				}
				fmt.Fprintf(&sb, "%d,", id)
				if id <= last && oracle == "" {
					oracle = fmt.Sprintf("reordered: sender %d: event %d reached the wire after event %d", k, id, last)
				}
				last = id
				if id >= 0 && id < len(all[k]) {
					all[k][id].arrival, all[k][id].arrived = a.at, true
				}
			}
		}
		sb.WriteString(";")
	}
	var flat []*c16Sent
	for k := range all {
		flat = append(flat, all[k]...)
	}
	if oracle == "" {
		for _, ev := range flat { // time.After never fires early: a held event is written at least its cost after Send
			if ev.arrived && ev.ret.Sub(ev.s) >= ev.cost && ev.arrival.Sub(ev.s) < ev.cost {
				oracle = fmt.Sprintf("not-held: event g%d/%d written %.3fs after Send although Send took its cost %.2fs", ev.g, ev.id, ev.arrival.Sub(ev.s).Seconds(), ev.cost.Seconds())
			}
		}
	}
	if oracle == "" {
		if m := c16CreditCheck(flat, t0); m != "" {
			oracle = "tight-burst-unthrottled: " + m
		}
	}
	return sb.String(), oracle
}

// ---- F: AllowFlood

func c16RunFlood(n int) (obs, oracle string) {
	s := c16Start(true)
	defer s.stop()
	held := time.Duration(0)
	for i := 0; i < n; i++ {
		e := &girc.Event{Command: girc.PRIVMSG, Params: []string{"#f0", c16Text(i, 30)}}
		cost := time.Duration(c16Cost(int64(e.Len())))
		t := time.Now()
		s.c.Send(e)
		if d := time.Since(t); d >= cost {
			held += cost
			if oracle == "" {
				oracle = fmt.Sprintf("allowflood-delayed: Send of event %d took %.2fs with AllowFlood set (its cost is %.2fs)", i, d.Seconds(), cost.Seconds())
			}
		}
	}
	if !s.wait(func(a []c16Arrival) bool { return c16Count(a, "PRIVMSG #f0 ") >= n }, 15*time.Second) && oracle == "" {
		oracle = fmt.Sprintf("line-lost: %d of %d events reached the peer", c16Count(s.snapshot(), "PRIVMSG #f0 "), n)
	}
	order, k := "ordered", 0
	for _, a := range s.snapshot() {
		if strings.HasPrefix(a.line, "PRIVMSG #f0 ") {
			if !strings.HasPrefix(a.line, fmt.Sprintf("PRIVMSG #f0 m%03d", k)) {
				order = "reordered"
				if oracle == "" {
					oracle = fmt.Sprintf("reordered: line %d on the wire is %q", k, a.line)
				}
			}
			k++
		}
	}
	return fmt.Sprintf("F=%d/%d/%s", k, int64(held), order), oracle
}

func c16Ints(f []string) ([]int, bool) {
	out := make([]int, len(f))
	for i, x := range f {
		v, err := strconv.Atoi(x)
		if err != nil {
			return nil, false
		}
		out[i] = v
	}
	return out, true
}

// the last argument is the sum of all bytes of the others (see Driver/DrvC16.v)
func c16Checksum(c Case) string {
	n := 0
	for _, a := range c {
		for i := 0; i < len(a); i++ {
			n += int(a[i])
		}
	}
	return strconv.Itoa(n)
}

func c16RunWire(c Case) Result {
	if len(c) == 0 || c[len(c)-1] != c16Checksum(c[:len(c)-1]) {
		return Result{Obs: "?bad-case"}
	}
	c = c[:len(c)-1]
	obs := make([]string, len(c))
	orc := make([]string, len(c))
	sigs := make([]string, len(c))
	var wg sync.WaitGroup
	for i := range c {
		f := strings.Split(c[i], " ")
		nums, ok := c16Ints(f[1:])
		if !ok || len(f) < 2 {
			obs[i] = "?scenario"
			continue
		}
		switch f[0] {
		case "S":
			pong, ping := -1, -1
			pi := -1
			if i+1 < len(c) && strings.HasPrefix(c[i+1], "P ") {
				if pn, ok := c16Ints(strings.Split(c[i+1], " ")[1:]); ok && len(pn) == 2 {
					pong, ping, pi = pn[0], pn[1], i+1
				}
			}
			wg.Add(1)
			go func(i, pi int) {
				defer wg.Done()
				var p string
				obs[i], p, orc[i] = c16RunSync(nums, pong, ping)
				if pi >= 0 {
					obs[pi] = p
				}
				sigs[i] = fmt.Sprintf("S%d:%dU", len(nums), strings.Count(obs[i], "U"))
			}(i, pi)
		case "P":
			if i == 0 || !strings.HasPrefix(c[i-1], "S ") {
				obs[i] = "?scenario"
			}
		case "T":
			wg.Add(1)
			go func(i int) {
				defer wg.Done()
				obs[i], orc[i] = c16RunTight(nums[0], nums[1:])
				sigs[i] = fmt.Sprintf("T%dx%d", nums[0], len(nums)-1)
			}(i)
		case "F":
			wg.Add(1)
			go func(i int) {
				defer wg.Done()
				obs[i], orc[i] = c16RunFlood(nums[0])
				sigs[i] = "F"
			}(i)
		case "X":
			if len(nums) != 7 {
				obs[i] = "?scenario"
				continue
			}
			wg.Add(1)
			go func(i int) {
				defer wg.Done()
				obs[i], orc[i] = c16RunSplit(nums[0], nums[1:6], nums[6])
				sigs[i] = "X"
			}(i)
		default:
			obs[i] = "?scenario"
		}
	}
	wg.Wait()
	res := Result{}
	for i := range c {
		res.Obs += obs[i] + "|"
		// one oracle line per case: anything else takes precedence over the class of the
		// stale-lastWrite finding, so that a known finding can never hide another failure
		if orc[i] != "" && (res.Oracle == "" || strings.HasPrefix(res.Oracle, "tight-burst-unthrottled:")) {
			res.Oracle = orc[i]
		}
		if sigs[i] != "" {
			res.Sig += sigs[i] + " "
		}
	}
	res.Sig = strings.TrimSpace(res.Sig)
	return res
}

// lens for an S scenario: the first event short (its cost is the idle wait), then events of
// varied sizes whose prefix sums of cost stay out of (8 s, 9.5 s], then short ones.
func c16GenSyncLens(r *rand.Rand, n int) []int {
	for {
		lens := []int{16 + r.Intn(16)}
		var sum int64
		crossed := false
		ok := true
		for len(lens) < n {
			l := 16 + r.Intn(26)
			if !crossed {
				switch r.Intn(3) {
				case 0:
					l = 16 + r.Intn(300)
				case 1:
					l = 16 + r.Intn(120)
				}
			}
			sum += c16Cost(int64(l))
			if sum > c16Threshold {
				if !crossed && sum <= c16Threshold+3*c16Second/2 {
					ok = false
					break
				}
				crossed = true
			}
			lens = append(lens, l)
		}
		if ok && crossed {
			return lens
		}
	}
}

func c16Join(kind string, v []int) string {
	p := make([]string, len(v)+1)
	p[0] = kind
	for i, x := range v {
		p[i+1] = strconv.Itoa(x)
	}
	return strings.Join(p, " ")
}

func c16GenWire(r *rand.Rand) Case {
	n := 11 + r.Intn(4)
	sl := c16GenSyncLens(r, n)
	// first held event of the ideal run
	var sum int64
	k := len(sl)
	for i := 1; i < len(sl); i++ {
		sum += c16Cost(int64(sl[i]))
		if sum > c16Threshold {
			k = i
			break
		}
	}
	pong, ping := k+1, k+2
	if ping >= len(sl) {
		pong, ping = len(sl)-2, len(sl)-1
	}
	t1 := make([]int, 11+r.Intn(4))
	for i := range t1 {
		t1[i] = 16 + r.Intn(30)
	}
	per := 4 + r.Intn(2)
	t3 := make([]int, 3*per)
	for i := range t3 {
		t3[i] = 16 + r.Intn(40)
	}
	// X: LINELEN 196..230 (MaxEventLength 100..134 with NICKLEN=9), four events of 90..99 bytes
	// whose costs add up to 7.82..7.96 s (never held: <= 8 s), a text of 2.4..2.9 pieces: even
	// if every sleep inside the Send is forgiven, the last piece is rated at >= 7.82 + 1.45 s
	linelen := 196 + r.Intn(35)
	xl := []int{16 + r.Intn(15), 0, 0, 0, 0}
	for {
		total := 382 + r.Intn(15)
		xl[1], xl[2], xl[3] = 93+r.Intn(7), 93+r.Intn(7), 93+r.Intn(7)
		xl[4] = total - xl[1] - xl[2] - xl[3]
		if xl[4] >= 90 && xl[4] <= 99 {
			break
		}
	}
	textlen := (linelen - 96 - 13) * (24 + r.Intn(6)) / 10
	c := Case{c16Join("S", sl), c16Join("P", []int{pong, ping}), c16Join("T", append([]int{1}, t1...)),
		c16Join("T", append([]int{3}, t3...)), "F 50", c16Join("X", append(append([]int{linelen}, xl...), textlen))}
	return append(c, c16Checksum(c))
}

func init() {
	Register(&Suite{
		Name: "rate.arith",
		Prop: []string{"C16"},
		Fixed: func() []Case {
			var out []Case
			for _, chars := range []int64{0, 1, 99, 100, 512, 699, 700, 701, 1000} {
				cost := c16Cost(chars)
				for _, x := range []int64{-1, 0, 1, c16Threshold - 1, c16Threshold, c16Threshold + 1, cost} {
					if x <= cost {
						out = append(out, c16ArithCase("z", x-cost+c16MaxDur, 0, chars))
					}
				}
				out = append(out, c16ArithCase("z", 0, 0, chars))
			}
			// the later of lastWrite / lastRate is the one that counts, either way round
			for _, p := range [][2]int64{{2 * c16Second, 5 * c16Second}, {5 * c16Second, 2 * c16Second}, {3 * c16Second, 3 * c16Second}, {-1, 2 * c16Second}, {2 * c16Second, -1}} {
				// writeDelay 9 s, cost 1.3 s, 2 s forgiven -> 8.3 s: held; 5 s forgiven -> 5.3 s: not held
				out = append(out, append(c16ArithCase("m", 9*c16Second+c16Eps+1, p[0], 30), strconv.FormatInt(p[1], 10)))
			}
			// around the threshold on the real clock: at or below 8 s exactly is never held
			for _, wd := range []int64{0, 7 * c16Second, 8 * c16Second, 20 * c16Second} {
				cost := c16Cost(30)
				for _, x := range []int64{c16Threshold - c16Quantum + c16Eps + 1, c16Threshold + c16Eps + 1, c16Threshold + c16Quantum - 1} {
					if since := wd + cost - x; since >= 0 {
						out = append(out, c16ArithCase("r", wd, since, 30))
					}
				}
			}
			return out
		},
		Gen: c16GenArith,
		Run: c16RunArith,
	})
	Register(&Suite{
		Name: "rate.wire",
		Prop: []string{"C16"},
		Gen:  c16GenWire,
		Run:  c16RunWire,
	})
}
