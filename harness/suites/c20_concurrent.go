package suites

// Suite fmt.concurrent (C20): Fmt, TrimFmt and StripRaw are pure functions of their
// argument and are called by the library from whatever goroutine sends (Client.Send with
// Config.GlobalFormat, cmdhandler replies). A case is a list of format texts with many
// distinct {fg} / {fg,bg} tokens. The texts are formatted
//
//   - sequentially in this process (observation, compared with the model), and
//   - by several goroutines at once in a FRESH CHILD PROCESS of the harness binary, so that
//     every token is seen for the first time in the life of that process by all goroutines
//     together (any memoisation inside the functions is cold), and a fatal runtime error
//     ("concurrent map writes") cannot take the suite runner down.
//
// Oracle: the child exits normally and every concurrent result equals the sequential result
// of the same call. No wall-clock verdict other than a generous child timeout.

import (
	"bufio"
	"bytes"
	"context"
	"encoding/hex"
	"fmt"
	"math/rand"
	"os"
	"os/exec"
	"runtime"
	"strings"
	"sync"
	"time"

	"github.com/lrstanley/girc"
)

const (
	f20ChildEnv     = "VERIF_C20_FMT_CHILD"
	f20Goroutines   = 8
	f20ChildTimeout = 180 * time.Second
)

// The child mode lives here (not in cmd/gircx) so that the suite is self-contained: when
// the harness binary is re-executed with the marker variable set, it does the concurrent
// run on the texts read from stdin and exits before main starts.
func init() {
	if os.Getenv(f20ChildEnv) == "1" {
		os.Exit(f20ChildMain())
	}
}

type f20Triple struct{ fmted, trimmed, stripped string }

func f20Apply(t string) f20Triple {
	f := girc.Fmt(t)
	return f20Triple{f, girc.TrimFmt(t), girc.StripRaw(f)}
}

// f20ChildMain: stdin = one hex text per line ("." = empty). Prints "ok" or "diff ..." and
// then the child's own sequential Fmt results, one hex line per text.
func f20ChildMain() int {
	var texts []string
	sc := bufio.NewScanner(os.Stdin)
	sc.Buffer(make([]byte, 1<<20), 1<<26)
	for sc.Scan() {
		ln := strings.TrimSpace(sc.Text())
		if ln == "" {
			continue
		}
		if ln == "." {
			texts = append(texts, "")
			continue
		}
		b, err := hex.DecodeString(ln)
		if err != nil {
			fmt.Println("badinput")
			return 3
		}
		texts = append(texts, string(b))
	}
	if runtime.GOMAXPROCS(0) < 4 {
		runtime.GOMAXPROCS(4)
	}
	results := make([][]f20Triple, f20Goroutines)
	var ready, done sync.WaitGroup
	start := make(chan struct{})
	for g := 0; g < f20Goroutines; g++ {
		ready.Add(1)
		done.Add(1)
		go func(g int) {
			defer done.Done()
			out := make([]f20Triple, len(texts))
			ready.Done()
			<-start
			// all goroutines walk the texts in the same order: each token is met for the
			// first time by all of them at about the same moment
			for i, t := range texts {
				out[i] = f20Apply(t)
			}
			results[g] = out
		}(g)
	}
	ready.Wait()
	close(start)
	done.Wait()

	// now (sequentially, everything has been seen) the reference results
	w := bufio.NewWriter(os.Stdout)
	defer w.Flush()
	ref := make([]f20Triple, len(texts))
	for i, t := range texts {
		ref[i] = f20Apply(t)
	}
	verdict := "ok"
	for g := 0; g < f20Goroutines && verdict == "ok"; g++ {
		for i := range texts {
			got := results[g][i]
			if got.fmted != ref[i].fmted {
				verdict = fmt.Sprintf("diff Fmt text=%d goroutine=%d got=%s want=%s", i, g, Hex(got.fmted), Hex(ref[i].fmted))
				break
			}
			if got.stripped != ref[i].stripped {
				verdict = fmt.Sprintf("diff StripRaw text=%d goroutine=%d got=%s want=%s", i, g, Hex(got.stripped), Hex(ref[i].stripped))
				break
			}
			// TrimFmt may legitimately depend on the map order on unstable inputs
			if got.trimmed != ref[i].trimmed && f20TrimStable(texts[i]) {
				verdict = fmt.Sprintf("diff TrimFmt text=%d goroutine=%d got=%s want=%s", i, g, Hex(got.trimmed), Hex(ref[i].trimmed))
				break
			}
		}
	}
	fmt.Fprintln(w, verdict)
	for i := range texts {
		if ref[i].fmted == "" {
			fmt.Fprintln(w, ".")
		} else {
			fmt.Fprintln(w, Hex(ref[i].fmted))
		}
	}
	return 0
}

func f20FirstLines(s string, n int) string {
	lines := strings.Split(strings.TrimSpace(s), "\n")
	if len(lines) > n {
		lines = lines[:n]
	}
	return strings.Join(lines, " / ")
}

// f20RunChild returns "" when the concurrent run agreed with the sequential one, else the
// oracle text.
func f20RunChild(texts []string, want []string) string {
	exe, err := os.Executable()
	if err != nil {
		return ""
	}
	var in bytes.Buffer
	for _, t := range texts {
		if t == "" {
			in.WriteString(".\n")
		} else {
			in.WriteString(Hex(t) + "\n")
		}
	}
	var lastErr string
	for attempt := 0; attempt < 3; attempt++ {
		ctx, cancel := context.WithTimeout(context.Background(), f20ChildTimeout)
		cmd := exec.CommandContext(ctx, exe)
		cmd.Env = append(os.Environ(), f20ChildEnv+"=1")
		cmd.Stdin = bytes.NewReader(in.Bytes())
		var stdout, stderr bytes.Buffer
		cmd.Stdout, cmd.Stderr = &stdout, &stderr
		err := cmd.Run()
		timedOut := ctx.Err() == context.DeadlineExceeded
		cancel()
		if err != nil {
			se := stderr.String()
			if strings.Contains(se, "fatal error:") || strings.Contains(se, "panic:") || strings.Contains(se, "concurrent map") {
				return fmt.Sprintf("fmt-concurrent-crash: %d goroutines formatting %d texts at once in a fresh process: %v: %s",
					f20Goroutines, len(texts), err, f20FirstLines(se, 3))
			}
			if timedOut {
				return fmt.Sprintf("fmt-concurrent-hang: %d goroutines formatting %d texts at once did not finish within %v", f20Goroutines, len(texts), f20ChildTimeout)
			}
			// the child could not be started or was killed from outside: not a verdict
			lastErr = fmt.Sprintf("%v: %s", err, f20FirstLines(se, 2))
			time.Sleep(200 * time.Millisecond)
			continue
		}
		lines := strings.Split(strings.TrimRight(stdout.String(), "\n"), "\n")
		if len(lines) != len(texts)+1 {
			lastErr = fmt.Sprintf("child printed %d lines for %d texts", len(lines), len(texts))
			continue
		}
		if lines[0] != "ok" {
			return "fmt-concurrent-result: concurrent call differs from the sequential call in the same process: " + lines[0]
		}
		for i, w := range want {
			got := lines[i+1]
			if got == "." {
				got = ""
			}
			if got != Hex(w) {
				return fmt.Sprintf("fmt-concurrent-result: Fmt(%q) is %q here and hex %s in a fresh process", texts[i], w, got)
			}
		}
		return ""
	}
	// three attempts without a usable child: report nothing about the property
	_ = lastErr
	return ""
}

func f20RunConcurrent(c Case) Result {
	texts := []string(c)
	want := make([]string, len(texts))
	hexes := make([]string, len(texts))
	toks := 0
	for i, t := range texts {
		want[i] = girc.Fmt(t)
		hexes[i] = Hex(want[i])
		toks += strings.Count(t, "{")
	}
	res := Result{Obs: strings.Join(hexes, ",")}
	switch {
	case toks == 0:
		res.Sig = "trivial-no-token"
	case toks < 100:
		res.Sig = "tokens<100"
	case toks < 400:
		res.Sig = "tokens<400"
	default:
		res.Sig = "tokens>=400"
	}
	if len(texts) > 0 {
		res.Oracle = f20RunChild(texts, want)
	}
	return res
}

// all 26 {fg} and 676 {fg,bg} tokens, one text each
func f20AllColourTexts() Case {
	var c Case
	for _, f := range docColorNames {
		c = append(c, "{"+f+"}x")
	}
	for _, f := range docColorNames {
		for _, b := range docColorNames {
			c = append(c, "a{"+f+","+b+"}z")
		}
	}
	return c
}

func genConcurrentCase(r *rand.Rand) Case {
	n := 40 + r.Intn(260)
	caseMode := r.Intn(4)
	c := make(Case, 0, n)
	for len(c) < n {
		var sb strings.Builder
		for k := 1 + r.Intn(3); k > 0; k-- {
			f := f20RandCase(r, docColorNames[r.Intn(len(docColorNames))], caseMode)
			b := f20RandCase(r, docColorNames[r.Intn(len(docColorNames))], caseMode)
			sb.WriteString(Pick(r, "", "x", "Hello ", "1", ", "))
			switch r.Intn(6) {
			case 0:
				sb.WriteString("{" + f + "}")
			case 1:
				sb.WriteString("{" + docCodeNames[r.Intn(len(docCodeNames))] + "}")
			default:
				sb.WriteString("{" + f + "," + b + "}")
			}
		}
		sb.WriteString(Pick(r, "", "z", " World{c}", "{b}!"))
		c = append(c, sb.String())
	}
	return c
}

func init() {
	Register(&Suite{
		Name: "fmt.concurrent",
		Prop: []string{"C20"},
		Fixed: func() []Case {
			return []Case{f20AllColourTexts(), {"{red}{b}Hello {red,blue}World{c}", "plain", ""}}
		},
		Gen: genConcurrentCase,
		Run: f20RunConcurrent,
	})
}
