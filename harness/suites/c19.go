package suites

import (
	"math/rand"
	"strings"

	"github.com/lrstanley/girc"
)

// wildDP is the oracle of C19: textbook dynamic programming over bytes, written from
// the statement ('*' stands for any, possibly empty, string; every other byte stands
// for itself). It shares nothing with Glob's split/prefix/search/suffix structure.
//
//	ok[i][j] == pattern[j:] can produce input[i:]
func wildDP(input, pattern string) bool {
	n, m := len(input), len(pattern)
	next := make([]bool, n+1) // row j+1
	cur := make([]bool, n+1)  // row j
	next[n] = true            // empty pattern produces only the empty input
	for j := m - 1; j >= 0; j-- {
		if pattern[j] == '*' {
			// '*' produces input[i:k] for any k >= i
			any := false
			for i := n; i >= 0; i-- {
				any = any || next[i]
				cur[i] = any
			}
		} else {
			cur[n] = false
			for i := n - 1; i >= 0; i-- {
				cur[i] = input[i] == pattern[j] && next[i+1]
			}
		}
		cur, next = next, cur
	}
	return next[0]
}

func allStringsUpTo(alphabet string, maxLen int) []string {
	out := []string{""}
	prev := []string{""}
	for l := 1; l <= maxLen; l++ {
		var cur []string
		for _, p := range prev {
			for i := 0; i < len(alphabet); i++ {
				cur = append(cur, p+alphabet[i:i+1])
			}
		}
		out = append(out, cur...)
		prev = cur
	}
	return out
}

// starify turns an input into a pattern that matches it: cut the input into segments
// and replace a random subset of them by one or more stars.
func starify(r *rand.Rand, input string) string {
	var sb strings.Builder
	i := 0
	for i < len(input) {
		n := 1 + r.Intn(4)
		if i+n > len(input) {
			n = len(input) - i
		}
		switch r.Intn(5) {
		case 0, 1:
			sb.WriteString(strings.Repeat("*", 1+r.Intn(2)))
		case 2:
			sb.WriteString(input[i : i+n])
			if r.Intn(3) == 0 {
				sb.WriteString("*") // star standing for the empty string
			}
		default:
			sb.WriteString(input[i : i+n])
		}
		i += n
	}
	if r.Intn(6) == 0 {
		sb.WriteString("*")
	}
	return sb.String()
}

func mutate(r *rand.Rand, s string, alphabet string) string {
	b := []byte(s)
	switch r.Intn(4) {
	case 0: // delete a byte
		if len(b) > 0 {
			i := r.Intn(len(b))
			b = append(b[:i], b[i+1:]...)
		}
	case 1: // replace a byte
		if len(b) > 0 {
			b[r.Intn(len(b))] = alphabet[r.Intn(len(alphabet))]
		}
	case 2: // insert a byte
		i := r.Intn(len(b) + 1)
		b = append(b[:i], append([]byte{alphabet[r.Intn(len(alphabet))]}, b[i:]...)...)
	case 3: // duplicate a segment (creates repeated substrings)
		if len(b) > 1 {
			i := r.Intn(len(b))
			j := i + 1 + r.Intn(len(b)-i)
			b = append(b[:j], append(append([]byte{}, b[i:j]...), b[j:]...)...)
		}
	}
	return string(b)
}

var globWords = []string{"a", "ab", "aba", "abab", "b", "ba", "aab", "x", "irc", ".", "!", "@", "é", "日本", "\xff", "ü*"}

// manyStars builds patterns with a large number of '*' (any fixed cap on the number of pieces
// a pattern is cut into would show here): k stars around/between one-byte literals, against
// inputs that do and do not contain the literals in order.
func manyStars(r *rand.Rand) Case {
	k := []int{8, 16, 30, 31, 32, 33, 40, 64, 65, 100, 129, 300}[r.Intn(12)]
	var pat, in strings.Builder
	for i := 0; i < k; i++ {
		lit := string("ab"[r.Intn(2)])
		if r.Intn(3) > 0 {
			pat.WriteString(lit)
			in.WriteString(lit)
			if r.Intn(4) == 0 {
				in.WriteByte("ba"[r.Intn(2)])
			}
		}
		pat.WriteString("*")
	}
	p, s := pat.String(), in.String()
	switch r.Intn(5) {
	case 0:
		p += "z" // last literal missing from the input: must not match
	case 1:
		p += "z"
		s += "z"
	case 2:
		p = "x" + p
	case 3:
		if len(s) > 0 {
			s = s[:len(s)-1] // one literal short
		}
	}
	return Case{s, p}
}

func genGlob(r *rand.Rand) Case {
	if r.Intn(12) == 0 {
		return manyStars(r)
	}
	switch r.Intn(9) {
	case 0: // random over the small alphabet, longer than the exhaustive part
		return Case{RandBytes(r, r.Intn(13), "ab*"), RandBytes(r, r.Intn(13), "ab*")}
	case 1, 2: // repeated substrings: pattern made from the input, then maybe broken
		var sb strings.Builder
		for k := r.Intn(7); k >= 0; k-- {
			sb.WriteString(globWords[r.Intn(8)])
		}
		in := sb.String()
		pat := starify(r, in)
		if r.Intn(2) == 0 {
			pat = mutate(r, pat, "ab*")
		}
		if r.Intn(4) == 0 {
			in = mutate(r, in, "ab")
		}
		return Case{in, pat}
	case 3: // first and last literal overlapping in the input: "aba" vs "ab*ba"
		w := globWords[r.Intn(5)]
		tail := w[r.Intn(len(w)):]
		in := w + RandBytes(r, r.Intn(3), "ab") + tail
		if r.Intn(2) == 0 {
			in = w[:len(w)-len(tail)] + tail // overlap: shorter than prefix+suffix
		}
		return Case{in, w + strings.Repeat("*", 1+r.Intn(2)) + w[len(w)-len(tail):]}
	case 4: // hostmasks
		nick := Pick(r, "nick", "n", "Nick[a]", "né")
		user := Pick(r, "user", "~u", "u.ser")
		host := Pick(r, "host.example.com", "example.com", "a.b.example.com.example.com", "127.0.0.1")
		in := nick + "!" + user + "@" + host
		pat := Pick(r, "*!*@*", "*!*@*.example.com", "nick!*@*", "*!~*@*", "n*!*u*@*.com", "*@*@*", "*!*@*.example.com*", "*example.com", "*.example.com.example.com", "**!**@**")
		if r.Intn(3) == 0 {
			pat = mutate(r, pat, "*!@.aen")
		}
		return Case{in, pat}
	case 5: // UTF-8 (matching is byte-wise: a star may split a rune)
		var sb strings.Builder
		for k := r.Intn(6); k >= 0; k-- {
			sb.WriteString(globWords[r.Intn(len(globWords))])
		}
		in := sb.String()
		pat := starify(r, in)
		if r.Intn(3) == 0 {
			pat = mutate(r, pat, "*\xc3\xa9\xe6")
		}
		return Case{in, pat}
	case 6: // consecutive stars, star-only and star-free patterns
		in := RandBytes(r, r.Intn(8), "ab")
		switch r.Intn(4) {
		case 0:
			return Case{in, strings.Repeat("*", r.Intn(4))}
		case 1:
			return Case{in, mutate(r, in, "ab")} // no star at all: equality
		case 2:
			return Case{in, "**" + mutate(r, in, "ab*") + "**"}
		default:
			return Case{in, strings.ReplaceAll(starify(r, in), "*", "***")}
		}
	case 7: // arbitrary bytes
		in := RandBytes(r, r.Intn(20), "")
		if r.Intn(2) == 0 {
			return Case{in, starify(r, in)}
		}
		return Case{in, RandBytes(r, r.Intn(10), "") + "*" + RandBytes(r, r.Intn(4), "")}
	default: // long inputs with a literal that occurs many times
		unit := globWords[r.Intn(6)]
		in := strings.Repeat(unit, 3+r.Intn(12)) + RandBytes(r, r.Intn(3), "ab")
		k := 1 + r.Intn(5)
		pat := strings.Repeat(unit+"*", k)
		switch r.Intn(4) {
		case 0:
			pat = "*" + pat
		case 1:
			pat = pat + unit
		case 2:
			pat = pat[:len(pat)-1]
		}
		return Case{in, pat}
	}
}

func globSig(in, pat string, got bool) string {
	stars := strings.Count(pat, "*")
	var shape string
	switch {
	case pat == "":
		shape = "empty-pattern"
	case pat == "*":
		shape = "lone-star"
	case stars == 0:
		shape = "no-star"
	default:
		shape = "stars="
		switch {
		case stars >= 4:
			shape += "4+"
		default:
			shape += string(rune('0' + stars))
		}
		if strings.Contains(pat, "**") {
			shape += "/consecutive"
		}
		if pat[0] == '*' {
			shape += "/leading"
		}
		if pat[len(pat)-1] == '*' {
			shape += "/trailing"
		}
	}
	size := "/short"
	if len(in) > 5 || len(pat) > 5 {
		size = "/long"
	}
	for i := 0; i < len(in); i++ {
		if in[i] >= 0x80 {
			size += "/nonascii"
			break
		}
	}
	return B(got) + "/" + shape + size
}

func init() {
	Register(&Suite{
		Name: "glob.match",
		Prop: []string{"C19"},
		Fixed: func() []Case {
			all := allStringsUpTo("ab*", 5) // 364 strings
			out := make([]Case, 0, len(all)*len(all)+16)
			for _, in := range all {
				for _, pat := range all {
					out = append(out, Case{in, pat})
				}
			}
			// the repaired defect and a few longer regression pairs
			out = append(out, Case{"a", "a*a"}, Case{"aba", "ab*ba"}, Case{"abab", "ab*ab"}, Case{"ababab", "abab*abab"},
				Case{"nick!user@host.example.com", "*!*@*.example.com"}, Case{"é", "\xc3*\xa9"}, Case{"é", "\xc3*\xc3\xa9"})
			return out
		},
		Exhaustive: "all 364 x 364 = 132 496 (input, pattern) pairs of byte strings of length <= 5 over {a, b, *}",
		Gen:        genGlob,
		Run: func(c Case) Result {
			in, pat := c[0], c[1]
			got := girc.Glob(in, pat)
			res := Result{Obs: B(got), Sig: globSig(in, pat, got)}
			if want := wildDP(in, pat); got != want {
				if got {
					res.Oracle = "glob-false-match: Glob accepts a pair the wildcard relation rejects"
				} else {
					res.Oracle = "glob-missed-match: Glob rejects a pair the wildcard relation accepts"
				}
			}
			return res
		},
	})
}
