package suites

import (
	"fmt"
	"math/rand"
	"runtime"
	"sort"
	"strconv"
	"strings"
	"sync"
	"time"
	"unicode/utf8"

	"gircverif/drive"

	"github.com/lrstanley/girc"
)

// ---- C14: CTCP round trip and reply discipline ----
//
// Events travel as: srcflag ("1" = has a source), source name, command, params...

func evOfCase(c Case) *girc.Event {
	e := &girc.Event{}
	if len(c) < 3 {
		return e
	}
	if c[0] == "1" {
		e.Source = &girc.Source{Name: c[1]}
	}
	e.Command = c[2]
	if len(c) > 3 {
		e.Params = append([]string{}, c[3:]...)
	}
	return e
}

func caseOfEv(hasSrc bool, name, cmd string, params ...string) Case {
	f := "0"
	if hasSrc {
		f = "1"
	}
	return append(Case{f, name, cmd}, params...)
}

// specCTCP is the statement's own reading of "is CTCP": PRIVMSG or NOTICE with exactly
// two parameters, the second delimited by 0x01 on both ends around TAG [SPACE text],
// TAG a non-empty string of A-Z / 0-9.
type specC struct {
	cmd, text string
	reply     bool
}

func specTagOK(t string) bool {
	if t == "" {
		return false
	}
	for i := 0; i < len(t); i++ {
		if !(t[i] >= 'A' && t[i] <= 'Z') && !(t[i] >= '0' && t[i] <= '9') {
			return false
		}
	}
	return true
}

func specDecode(e *girc.Event) *specC {
	if e.Command != "PRIVMSG" && e.Command != "NOTICE" {
		return nil
	}
	if len(e.Params) != 2 {
		return nil
	}
	p := e.Params[1]
	if len(p) < 3 || p[0] != 1 || p[len(p)-1] != 1 {
		return nil
	}
	inner := p[1 : len(p)-1]
	tag, text := inner, ""
	if i := strings.IndexByte(inner, ' '); i >= 0 {
		tag, text = inner[:i], inner[i+1:]
	}
	if !specTagOK(tag) {
		return nil
	}
	return &specC{tag, text, e.Command == "NOTICE"}
}

func showCTCP(c *girc.CTCPEvent) string {
	if c == nil {
		return "nil"
	}
	var src *string
	if c.Source != nil {
		src = &c.Source.Name
	}
	return Hex(c.Command) + "/" + Hex(c.Text) + "/" + B(c.Reply) + "/" + OptHex(src)
}

var (
	ctcpKnown   = []string{"PING", "PONG", "VERSION", "SOURCE", "TIME", "FINGER"}
	ctcpOtherOK = []string{"ACTION", "ERRMSG", "CLIENTINFO", "USERINFO", "DCC", "FOO", "X1", "123", "A"}
	ctcpBadCmds = []string{"ping", "Version", "tIME", "PING!", "PI\x01NG", "", "\xc3\x89", "P-NG", "PING\t", "@", "[", "`", "/", ":", "FINGEr", "action"}
	ctcpTexts   = []string{"", "123456", " lead", "a b c", "\x01", "x\x01y", ":colon", "\xff\xfe", "trailing ", "  ", "\xe2\x82\xac uro", "1 2", "\x01\x01", "a\rb", "q\xc3",
		"a\nb", "a\r\nb", "\r", "1\rPRIVMSG #chan :\x01VERSION\x01", "x\rNICK owned", "1\nPRIVMSG #chan :hi", "\rQUIT"}
	ctcpSrcNames = []string{"nick", "Nick[x]", "N\\ick^", "irc.server.net", "a", "9bad", "", "sp ace", "\xc3\xbc", "\xff", "x-y", "?znc", "-dash", "A_{}|", "NICK", "~tilde", "n\xc3", ":c", "me", "ME", "a^b"}
	ctcpTargets  = []string{"me", "#chan", "ME", "&c", "", "#Chan", "other"}
)

func isKnownCTCP(c string) bool {
	for _, k := range ctcpKnown {
		if k == c {
			return true
		}
	}
	return false
}

// genCTCPText builds the second parameter: mostly delimited CTCP bodies, with broken
// delimiters, bad tags and plain text mixed in.
func genCTCPText(r *rand.Rand) string {
	var cmd string
	switch k := r.Intn(10); {
	case k < 4:
		cmd = Pick(r, ctcpKnown...)
	case k < 6:
		cmd = Pick(r, ctcpOtherOK...)
	case k < 9:
		cmd = Pick(r, ctcpBadCmds...)
	default:
		cmd = RandBytes(r, 1+r.Intn(4), "AZ09az \x01!")
	}
	body := cmd
	switch r.Intn(4) {
	case 0:
	case 1:
		body += " "
	default:
		body += " " + Pick(r, ctcpTexts...)
	}
	if r.Intn(12) == 0 {
		body = " " + body
	}
	switch r.Intn(14) {
	case 0:
		return body + "\x01"
	case 1:
		return "\x01" + body
	case 2:
		return body
	case 3:
		return "\x01" + body + "\x01\x01"
	case 4:
		return "\x01" + body + "\x01 "
	case 5:
		return Pick(r, "", "\x01", "\x01\x01", "\x01\x01\x01", "\x01 \x01", "\x01  \x01", "\x01A\x01", "\x01 A\x01", "hello", "\x01A \x01")
	}
	return "\x01" + body + "\x01"
}

// genCTCPEvent: quiet = only commands for which no built-in handler writes anything (the
// connected suite observes every line written, and the CTCP stage is the subject).
func genCTCPEvent(r *rand.Rand, quiet bool) Case {
	hasSrc := r.Intn(4) != 0
	name := Pick(r, ctcpSrcNames...)
	if r.Intn(3) == 0 {
		name = Pick(r, "nick", "Nick[x]", "peer")
	}
	cmd := "PRIVMSG"
	switch r.Intn(12) {
	case 0, 1, 2, 3:
		cmd = "NOTICE"
	case 4:
		cmd = Pick(r, "privmsg", "notice", "TOPIC", "", "PRIVMSGX", "Privmsg", "WALLOPS", "INVITE", "TAGMSG")
		if !quiet && r.Intn(3) == 0 {
			cmd = Pick(r, "JOIN", "PING", "001", "PART")
		}
	}
	target := Pick(r, ctcpTargets...)
	text := genCTCPText(r)
	switch r.Intn(16) {
	case 0:
		return caseOfEv(hasSrc, name, cmd)
	case 1:
		return caseOfEv(hasSrc, name, cmd, text)
	case 2:
		return caseOfEv(hasSrc, name, cmd, target, "x", text)
	case 3:
		return caseOfEv(hasSrc, name, cmd, target, text, "x")
	}
	return caseOfEv(hasSrc, name, cmd, target, text)
}

func ctcpSig(e *girc.Event) string {
	sig := "other"
	if e.Command == "PRIVMSG" || e.Command == "NOTICE" {
		sig = strings.ToLower(e.Command)
	}
	if len(e.Params) != 2 {
		return sig + "/params" + strconv.Itoa(len(e.Params))
	}
	p := e.Params[1]
	d := specDecode(&girc.Event{Command: "PRIVMSG", Params: e.Params})
	switch {
	case d == nil && len(p) >= 2 && p[0] == 1 && p[len(p)-1] == 1:
		sig += "/badtag"
	case d == nil && (strings.HasPrefix(p, "\x01") || strings.HasSuffix(p, "\x01")):
		sig += "/baddelim"
	case d == nil:
		sig += "/plain"
	case isKnownCTCP(d.cmd):
		sig += "/known"
	case d.cmd == "ACTION":
		sig += "/action"
	default:
		sig += "/unknown"
	}
	switch {
	case e.Source == nil:
		sig += "/nosrc"
	case specNick(specFold(e.Source.Name)):
		sig += "/nick"
	default:
		sig += "/othersrc"
	}
	if len(e.Params) > 0 && specChannel(e.Params[0]) {
		sig += "/chan"
	} else {
		sig += "/user"
	}
	return sig
}

// ---- connected sessions ----

type ctcpSess struct {
	s *drive.Session
	n int
}

var (
	ctcpSessMu sync.Mutex
	ctcpSesss  = map[string]*ctcpSess{}
)

const ctcpCfgVersion = "verif 1.0"

// session returns the (lazily started) client of a table variant:
// "0" default table; "1" default table, Config.Version set; "2" wildcard handler, a
// handler for FOO, SOURCE cleared; "t" the session of suite ctcp.table (table rebuilt per case).
// "3", "4", "5" and "u" (ctcp.table) are the default table plus application handlers that
// rewrite the event they are handed before the CTCP stage runs: "3" foreground on PRIVMSG and
// NOTICE, "4" foreground on ALL_EVENTS, "5" background on both, "u" foreground on both.
func ctcpSession(variant string) *ctcpSess {
	ctcpSessMu.Lock()
	defer ctcpSessMu.Unlock()
	switch variant {
	case "1", "2", "3", "4", "5", "t", "u":
	default:
		variant = "0"
	}
	if x := ctcpSesss[variant]; x != nil {
		return x
	}
	cfg := drive.BaseConfig()
	cfg.PingDelay = -1
	if variant == "1" {
		cfg.Version = ctcpCfgVersion
	}
	s := drive.Start(cfg)
	if variant == "2" {
		s.C.CTCP.Set("*", func(c *girc.Client, ev girc.CTCPEvent) { c.Cmd.Notice("wild", "w "+ev.Command) })
		s.C.CTCP.Set("foo", func(c *girc.Client, ev girc.CTCPEvent) { c.Cmd.Notice("foo", "f "+ev.Text) })
		s.C.CTCP.Clear("source")
	}
	switch variant {
	case "3":
		s.C.Handlers.Add(girc.PRIVMSG, ctcpMutate)
		s.C.Handlers.Add(girc.NOTICE, ctcpMutate)
	case "4":
		s.C.Handlers.Add(girc.ALL_EVENTS, ctcpMutate)
	case "5":
		s.C.Handlers.AddBg(girc.PRIVMSG, ctcpMutate)
		s.C.Handlers.AddBg(girc.NOTICE, ctcpMutate)
		s.C.Handlers.AddBg(girc.ALL_EVENTS, ctcpMutate)
	case "u":
		s.C.Handlers.Add(girc.PRIVMSG, ctcpMutate)
		s.C.Handlers.Add(girc.NOTICE, ctcpMutate)
		s.C.Handlers.Add(girc.ALL_EVENTS, ctcpMutate)
	}
	x := &ctcpSess{s: s}
	ctcpSesss[variant] = x
	return x
}

// ctcpMutate is an application handler that rewrites the event it was handed - its own copy,
// as far as the documented contract goes: source, target, text, and one more parameter. If
// RunHandlers let the CTCP stage decode what a handler has written to, automatic answers would
// go to "mallory", quote "hijacked", or exist for messages that were not CTCP.
func ctcpMutate(c *girc.Client, e girc.Event) {
	if e.Command != girc.PRIVMSG && e.Command != girc.NOTICE {
		return
	}
	if e.Source != nil {
		e.Source.Name = "mallory"
		e.Source.Ident = "evil"
		e.Source.Host = "third.party"
	}
	if len(e.Params) > 0 {
		e.Params[0] = "#elsewhere"
	}
	if len(e.Params) > 1 {
		e.Params[1] = "\x01PING hijacked\x01"
	}
	e.Params = append(e.Params, "extra")
	_ = e.Params
}

// quiesce waits until the goroutines started since `base` was taken have ended (the
// default repliers run in goroutines of their own).
func quiesce(base int) {
	deadline := time.Now().Add(2 * time.Second)
	for runtime.NumGoroutine() > base && time.Now().Before(deadline) {
		time.Sleep(20 * time.Microsecond)
	}
}

// flush sends a marker through the client's own send queue and returns what the client
// wrote since mark, up to the marker (lines without CRLF).
func (x *ctcpSess) flush(mark int) []string {
	x.n++
	tok := strconv.Itoa(x.n)
	x.s.C.Send(&girc.Event{Command: "VSYNC", Params: []string{tok}})
	deadline := time.Now().Add(5 * time.Second)
	for {
		lines := x.s.Since(mark)
		for i, l := range lines {
			if l == "VSYNC "+tok+"\r\n" {
				out := make([]string, 0, i)
				for _, p := range lines[:i] {
					out = append(out, strings.TrimSuffix(p, "\r\n"))
				}
				return out
			}
		}
		if time.Now().After(deadline) {
			return append(lines, "?sync-timeout")
		}
		time.Sleep(20 * time.Microsecond)
	}
}

// renderLine gives a wire line that ParseEvent turns into exactly e, or "".
func renderLine(e *girc.Event) string {
	var sb strings.Builder
	if e.Source != nil {
		n := e.Source.Name
		if n == "" || strings.ContainsAny(n, " \r\n\x00!@") {
			return ""
		}
		sb.WriteString(":" + n)
		if !strings.Contains(n, ".") {
			sb.WriteString("!u@h")
		}
		sb.WriteString(" ")
	}
	sb.WriteString(e.Command)
	for i, p := range e.Params {
		if i == len(e.Params)-1 {
			sb.WriteString(" :" + p)
		} else {
			sb.WriteString(" " + p)
		}
	}
	line := sb.String()
	p := girc.ParseEvent(line)
	if p == nil || p.Command != e.Command || len(p.Params) != len(e.Params) || (p.Source == nil) != (e.Source == nil) {
		return ""
	}
	if p.Source != nil && p.Source.Name != e.Source.Name {
		return ""
	}
	for i := range p.Params {
		if p.Params[i] != e.Params[i] {
			return ""
		}
	}
	return line
}

// inject runs the handlers for e and returns every line the client wrote because of it.
func (x *ctcpSess) inject(e *girc.Event) (lines []string, route string, panicked bool) {
	before := x.s.PanicCount()
	mark := x.s.Mark()
	base := runtime.NumGoroutine()
	ev := e
	if line := renderLine(e); line != "" {
		route = "line"
		ev = girc.ParseEvent(line)
	} else {
		route = "struct"
		ev = e.Copy()
	}
	// what readLoop does before dispatching: a PRIVMSG/NOTICE from the client itself is an
	// echo (RunHandlers then skips the command's ordinary handlers - but not the CTCP stage)
	if (ev.Command == "PRIVMSG" || ev.Command == "NOTICE") && ev.Source != nil && ev.Source.ID() == x.s.C.GetID() {
		ev.Echo = true
		route += "+echo"
	}
	x.s.C.RunHandlers(ev)
	quiesce(base)
	lines = x.flush(mark)
	return lines, route, x.s.PanicCount() != before
}

var versionFormat = "girc (github.com/lrstanley/girc) using %s (%s, %s)"

// canonReply replaces the run-dependent payloads of TIME, VERSION and FINGER replies by
// the placeholders of the model's environment, after checking their shape.
func canonReply(l string) string {
	if !strings.HasSuffix(l, "\x01") {
		return l
	}
	if i := strings.LastIndex(l, "\x01TIME :"); i >= 0 {
		ts := l[i+7 : len(l)-1]
		if _, err := time.Parse(time.RFC1123Z, ts); err == nil {
			return l[:i+7] + "<now>\x01"
		}
	}
	vt := "\x01VERSION " + fmt.Sprintf(versionFormat, runtime.Version(), runtime.GOOS, runtime.GOARCH) + "\x01"
	if strings.HasSuffix(l, vt) {
		return strings.TrimSuffix(l, vt) + "\x01VERSION " + fmt.Sprintf(versionFormat, "<gover>", "<goos>", "<goarch>") + "\x01"
	}
	head := "\x01FINGER Real Name -- idle "
	if i := strings.LastIndex(l, head); i >= 0 {
		d := l[i+len(head) : len(l)-1]
		if _, err := time.ParseDuration(d); err == nil {
			return l[:i+len(head)] + "<idle>\x01"
		}
	}
	return l
}

func lineSafeName(n string) bool {
	return n != "" && utf8.ValidString(n) && !strings.ContainsAny(n, " \r\n\x00") && n[0] != ':'
}

// replyOracle is the reply discipline of the statement evaluated on what the client
// wrote for e (default table).
// singleLine: what was written for one event must not contain a CR or LF before its
// terminator - an IRC server ends a message at either, so anything after it would be a second
// message of the requester's choosing (lines are the written bytes cut at LF, terminator removed).
func singleLine(lines []string) string {
	for _, l := range lines {
		if strings.ContainsAny(l, "\r\n") {
			return fmt.Sprintf("reply-not-single-line: the bytes written for one answer hold a line break: %q", l)
		}
	}
	return ""
}

func replyOracle(x *ctcpSess, e *girc.Event, lines []string) string {
	if len(lines) == 0 {
		return ""
	}
	if o := singleLine(lines); o != "" {
		return o
	}
	l := lines[0]
	if len(lines) > 1 {
		// Client.Send may split one over-long answer into several lines, each repeating
		// "NOTICE target :\x01COMMAND " (C11's subject); anything else is a second answer
		head := l
		if i := strings.Index(l, " :\x01"); i >= 0 {
			if j := strings.IndexByte(l[i+3:], ' '); j >= 0 {
				head = l[:i+3+j+1]
			}
		}
		for _, o := range lines[1:] {
			if head == l || !strings.HasPrefix(o, head) {
				return fmt.Sprintf("reply-count: %d answers written for one event", len(lines))
			}
		}
	}
	switch {
	case e.Command == "NOTICE":
		return "reply-to-notice: an automatic answer to a NOTICE"
	case e.Command != "PRIVMSG":
		return "reply-to-non-request: an automatic answer to " + e.Command
	case e.Source == nil:
		return "reply-unattributable: an automatic answer to a request without source"
	}
	d := specDecode(e)
	switch {
	case d == nil:
		return "reply-to-non-ctcp: an automatic answer to a message that is not CTCP"
	case d.cmd == "ACTION":
		return "reply-to-action: an automatic answer to ACTION"
	case !isKnownCTCP(d.cmd) && !specNick(specFold(e.Source.Name)) && !specNick(e.Source.Name):
		return "errmsg-to-invalid-nick: ERRMSG sent to a source that is not a nickname"
	}
	if !strings.HasPrefix(l, "NOTICE ") {
		return "reply-not-notice: the answer is not a NOTICE"
	}
	if lineSafeName(e.Source.Name) {
		p := girc.ParseEvent(l)
		if p == nil || p.Command != "NOTICE" || len(p.Params) != 2 || specFold(p.Params[0]) != specFold(e.Source.Name) {
			return "reply-target: the answer does not go to the requester"
		}
		if t := p.Params[1]; len(t) < 3 || t[0] != 1 || t[len(t)-1] != 1 {
			return "reply-shape: the answer is not CTCP encoded"
		}
	}
	// no loop: the answer, received by a peer running the same code, elicits nothing
	if back := girc.ParseEvent(":peer!u@h " + l); back != nil {
		again, _, _ := x.inject(back)
		if len(again) != 0 {
			return "reply-loop: the answer elicits an answer"
		}
	}
	return ""
}

func init() {
	Register(&Suite{
		Name: "ctcp.decode",
		Prop: []string{"C14"},
		Fixed: func() []Case {
			var out []Case
			for b := 0; b < 256; b++ {
				s := string([]byte{byte(b)})
				for _, k := range []string{"PRIVMSG", "NOTICE"} {
					out = append(out,
						caseOfEv(true, "n", k, "me", "\x01"+s+"\x01"),
						caseOfEv(true, "n", k, "me", "\x01"+s+" x\x01"),
						caseOfEv(true, "n", k, "me", "\x01A"+s+"\x01"),
						caseOfEv(true, "n", k, "me", "\x01A"+s+"9 x\x01"),
						caseOfEv(true, "n", k, "me", s+"PING\x01"),
						caseOfEv(true, "n", k, "me", "\x01PING"+s),
						caseOfEv(false, "", k, "me", "\x01PING "+s+"\x01"))
				}
			}
			for _, t := range []string{"", "\x01", "\x01\x01", "\x01\x01\x01", "\x01 \x01", "\x01 a\x01", "\x01A\x01", "\x01A \x01", "\x01A  \x01", "\x01A B C\x01"} {
				out = append(out, caseOfEv(true, "n", "PRIVMSG", "me", t), caseOfEv(true, "n", "PRIVMSG", t), caseOfEv(true, "n", "PRIVMSG", "me", t, "x"),
					caseOfEv(true, "n", "PRIVMSG", "me", "x", t), caseOfEv(true, "n", "privmsg", "me", t), caseOfEv(true, "n", "JOIN", "me", t), caseOfEv(true, "n", "PRIVMSG"))
			}
			return out
		},
		Exhaustive: "every byte value as the whole tag, inside a tag, as either delimiter and as text, for PRIVMSG and NOTICE",
		Gen:        func(r *rand.Rand) Case { return genCTCPEvent(r, false) },
		Run: func(c Case) Result {
			e := evOfCase(c)
			got := girc.DecodeCTCP(e)
			want := specDecode(e)
			res := Result{Obs: showCTCP(got), Sig: ctcpSig(e)}
			switch {
			case got != nil && want == nil:
				res.Oracle = "decode-accepts-non-ctcp: decoded a message that is not CTCP"
			case got == nil && want != nil:
				res.Oracle = "decode-rejects-ctcp: valid CTCP message not decoded"
			case got != nil && (got.Command != want.cmd || got.Text != want.text || got.Reply != want.reply):
				res.Oracle = "decode-fields: wrong command, text or reply flag"
			case got != nil && got.Source != e.Source:
				res.Oracle = "decode-source: source not carried over"
			}
			return res
		},
	})

	Register(&Suite{
		Name: "ctcp.roundtrip",
		Prop: []string{"C14"},
		Fixed: func() []Case {
			var out []Case
			texts := []string{"", " ", "x", " x", "a b", "\x01", "x\x01", "\x01x", "\xff", "a\nb"}
			for b := 0; b < 256; b++ {
				s := string([]byte{byte(b)})
				for _, t := range texts {
					out = append(out, Case{s, t}, Case{"A" + s, t}, Case{s + "9", t})
				}
				out = append(out, Case{"PING", s}, Case{"PING", s + s}, Case{"PING", "a" + s}, Case{"PING", s + "a"})
			}
			out = append(out, Case{"", ""}, Case{"", "x"})
			return out
		},
		Exhaustive: "every byte value as a one-byte command and at both ends of a two-byte command, against ten text shapes; every byte value as text",
		Gen: func(r *rand.Rand) Case {
			var cmd string
			switch k := r.Intn(10); {
			case k < 5:
				cmd = RandBytes(r, 1+r.Intn(10), "ABCXYZ0189")
			case k < 7:
				cmd = Pick(r, append(append([]string{}, ctcpKnown...), ctcpOtherOK...)...)
			case k < 9:
				cmd = Pick(r, ctcpBadCmds...)
			default:
				cmd = RandBytes(r, r.Intn(5), "")
			}
			var text string
			switch k := r.Intn(10); {
			case k < 3:
				text = Pick(r, ctcpTexts...)
			case k < 6:
				text = RandBytes(r, r.Intn(30), "ab \x01:\xc3\xa9")
			default:
				text = RandBytes(r, r.Intn(40), "")
			}
			return Case{cmd, text}
		},
		Run: func(c Case) Result {
			cmd, text := c[0], c[1]
			enc := girc.EncodeCTCPRaw(cmd, text)
			dp := girc.DecodeCTCP(&girc.Event{Command: "PRIVMSG", Params: []string{"t", enc}})
			dn := girc.DecodeCTCP(&girc.Event{Command: "NOTICE", Params: []string{"t", enc}})
			res := Result{Obs: Hex(enc) + ";" + showCTCP(dp) + ";" + showCTCP(dn)}
			valid := specTagOK(cmd)
			switch {
			case valid && text == "":
				res.Sig = "valid/notext"
			case valid && text[0] == ' ':
				res.Sig = "valid/spacetext"
			case valid:
				res.Sig = "valid/text"
			case cmd == "":
				res.Sig = "trivial-empty"
			default:
				res.Sig = "invalidcmd"
			}
			switch {
			case girc.EncodeCTCP(&girc.CTCPEvent{Command: cmd, Text: text}) != enc:
				res.Oracle = "encode-variants: EncodeCTCP and EncodeCTCPRaw disagree"
			case cmd == "" && enc != "":
				res.Oracle = "encode-empty: empty command encoded"
			case valid && (dp == nil || dn == nil):
				res.Oracle = "roundtrip-lost: encoded message does not decode"
			case valid && (dp.Command != cmd || dp.Text != text || dn.Command != cmd || dn.Text != text):
				res.Oracle = "roundtrip-changed: decode(encode) differs"
			case valid && (dp.Reply || !dn.Reply):
				res.Oracle = "roundtrip-reply-flag: reply flag is not (command == NOTICE)"
			case valid && (enc[0] != 1 || enc[len(enc)-1] != 1):
				res.Oracle = "encode-delim: missing delimiter"
			}
			return res
		},
	})

	Register(&Suite{
		Name: "ctcp.replies",
		Prop: []string{"C14"},
		Fixed: func() []Case {
			var out []Case
			for _, v := range []string{"0", "1", "2", "3", "4", "5"} {
				for _, k := range []string{"PRIVMSG", "NOTICE"} {
					for _, c := range append(append(append([]string{}, ctcpKnown...), ctcpOtherOK...), "ping", "Version", "", "PI!NG") {
						for _, t := range []string{"", " 12345", " a b"} {
							body := "\x01" + c + t + "\x01"
							out = append(out, append(Case{v}, caseOfEv(true, "Nick[x]", k, "me", body)...))
							out = append(out, append(Case{v}, caseOfEv(false, "", k, "me", body)...))
							out = append(out, append(Case{v}, caseOfEv(true, "irc.server.net", k, "#chan", body)...))
						}
					}
				}
				out = append(out, append(Case{v}, caseOfEv(true, "nick", "PRIVMSG", "me", "\x01 a\x01")...))
				out = append(out, append(Case{v}, caseOfEv(true, "nick", "PRIVMSG", "me", "hello")...))
			}
			return out
		},
		Gen: func(r *rand.Rand) Case {
			v := "0"
			switch r.Intn(10) {
			case 0:
				v = "1"
			case 1:
				v = "2"
			case 2, 3:
				v = "3"
			case 4, 5:
				v = "4"
			case 6:
				v = "5"
			}
			return append(Case{v}, genCTCPEvent(r, true)...)
		},
		Run: func(c Case) Result {
			if len(c) < 4 {
				return Result{Obs: "?args"}
			}
			x := ctcpSession(c[0])
			e := evOfCase(c[1:])
			lines, route, panicked := x.inject(e)
			if panicked {
				return Result{Obs: "PANIC", Oracle: "panic: a CTCP handler panicked", Sig: "panic"}
			}
			for i := range lines {
				lines[i] = canonReply(lines[i])
			}
			res := Result{Obs: HexList(lines), Sig: "v" + c[0] + "/" + route + "/" + ctcpSig(e) + "/" + strconv.Itoa(len(lines))}
			if c[0] != "2" {
				res.Oracle = replyOracle(x, e, lines)
			}
			return res
		},
	})

	Register(&Suite{
		Name:       "ctcp.decode.line",
		Prop:       []string{"C14"},
		Fixed:      func() []Case { return append(ctcpLineFixed(), ctcpEmptyPrefixFixed()...) },
		Exhaustive: "white space of every kind strings.TrimSpace knows (and some it does not) after the closing and before the opening delimiter, CRLF and bare LF line ends",
		Gen:        func(r *rand.Rand) Case { return genCTCPLine(r, false) },
		Run: func(c Case) Result {
			if len(c) < 5 {
				return Result{Obs: "?args"}
			}
			spec := specOfLine(c)
			want := specDecode(spec)
			e := girc.ParseEvent(c[0])
			if c[1] == "" {
				// empty prefix: the only acceptable verdict is "not a message"
				if e == nil {
					return Result{Obs: "noparse", Sig: "line/emptyprefix"}
				}
				res := Result{Obs: showCTCP(girc.DecodeCTCP(e)), Sig: "line/emptyprefix-accepted"}
				if e.Source != nil && girc.DecodeCTCP(e) != nil {
					res.Oracle = "decode-unattributable: a line with an empty prefix became a CTCP message with a source"
				}
				return res
			}
			if e == nil {
				return Result{Obs: "noparse", Oracle: "line-noparse: a well-formed line was not parsed", Sig: "noparse"}
			}
			got := girc.DecodeCTCP(e)
			res := Result{Obs: showCTCP(got), Sig: "line/" + ctcpSig(spec)}
			switch {
			case got != nil && want == nil:
				res.Oracle = "decode-accepts-non-ctcp: a received line whose text is not delimited by 0x01 on both ends was decoded as CTCP"
			case got == nil && want != nil:
				res.Oracle = "decode-rejects-ctcp: valid CTCP line not decoded"
			case got != nil && (got.Command != want.cmd || got.Text != want.text || got.Reply != want.reply):
				res.Oracle = "decode-fields: wrong command, text or reply flag"
			}
			return res
		},
	})

	Register(&Suite{
		Name: "ctcp.replies.wire",
		Prop: []string{"C14"},
		Fixed: func() []Case {
			var out []Case
			for _, c := range append(ctcpLineFixed(), ctcpEmptyPrefixFixed()...) {
				out = append(out, append(Case{"0"}, c...))
			}
			return out
		},
		Gen: func(r *rand.Rand) Case {
			return append(Case{Pick(r, "0", "0", "1", "4")}, genCTCPLine(r, true)...)
		},
		Run: func(c Case) Result {
			if len(c) < 6 || !strings.HasSuffix(c[1], "\n") || strings.Contains(strings.TrimRight(c[1], "\r\n"), "\n") {
				return Result{Obs: "?args"}
			}
			spec := specOfLine(c[1:])
			if c[2] == "" {
				// a line ParseEvent must reject makes the read loop give up the connection: a
				// client of its own
				lines, gone := wireInjectFresh(c[1])
				for i := range lines {
					lines[i] = canonReply(lines[i])
				}
				res := Result{Obs: HexList(lines), Sig: "fresh/" + ctcpSig(spec) + "/" + strconv.Itoa(len(lines))}
				if gone && len(lines) == 0 {
					res.Obs = "noparse"
				}
				if len(lines) != 0 {
					res.Oracle = "reply-unattributable: an automatic answer to a line with an empty prefix: " + strconv.Quote(lines[0])
				}
				return res
			}
			x := ctcpSession(c[0])
			lines, panicked := x.wireInject(c[1])
			if panicked {
				return Result{Obs: "PANIC", Oracle: "panic: a CTCP handler panicked", Sig: "panic"}
			}
			for i := range lines {
				lines[i] = canonReply(lines[i])
			}
			res := Result{Obs: HexList(lines), Sig: "v" + c[0] + "/wire/" + ctcpSig(spec) + "/" + strconv.Itoa(len(lines))}
			res.Oracle = replyOracle(x, spec, lines)
			return res
		},
	})

	Register(&Suite{
		Name: "ctcp.send",
		Prop: []string{"C14"},
		Fixed: func() []Case {
			var out []Case
			for _, k := range []string{"Q", "R"} {
				for _, ty := range append(append(append([]string{}, ctcpKnown...), ctcpOtherOK...), ctcpBadCmds...) {
					for _, m := range []string{"", "x", " x", "a b", "\x01"} {
						out = append(out, Case{k, "nick", ty, m}, Case{k, "#chan", ty, m})
					}
				}
			}
			return out
		},
		Gen: func(r *rand.Rand) Case {
			ty := Pick(r, append(append(append([]string{}, ctcpKnown...), ctcpOtherOK...), ctcpBadCmds...)...)
			if r.Intn(8) == 0 {
				ty = RandBytes(r, r.Intn(4), "AZ az09\x01")
			}
			return Case{Pick(r, "Q", "R"), Pick(r, "nick", "#chan", "Nick[x]", "", "a b", ":c"), ty, Pick(r, ctcpTexts...)}
		},
		Run: func(c Case) Result {
			if len(c) < 4 {
				return Result{Obs: "?args"}
			}
			x := ctcpSession("0")
			lines, panicked := sendCTCP(x, c[0], c[1], c[2], c[3])
			if panicked {
				res := Result{Obs: "PANIC", Sig: "panic/" + c[0]}
				if c[2] != "" {
					res.Oracle = "send-panic: SendCTCP panicked on a non-empty CTCP type"
				}
				return res
			}
			if o := singleLine(lines); o != "" {
				return Result{Obs: HexList(lines), Oracle: o, Sig: "linebreak"}
			}
			if len(lines) != 1 {
				return Result{Obs: HexList(lines), Oracle: fmt.Sprintf("send-count: %d lines for one SendCTCP", len(lines)), Sig: "count"}
			}
			res := Result{Obs: Hex(lines[0]), Sig: "sent/" + c[0]}
			want := "PRIVMSG "
			if c[0] == "R" {
				want = "NOTICE "
			}
			if specTagOK(c[2]) {
				res.Sig += "/tag"
			} else {
				res.Sig += "/badtype"
			}
			switch {
			case c[2] == "":
				res.Oracle = "send-empty: an empty CTCP type was sent"
			case !strings.HasPrefix(lines[0], want):
				res.Oracle = "send-kind: a request must be a PRIVMSG and a reply a NOTICE"
			}
			return res
		},
	})

	Register(&Suite{
		Name: "ctcp.parsecmd",
		Prop: []string{"C14"},
		Fixed: func() []Case {
			var out []Case
			for b := 0; b < 256; b++ {
				c := string([]byte{byte(b)})
				out = append(out, Case{c}, Case{"a" + c + "9"}, Case{c + c})
			}
			// every rune of Unicode whose strings.ToUpper image is pure ASCII (the model knows
			// the ASCII letters and two more), alone and inside a name
			for r := rune(0x80); r <= 0x10ffff; r++ {
				if r >= 0xd800 && r <= 0xdfff {
					continue
				}
				if ctcpIsASCII(strings.ToUpper(string(r))) {
					out = append(out, Case{string(r)}, Case{"x" + string(r) + "1"})
				}
			}
			for _, n := range ctcpSetNames {
				out = append(out, Case{n})
			}
			return out
		},
		Exhaustive: "all single bytes (alone, doubled, inside a name); every rune of Unicode whose upper-case image is ASCII",
		Gen: func(r *rand.Rand) Case {
			var sb strings.Builder
			for i, n := 0, r.Intn(8); i < n; i++ {
				switch r.Intn(10) {
				case 0:
					sb.WriteByte(byte(r.Intn(256)))
				case 1:
					sb.WriteRune(rune(r.Intn(0x3000)))
				case 2:
					sb.WriteString(Pick(r, "\xc4\xb1", "\xc5\xbf", "\xe2\x84\xaa", "\xc4\xb0", "\xc5", "\xc4", "*", " "))
				default:
					sb.WriteString(Pick(r, "a", "Z", "q", "0", "9", "M", "s", "i"))
				}
			}
			return Case{sb.String()}
		},
		Run: func(c Case) Result {
			got := girc.VerifCTCPParseCmd(c[0])
			res := Result{Obs: Hex(got)}
			switch {
			case got == "":
				res.Sig = "rejected"
			case got == "*":
				res.Sig = "wildcard"
			case ctcpIsASCII(c[0]):
				res.Sig = "tag/ascii"
			default:
				res.Sig = "tag/ascii-image-of-non-ascii"
			}
			// a key is the wildcard or a command DecodeCTCP can produce
			if got != "" && got != "*" && !specTagOK(got) {
				res.Oracle = "parsecmd-key: a handler key that no decoded command can equal"
			}
			if got == "*" && c[0] != "*" {
				res.Oracle = "parsecmd-wildcard: a name other than * registered as the wildcard"
			}
			return res
		},
	})

	Register(&Suite{
		Name: "ctcp.table",
		Prop: []string{"C14"},
		Fixed: func() []Case {
			var out []Case
			mk := func(ops []string, ev Case) Case {
				c := Case{strconv.Itoa(len(ops))}
				c = append(c, ops...)
				return append(c, ev...)
			}
			mkm := func(ops []string, ev Case) Case {
				c := mk(ops, ev)
				c[0] += "m"
				return c
			}
			evs := []Case{
				caseOfEv(true, "nick", "PRIVMSG", "me", "\x01VERSION\x01"),
				caseOfEv(true, "nick", "PRIVMSG", "me", "\x01FOO a b\x01"),
				caseOfEv(true, "nick", "NOTICE", "me", "\x01FOO a b\x01"),
				caseOfEv(true, "nick", "PRIVMSG", "#chan", "\x01ACTION waves\x01"),
				caseOfEv(false, "", "PRIVMSG", "me", "\x01SOURCE\x01"),
				caseOfEv(true, "irc.server.net", "PRIVMSG", "me", "\x01S\x01"),
				caseOfEv(true, "nick", "PRIVMSG", "me", "hello"),
			}
			opss := [][]string{
				{}, {"S1*"}, {"B1*"}, {"S2foo"}, {"S2FOO", "S3foo"}, {"C-version"}, {"C-VERSION", "S4Version"},
				{"S1*", "C-*"}, {"S1*", "A-"}, {"S5action"}, {"S6\xc5\xbf"}, {"S6\xc5\xbfource"}, {"C-\xc5\xbfource"},
				{"S7"}, {"S7fo o"}, {"S8foo"}, {"S8*"}, {"B8foo", "S1*"}, {"S1**"}, {"C-"}, {"A-", "A-"},
			}
			for _, ops := range opss {
				for _, ev := range evs {
					out = append(out, mk(ops, ev), mkm(ops, ev))
				}
			}
			return out
		},
		Gen: func(r *rand.Rand) Case {
			n := r.Intn(5)
			c := Case{strconv.Itoa(n)}
			if r.Intn(3) == 0 {
				c[0] += "m"
			}
			for i := 0; i < n; i++ {
				name := Pick(r, ctcpSetNames...)
				switch k := r.Intn(10); {
				case k < 4:
					c = append(c, "S"+strconv.Itoa(1+r.Intn(8))+name)
				case k < 6:
					c = append(c, "B"+strconv.Itoa(1+r.Intn(8))+name)
				case k < 9:
					c = append(c, "C-"+name)
				default:
					c = append(c, "A-")
				}
			}
			ev := genCTCPEvent(r, true)
			if r.Intn(3) == 0 && len(ev) == 5 {
				ev[4] = "\x01" + Pick(r, "FOO", "FOO1", "I", "S", "SOURCE", "ACTION", "VERSION", "PING", "ERRMSG", "X") + Pick(r, "", " ", " a b", " |x|", " a\rb", " 1\rPRIVMSG #chan :hi", " a\nb", " \r\n") + "\x01"
			}
			return append(c, ev...)
		},
		Run: func(c Case) Result {
			if len(c) < 1 || len(c[0]) < 1 || len(c[0]) > 2 || c[0][0] < '0' || c[0][0] > '9' || len(c) < 1+int(c[0][0]-'0')+3 {
				return Result{Obs: "?args"}
			}
			n := int(c[0][0] - '0')
			x := ctcpSession("t")
			if len(c[0]) == 2 {
				// "<n>m": the session whose application handlers rewrite their event
				x = ctcpSession("u")
			}
			ct := x.s.C.CTCP
			ct.ClearAll()
			ref := map[string]string{} // reference table: key -> handler id ("d" = default replier)
			for _, k := range ctcpKnown {
				ref[k] = "d"
			}
			for _, op := range c[1 : 1+n] {
				if len(op) < 2 {
					continue
				}
				kind, id, name := op[0], op[1], op[2:]
				key := refParseCmd(name)
				switch kind {
				case 'S', 'B':
					h := ctcpUserHandler(id, name == "*")
					if kind == 'S' || id == '8' {
						// id 8 writes to the requester like the library's own lines, so its line
						// cannot be told apart afterwards: always synchronous, to keep the order fixed
						ct.Set(name, h)
					} else {
						ct.SetBg(name, h)
					}
					if key != "" {
						ref[key] = string(id)
					}
				case 'C':
					ct.Clear(name)
					if key != "" {
						delete(ref, key)
					}
				case 'A':
					ct.ClearAll()
					ref = map[string]string{}
					for _, k := range ctcpKnown {
						ref[k] = "d"
					}
				}
			}
			keys := ct.VerifCTCPKeys()
			e := evOfCase(c[1+n:])
			lines, route, panicked := x.inject(e)
			if panicked {
				return Result{Obs: "PANIC", Oracle: "panic: a CTCP handler panicked", Sig: "panic"}
			}
			for i := range lines {
				lines[i] = canonReply(lines[i])
			}
			// handlers registered with SetBg run in goroutines of their own: canonical order is
			// the wildcard handler's line first
			sort.SliceStable(lines, func(i, j int) bool { return isWildLine(lines[i]) && !isWildLine(lines[j]) })
			res := Result{Obs: HexList(keys) + ";" + HexList(lines),
				Sig: "ops" + c[0] + "/" + route + "/" + ctcpSig(e) + "/" + strconv.Itoa(len(lines))}
			res.Oracle = tableOracle(ref, keys, e, lines)
			return res
		},
	})
}

// sendCTCP calls Commands.SendCTCP ("Q") or SendCTCPReply ("R") on a connected client and
// returns the line written, or panicked = true.
func sendCTCP(x *ctcpSess, kind, target, typ, msg string) (lines []string, panicked bool) {
	mark := x.s.Mark()
	func() {
		defer func() {
			if recover() != nil {
				panicked = true
			}
		}()
		if kind == "R" {
			x.s.C.Cmd.SendCTCPReply(target, typ, msg)
		} else {
			x.s.C.Cmd.SendCTCP(target, typ, msg)
		}
	}()
	return x.flush(mark), panicked
}

// ---- the real read path (suites ctcp.decode.line, ctcp.replies.wire) ----
//
// A case is the raw line plus the pieces it was assembled from (nick, command, target, text):
// the oracle decides CTCP-ness from the raw bytes of the trailing parameter - it must end in
// 0x01 exactly -, not from what the parser made of the line.

var (
	ctcpTrailers = []string{"", "", "", " ", "\t", "\u00a0", "   ", " \t ", "\v", "\f", "\u0085", "x", "\x01", " \x01", "\u2003", "\x00"}
	ctcpLeaders  = []string{"", "", "", "", " ", "\t", "\u00a0", "  ", ":"}
)

func genCTCPLine(r *rand.Rand, wire bool) Case {
	if r.Intn(40) == 0 {
		c := Pick(r, append(append([]string{}, ctcpKnown...), "FOO", "ACTION x", "PING a b")...)
		return emptyPrefixCase(Pick(r, " ", "  ", "   "), Pick(r, "PRIVMSG", "PRIVMSG", "NOTICE"), Pick(r, "me", "#chan", "test"),
			Pick(r, "\x01"+c+"\x01", "\x01"+c+"\x01", "hello"), Pick(r, "\r\n", "\n"))
	}
	nick := Pick(r, "alice", "Nick[x]", "bob", "irc.server.net", "me", "a^b")
	cmd := "PRIVMSG"
	switch r.Intn(10) {
	case 0, 1, 2:
		cmd = "NOTICE"
	case 3:
		if !wire {
			cmd = Pick(r, "TOPIC", "privmsg", "TAGMSG")
		}
	}
	target := Pick(r, "me", "#chan", "test")
	var body string
	switch r.Intn(6) {
	case 0:
		body = genCTCPText(r)
	default:
		c := Pick(r, append(append([]string{}, ctcpKnown...), "ACTION", "FOO", "X1", "ping")...)
		body = "\x01" + c + Pick(r, "", "", " ", " 123", " a b", " trailing  ", " a\rb", " 1\rPRIVMSG #chan :\x01VERSION\x01", " \r", " x\rNICK owned") + "\x01"
	}
	text := body
	if r.Intn(5) < 3 {
		text = Pick(r, ctcpLeaders...) + body + Pick(r, ctcpTrailers...)
	}
	if wire {
		text = strings.Map(func(c rune) rune {
			if c == '\n' {
				return -1 // a LF would end the line on the socket; a bare CR stays inside it
			}
			return c
		}, text)
	}
	eol := Pick(r, "\r\n", "\r\n", "\n")
	if !wire {
		eol = Pick(r, "\r\n", "\n", "", "\r", "\r\n\r\n")
	}
	return ctcpLineCase(nick, cmd, target, text, eol)
}

func ctcpLineCase(nick, cmd, target, text, eol string) Case {
	prefix := ":" + nick
	if !strings.Contains(nick, ".") {
		prefix += "!u@h"
	}
	return Case{prefix + " " + cmd + " " + target + " :" + text + eol, nick, cmd, target, text}
}

// emptyPrefixCase: a line whose ':' prefix indicator is followed directly by a space - ": CMD ...",
// ":  CMD ..." - names nobody: it is not an IRC message (ParseEvent returns nil, the read loop
// gives up the connection) and must never be answered. The nick piece is "" for these.
func emptyPrefixCase(gap, cmd, target, text, eol string) Case {
	return Case{":" + gap + cmd + " " + target + " :" + text + eol, "", cmd, target, text}
}

func ctcpEmptyPrefixFixed() []Case {
	var out []Case
	for _, gap := range []string{" ", "  "} {
		for _, k := range []string{"PRIVMSG", "NOTICE"} {
			for _, c := range append(append([]string{}, ctcpKnown...), "FOO", "ACTION x") {
				out = append(out, emptyPrefixCase(gap, k, "test", "\x01"+c+"\x01", "\r\n"))
			}
			out = append(out, emptyPrefixCase(gap, k, "test", "\x01PING 1 2\x01", "\n"), emptyPrefixCase(gap, k, "#chan", "hello", "\r\n"))
		}
	}
	return out
}

// specOfLine: the event the line stands for, from the pieces. The line terminator is not part
// of the text, so CR/LF at its very end are not either.
func specOfLine(c Case) *girc.Event {
	// (IRC commands are case-insensitive; ParseEvent normalises them to upper case)
	if c[1] == "" {
		// empty prefix: nobody to attribute the message to
		return &girc.Event{Command: strings.ToUpper(c[2]), Params: []string{c[3], strings.TrimRight(c[4], "\r\n")}}
	}
	return &girc.Event{Source: &girc.Source{Name: c[1]}, Command: strings.ToUpper(c[2]), Params: []string{c[3], strings.TrimRight(c[4], "\r\n")}}
}

func ctcpLineFixed() []Case {
	var out []Case
	for _, k := range []string{"PRIVMSG", "NOTICE"} {
		for _, body := range []string{"\x01VERSION\x01", "\x01PING 1\x01", "\x01FOO\x01", "\x01ACTION waves\x01", "\x01TIME \x01"} {
			for _, tr := range []string{"", " ", "\t", "\u00a0", "  ", " \t", "\v", "\f", "\u0085", "\u1680", "\u2028", "\u3000", "x", "\x01", "\x00"} {
				for _, eol := range []string{"\r\n", "\n"} {
					out = append(out, ctcpLineCase("alice", k, "test", body+tr, eol))
				}
			}
			for _, ld := range []string{" ", "\t", "\u00a0", "  ", ":"} {
				out = append(out, ctcpLineCase("alice", k, "test", ld+body, "\r\n"))
			}
		}
		// a bare CR inside the text: echoed by PING, by ERRMSG-less unknown queries not at all
		for _, body := range []string{"\x01PING a\rb\x01", "\x01PING 1\rPRIVMSG #chan :\x01VERSION\x01\x01", "\x01PING \r\x01", "\x01FOO a\rb\x01", "\x01VERSION \rx\x01"} {
			for _, eol := range []string{"\r\n", "\n"} {
				out = append(out, ctcpLineCase("alice", k, "test", body, eol))
			}
		}
	}
	return out
}

// wireInject writes raw (which carries its own line terminator) to the client's socket, waits
// until the client has handled it - a PING sent after it has been answered - and until the
// goroutines started meanwhile have ended, and returns what the client wrote because of it.
func (x *ctcpSess) wireInject(raw string) (lines []string, panicked bool) {
	before := x.s.PanicCount()
	mark := x.s.Mark()
	base := runtime.NumGoroutine()
	x.n++
	tok := "wsync" + strconv.Itoa(x.n)
	if _, err := x.s.Peer.Write([]byte(raw + "PING :" + tok + "\r\n")); err != nil {
		return []string{"?write-error"}, false
	}
	if _, ok := x.s.WaitLine(func(l string) bool { return l == "PONG "+tok+"\r\n" || l == "PONG :"+tok+"\r\n" }, 10*time.Second); !ok {
		return []string{"?sync-timeout"}, false
	}
	// the answers come from goroutines of their own: wait until they have ended (twice, a
	// goroutine of the reader is being replaced around now) and flush the send queue twice
	time.Sleep(500 * time.Microsecond)
	quiesce(base)
	time.Sleep(200 * time.Microsecond)
	quiesce(base)
	first := x.flush(mark)
	second := x.flush(mark)
	_ = first
	for _, l := range second {
		if strings.HasPrefix(l, "PONG wsync") || strings.HasPrefix(l, "PONG :wsync") || strings.HasPrefix(l, "VSYNC ") {
			continue
		}
		lines = append(lines, l)
	}
	return lines, x.s.PanicCount() != before
}

// wireInjectFresh starts a client of its own, writes raw and a PING to its socket and returns
// what the client wrote in response (the PONG excluded) and whether it gave up the connection.
func wireInjectFresh(raw string) (lines []string, gone bool) {
	cfg := drive.BaseConfig()
	cfg.PingDelay = -1
	s := drive.Start(cfg)
	mark := s.Mark()
	base := runtime.NumGoroutine()
	if _, err := s.Peer.Write([]byte(raw + "PING :fsync\r\n")); err != nil {
		s.Stop()
		return []string{"?write-error"}, false
	}
	deadline := time.Now().Add(10 * time.Second)
	for !gone {
		select {
		case err := <-s.Done:
			s.Done <- err
			gone = true
		default:
		}
		if _, ok := s.WaitLine(func(l string) bool { return l == "PONG fsync\r\n" || l == "PONG :fsync\r\n" }, time.Millisecond); ok {
			break
		}
		if time.Now().After(deadline) {
			s.Stop()
			return []string{"?sync-timeout"}, false
		}
	}
	if !gone {
		time.Sleep(500 * time.Microsecond)
		quiesce(base)
		time.Sleep(2 * time.Millisecond)
		quiesce(base)
	}
	time.Sleep(2 * time.Millisecond)
	for _, l := range s.Since(mark) {
		l = strings.TrimSuffix(l, "\r\n")
		if l == "PONG fsync" || l == "PONG :fsync" {
			continue
		}
		lines = append(lines, l)
	}
	if gone {
		s.Peer.Close()
	} else {
		s.Stop()
	}
	return lines, gone
}

// ---- handler registration (suites ctcp.parsecmd, ctcp.table) ----

var ctcpSetNames = []string{"version", "VERSION", "Version", "ping", "PING", "finger", "source", "time", "pong", "foo", "FOO", "Foo1", "foo1",
	"*", "**", "", "fo o", " foo", "\xc5\xbfource", "\xc5\xbf", "\xc4\xb1", "ping!", "\xff", "\xe2\x84\xaa", "action", "ACTION", "errmsg", "i", "s", "x", "foo\x01"}

func ctcpIsASCII(s string) bool {
	for i := 0; i < len(s); i++ {
		if s[i] >= 0x80 {
			return false
		}
	}
	return true
}

// refParseCmd: the documented registration rule - "*" is the wildcard, otherwise the
// upper-cased name if it is a CTCP tag.
func refParseCmd(name string) string {
	if name == "*" {
		return "*"
	}
	if up := strings.ToUpper(name); specTagOK(up) {
		return up
	}
	return ""
}

// ctcpUserHandler: id '8' answers like a default replier; every other id writes one NOTICE
// to "h<id>" ("w<id>" when registered as the wildcard).
func ctcpUserHandler(id byte, wild bool) func(*girc.Client, girc.CTCPEvent) {
	if id == '8' {
		return func(c *girc.Client, ev girc.CTCPEvent) {
			if ev.Reply || ev.Source == nil {
				return
			}
			c.Cmd.SendCTCPReply(ev.Source.ID(), ev.Command, "r")
		}
	}
	target := "h" + string(id)
	if wild {
		target = "w" + string(id)
	}
	return func(c *girc.Client, ev girc.CTCPEvent) {
		c.Cmd.Notice(target, ev.Command+"|"+ev.Text+"|"+B(ev.Reply))
	}
}

func isWildLine(l string) bool {
	return len(l) > 10 && strings.HasPrefix(l, "NOTICE w") && l[9] == ' ' && l[8] >= '0' && l[8] <= '9'
}

func isUserLine(l string) (id string, ok bool) {
	if len(l) > 10 && strings.HasPrefix(l, "NOTICE h") && l[9] == ' ' && l[8] >= '0' && l[8] <= '9' {
		return l[8:9], true
	}
	return "", false
}

// tableOracle: what registering handlers promises, evaluated on the lines the client wrote.
func tableOracle(ref map[string]string, keys []string, e *girc.Event, lines []string) string {
	if o := singleLine(lines); o != "" {
		return o
	}
	want := make([]string, 0, len(ref))
	for k := range ref {
		want = append(want, k)
	}
	sort.Strings(want)
	if strings.Join(want, "\x00") != strings.Join(keys, "\x00") {
		return fmt.Sprintf("table-keys: handler table %q, registrations say %q", keys, want)
	}
	d := specDecode(e)
	if d == nil {
		if len(lines) != 0 {
			return "table-non-ctcp: a handler ran for a message that is not CTCP"
		}
		return ""
	}
	nWild, nUser, rest := 0, map[string]int{}, []string{}
	for _, l := range lines {
		if isWildLine(l) {
			nWild++
		} else if id, ok := isUserLine(l); ok {
			nUser[id]++
		} else {
			rest = append(rest, l)
		}
	}
	wid, hasWild := ref["*"]
	switch {
	case hasWild && wid != "8" && nWild != 1:
		return fmt.Sprintf("table-wildcard: the wildcard handler ran %d times for one CTCP event", nWild)
	case (!hasWild || wid == "8") && nWild != 0:
		return "table-wildcard: a wildcard line without wildcard handler"
	}
	hid, has := ref[d.cmd]
	if has && hid != "d" && hid != "8" {
		if nUser[hid] != 1 || len(nUser) != 1 {
			return fmt.Sprintf("table-handler: handler %s of %s ran %v", hid, d.cmd, nUser)
		}
	} else if len(nUser) != 0 {
		return fmt.Sprintf("table-handler: unregistered handler ran %v", nUser)
	}
	// what is left was written by repliers (default, id 8) or is the library's ERRMSG
	nRepliers := 0
	if has && (hid == "d" || hid == "8") {
		nRepliers++
	}
	if hasWild && wid == "8" {
		nRepliers++
	}
	errmsg := 0
	for _, l := range rest {
		if strings.Contains(l, "\x01ERRMSG that is an unknown CTCP query\x01") {
			errmsg++
		}
	}
	if errmsg > 0 && (has || d.reply || d.cmd == "ACTION" || e.Source == nil || (!specNick(specFold(e.Source.Name)) && !specNick(e.Source.Name))) {
		return "table-errmsg: ERRMSG although a handler exists, or to a reply, ACTION or unattributable request"
	}
	if errmsg > 1 || len(rest)-errmsg > nRepliers {
		return fmt.Sprintf("table-count: %d lines beyond the registered handlers' own", len(rest))
	}
	if (d.reply || e.Source == nil) && len(rest) != 0 {
		return "table-reply: a replier answered a reply or an unattributable request"
	}
	for _, l := range rest {
		if !strings.HasPrefix(l, "NOTICE ") {
			return "table-not-notice: an answer that is not a NOTICE"
		}
		if e.Source != nil && lineSafeName(e.Source.Name) {
			if p := girc.ParseEvent(l); p == nil || len(p.Params) != 2 || specFold(p.Params[0]) != specFold(e.Source.Name) {
				return "reply-target: the answer does not go to the requester"
			}
		}
	}
	return ""
}
