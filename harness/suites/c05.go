package suites

import (
	"fmt"
	"math/rand"
	"strconv"
	"strings"
	"time"

	"gircverif/drive"

	"github.com/lrstanley/girc"
)

// Hostile generator: every command the state handlers react to, with too few / too many
// parameters, missing sources, unknown users and channels, renames onto existing nicks,
// replies for channels never joined — names drawn from a small pool so that collisions
// and case variants are frequent.

var (
	hostNicks = []string{"me", "ME", "alice", "Alice", "bob", "d\\w", "b[o]b", "B{O}B", "D|W", "carol", "x", "nick^", "NICK~", "café", "a-b", "0day", "", "al ice"}
	hostChans = []string{"#chan", "#CHAN", "#log\\x", "#c[1]", "#C{1}", "#LOG|x", "&local", "#x", "+m", "!ABCDEname", "notachan", "", "#a b", "#caf\xc3\xa9"}
	hostCmds  = []string{"JOIN", "PART", "KICK", "QUIT", "NICK", "353", "MODE", "324", "352", "354", "TOPIC", "332", "004", "005", "375", "372",
		"CHGHOST", "AWAY", "ACCOUNT", "001", "PRIVMSG", "NOTICE", "PING", "PONG", "433", "436", "437", "CAP", "AUTHENTICATE", "900", "902", "903", "904", "905", "906", "907", "908", "366", "ERRORX"}
	ctcpTags = []string{"VERSION", "PING", "PONG", "TIME", "FINGER", "SOURCE", "ACTION", "CLIENTINFO", "X1", "version", "", "A B"}
	capWords = []string{"multi-prefix", "sasl", "account-tag", "account-notify", "away-notify", "chghost", "extended-join", "userhost-in-names", "message-tags", "server-time", "sasl=PLAIN,EXTERNAL", "unknown-cap", "=", "a=b=c", "cap-notify", "batch"}
)

// cmdShapes: every command an internal handler is registered for (builtin.go registerBuiltins),
// with a parameter list that passes the handler's guards; the fixed enumeration sends each
// with 0 .. n+2 parameters, with and without a source.
var cmdShapes = []struct {
	cmd    string
	params []string
}{
	{"001", []string{"me", "Welcome to the network"}},
	{"PING", []string{"tok"}},
	{"PONG", []string{"srv", "tok"}},
	{"JOIN", []string{"#new", "acct", "Real Name"}},
	{"JOIN", []string{"#chan", "*", "Other Name"}},
	{"005", []string{"me", "EXCEPTS=", "=x", "NETWORK=", "are supported by this server"}},
	{"PART", []string{"#chan", "bye now"}},
	{"KICK", []string{"#chan", "alice", "go away"}},
	{"QUIT", []string{"gone fishing"}},
	{"NICK", []string{"bob"}},
	{"353", []string{"me", "=", "#chan", "@alice +bob dave!d@h.example"}},
	{"MODE", []string{"#chan", "+o-v", "alice", "bob"}},
	{"324", []string{"me", "#chan", "+ntk", "key"}},
	{"324", []string{"me", "#chan", "Caf\xc3\xa9", "x"}},
	{"MODE", []string{"#chan", "+\xe9\x80-\x80\xff", "alice"}},
	{"352", []string{"me", "#chan", "id", "host", "srv", "alice", "H", "0 Real Name"}},
	{"354", []string{"me", "1", "#chan", "id", "host", "alice", "acct", "Real Name"}},
	{"TOPIC", []string{"#chan", "new topic"}},
	{"332", []string{"me", "#chan", "the topic"}},
	{"004", []string{"me", "srv.example", "ircd-1", "iow", "biklmnopstv"}},
	{"005", []string{"me", "CHANMODES=b,k,l,imnpst", "PREFIX=(ov)@+", "NICKLEN=9", "are supported by this server"}},
	{"375", []string{"me", "- srv message of the day -"}},
	{"372", []string{"me", "- a line"}},
	{"PRIVMSG", []string{"me", "\x01VERSION\x01"}},
	{"NOTICE", []string{"me", "\x01PING 12345\x01"}},
	{"PRIVMSG", []string{"#chan", "\x01FINGER\x01"}},
	{"CAP", []string{"*", "LS", "multi-prefix sasl account-tag"}},
	{"CAP", []string{"*", "ACK", "multi-prefix account-tag"}},
	{"CAP", []string{"*", "NAK", "multi-prefix"}},
	{"CAP", []string{"*", "DEL", "multi-prefix"}},
	{"CAP", []string{"*", "NEW", "away-notify"}},
	{"CAP", []string{"*", "LS", "*", "multi-prefix"}},
	{"CHGHOST", []string{"newid", "new.host"}},
	{"AWAY", []string{"be right back"}},
	{"ACCOUNT", []string{"acct"}},
	{"AUTHENTICATE", []string{"+"}},
	{"903", []string{"me", "SASL authentication successful"}},
	{"902", []string{"me", "You must use a nick assigned to you"}},
	{"904", []string{"me", "SASL authentication failed"}},
	{"905", []string{"me", "SASL message too long"}},
	{"906", []string{"me", "SASL authentication aborted"}},
	{"907", []string{"me", "You have already authenticated"}},
	{"908", []string{"me", "PLAIN,EXTERNAL", "are available SASL mechanisms"}},
	{"433", []string{"*", "me", "Nickname is already in use"}},
	{"436", []string{"*", "me", "Nickname collision"}},
	{"437", []string{"*", "me", "Nick/channel is temporarily unavailable"}},
}

func joinedPrefix() []Ev {
	return []Ev{{HasSrc: true, Name: "srv", Cmd: "001", Params: []string{"me", "welcome"}},
		{HasSrc: true, Name: "me", Ident: "u", Host: "h", Cmd: "JOIN", Params: []string{"#chan"}},
		{HasSrc: true, Name: "srv", Cmd: "353", Params: []string{"me", "=", "#chan", "me @alice +bob carol"}},
		{HasSrc: true, Name: "me", Ident: "u", Host: "h", Cmd: "JOIN", Params: []string{"#c[1]"}},
		{HasSrc: true, Name: "srv", Cmd: "353", Params: []string{"me", "=", "#c[1]", "me alice b[o]b"}}}
}

// foldHistories: one identity in both RFC1459 spellings, over all four special pairs
// [ { , \ | , ] } , ^ ~ : JOIN in one spelling, NAMES / NICK / KICK / PART / QUIT in the other.
func foldHistories(route string) []Case {
	var out []Case
	me := func(cmd string, ps ...string) Ev {
		return Ev{HasSrc: true, Name: "me", Ident: "u", Host: "h", Cmd: cmd, Params: ps}
	}
	srv := func(cmd string, ps ...string) Ev { return Ev{HasSrc: true, Name: "srv", Cmd: cmd, Params: ps} }
	by := func(n, cmd string, ps ...string) Ev {
		return Ev{HasSrc: true, Name: n, Ident: "i", Host: "h", Cmd: cmd, Params: ps}
	}
	pairs := [][4]string{{"d\\w", "D|W", "#log\\x", "#LOG|X"}, {"a[b]", "A{B}", "#c[1]", "#C{1}"}, {"n^", "N~", "#t^", "#T~"}, {"x[\\]^", "X{|}~", "#[\\]^", "#{|}~"}}
	for _, p := range pairs {
		n1, n2, c1, c2 := p[0], p[1], p[2], p[3]
		head := []Ev{srv("001", "me", "welcome"), me("JOIN", c1), srv("353", "me", "=", c2, "me @"+n2+" +other"), by(n1, "JOIN", c2), me("JOIN", "#second"), srv("353", "me", "=", "#second", "me "+n1)}
		tails := [][]Ev{
			{by(n2, "PART", c1)},
			{srv("KICK", c2, n1, "bye")},
			{by(n1, "NICK", n2), by(n2, "PART", c2)},
			{by(n2, "QUIT", "gone")},
			{me("PART", c2), by(n2, "PART", "#second")},
			{by("other", "NICK", n2), by(n1, "PART", c1)},
			{srv("MODE", c1, "+o", n2), srv("352", "me", c2, "id", "host", "srv", n2, "H", "0 Real"), by(n1, "JOIN", c1)},
		}
		for _, t := range tails {
			out = append(out, EncodeHistory(route, "me", "user", append(append([]Ev{}, head...), t...)))
		}
	}
	return out
}

// shapeHistories: for every shape and every kind of source (none, a tracked user, ourselves,
// a stranger, with an account tag) one history that sends the command with 0 .. n+2 parameters.
func shapeHistories(route string) []Case {
	var out []Case
	type srcKind struct {
		has        bool
		name       string
		acct       bool
		fromJoined bool
	}
	kinds := []srcKind{{false, "", false, true}, {true, "alice", false, true}, {true, "ME", false, true}, {true, "zed", false, true},
		{false, "", true, true}, {true, "b{o}b", true, true}, {true, "alice", false, false}}
	for _, sh := range cmdShapes {
		for _, k := range kinds {
			var evs []Ev
			if k.fromJoined {
				evs = joinedPrefix()
			}
			for n := 0; n <= len(sh.params)+2; n++ {
				e := Ev{Cmd: sh.cmd, HasSrc: k.has, Name: k.name, HasAcct: k.acct, Acct: "tagacct"}
				if k.has {
					e.Ident, e.Host = "id", "h.example"
				}
				for i := 0; i < n; i++ {
					if i < len(sh.params) {
						e.Params = append(e.Params, sh.params[i])
					} else {
						e.Params = append(e.Params, "extra"+strconv.Itoa(i-len(sh.params)))
					}
				}
				for i, p := range e.Params { // only the last parameter may hold spaces
					if i < len(e.Params)-1 && strings.ContainsAny(p, " ") {
						e.Params[i] = strings.Fields(p)[0]
					}
				}
				evs = append(evs, e)
			}
			out = append(out, EncodeHistory(route, "me", "user", evs))
		}
	}
	return out
}

func caseVariant(r *rand.Rand, s string) string {
	b := []byte(s)
	for i, c := range b {
		if r.Intn(3) != 0 {
			continue
		}
		switch {
		case c >= 'a' && c <= 'z':
			b[i] = c - 32
		case c >= 'A' && c <= 'Z':
			b[i] = c + 32
		case c >= '[' && c <= '^':
			b[i] = c + 32
		case c >= '{' && c <= '~':
			b[i] = c - 32
		}
	}
	return string(b)
}

func hostileParam(r *rand.Rand) string {
	switch r.Intn(12) {
	case 0, 1, 2:
		return caseVariant(r, hostNicks[r.Intn(len(hostNicks))])
	case 3, 4, 5:
		return caseVariant(r, hostChans[r.Intn(len(hostChans))])
	case 6:
		return Pick(r, "+o", "-o", "+v", "+ntk", "-k", "+l", "+b", "+ov-v", "+q", "-", "+", "+kl", "ntl", "Caf\xc3\xa9", "+\xc3\xa9t") // valid UTF-8 only: PING and JOIN echo a parameter on the wire, where invalid bytes are dropped
	case 7:
		return Pick(r, "*", "1", "0", "key", "5", "H", "G*", "=", "@", "acct", "%tacuhnr,1")
	case 8:
		return Pick(r, "me @alice +bob", "@+alice!a@h.example bob!b@h2 ~&carol", "@ + x@ @y!z", "0 Real Name", "3 hops", "12345678", "are supported by this server",
			"topic with spaces", "", ":colon", " lead")
	case 9:
		return Pick(r, "CHANMODES=beI,k,l,imnpst", "CHANMODES=b,k,l,imnpst,zz", "CHANMODES=,,,", "CHANMODES=eIb,kf,lj,CFL", "PREFIX=(qaohv)~&@%+", "PREFIX=(ov)@+", "PREFIX=(ov)@", "PREFIX=", "PREFIX",
			"NICKLEN=9", "NICKLEN=x", "LINELEN=1024", "LINELEN=-5", "LINELEN=20", "MAXNICKLEN=40", "USERLEN=10", "USERLEN=30", "HOSTLEN=100", "NETWORK=Test", "=x", "A=", "CASEMAPPING=rfc1459")
	case 10:
		return RandBytes(r, r.Intn(6), "ab#@!+%~&:=,* []{}\\|^")
	default:
		return strconv.Itoa(r.Intn(500))
	}
}

// ---- the ISUPPORT stream: server options that other handlers consume later ----
//
// CHANMODES and PREFIX are stored by 005 and only read when a channel is created
// (createChannel -> NewCModes / parsePrefixes) or a MODE / NAMES line is interpreted; the
// length options feed the line-length bookkeeping. Every value below is followed by the
// lines that consume it.

var (
	isupChanmodes = []string{
		"CHANMODES=beI,k,l,imnpst", "CHANMODES=b,k", "CHANMODES=beI", "CHANMODES=b,k,l", "CHANMODES=,", "CHANMODES=,,", "CHANMODES=,,,", "CHANMODES=,,,,",
		"CHANMODES=a,b,c,d,e", "CHANMODES=a,b,c,d,e,f", "CHANMODES=b,", "CHANMODES=,k", "CHANMODES=b,,l", "CHANMODES=b,k,l,", "CHANMODES=,,,imnpst",
		"CHANMODES=", "CHANMODES", "CHANMODES=b;k", "CHANMODES=b,k,l,imn pst", "CHANMODES=b,k,l,imn1", "CHANMODES=\xe9,k,l,m", "CHANMODES=B,K,L,IMNPST", "CHANMODES=ov,k,l,ov",
		"CHANMODES=bbbb,kkkk,llll,mmmm", "CHANMODES=k,k,k,k", "CHANMODES=I", "CHANMODES=,b",
	}
	isupPrefix = []string{
		"PREFIX=(ov)@+", "PREFIX=(qaohv)~&@%+", "PREFIX=(ov)@", "PREFIX=(o)@+", "PREFIX=()", "PREFIX=(", "PREFIX=)", "PREFIX=(ov", "PREFIX=ov)@+", "PREFIX=", "PREFIX",
		"PREFIX=(ov)@+)", "PREFIX=((ov)@+", "PREFIX=(o)v)@+x", "PREFIX=()@", "PREFIX=(ov)+@", "PREFIX=(vo)@+", "PREFIX=(ohv)@%+", "PREFIX=(Yqaohv)!~&@%+", "PREFIX=(ov)@+ ", "PREFIX=(k)@", "PREFIX=(ovov)@+@+",
	}
	isupOther = []string{
		"CHANTYPES=#&", "CHANTYPES=", "CHANTYPES=#&!+", "CHANTYPES=x", "CASEMAPPING=ascii", "CASEMAPPING=rfc1459", "NETWORK=Test", "EXCEPTS", "EXCEPTS=e", "INVEX=", "STATUSMSG=@+", "MODES=4", "MODES=", "CHANLIMIT=#:120",
		"LINELEN=512", "LINELEN=1024", "LINELEN=0", "LINELEN=-5", "LINELEN=2", "LINELEN=116", "LINELEN=117", "LINELEN=9223372036854775807", "LINELEN=9223372036854775808", "LINELEN=99999999999999999999", "LINELEN=+7", "LINELEN= 5", "LINELEN=0x10", "LINELEN=",
		// NICKLEN/MAXNICKLEN/USERLEN/HOSTLEN stay below 3e18: handleISUPPORT adds three of them in Go
		// ints, and the models do not model int64 wrap-around (DESIGN section 3); a value near
		// MaxInt64 makes maxPrefixLength negative in the Go code (reported to C11).
		"NICKLEN=9", "NICKLEN=0", "NICKLEN=-1", "NICKLEN=500", "NICKLEN=3000000000000000000", "NICKLEN=9223372036854775808", "NICKLEN=x", "MAXNICKLEN=40", "MAXNICKLEN=5", "MAXNICKLEN=-40", "MAXNICKLEN=-9223372036854775808",
		"USERLEN=10", "USERLEN=30", "USERLEN=4000", "USERLEN=3000000000000000000", "HOSTLEN=100", "HOSTLEN=1", "HOSTLEN=3000000000000000000", "HOSTLEN=-9223372036854775809",
		"=x", "A=", "==", "=", "K=a=b", "-CHANMODES", "chanmodes=b,k", "CHANMODES =b,k,l,m",
	}
)

// modeLetters: the letters a CHANMODES / PREFIX token mentions, plus a few it does not.
func modeLetters(tok string) string {
	var b []byte
	for i := 0; i < len(tok); i++ {
		c := tok[i]
		if (c >= 'a' && c <= 'z') || (c >= 'A' && c <= 'Z') || c >= 0x80 {
			b = append(b, c)
		}
	}
	return string(b) + "ovklbntz"
}

// isupportBlock: one 005 line, then the lines that consume what it stored: the creation of a
// channel (our own JOIN or somebody else's), MODE and 324 with flags taken from the advertised
// groups, NAMES with the advertised prefix symbols, a second 005 that changes the value under
// an existing channel, and one more channel.
func isupportBlock(r *rand.Rand, serial int) []Ev {
	srv := func(cmd string, ps ...string) Ev { return Ev{HasSrc: true, Name: "srv", Cmd: cmd, Params: ps} }
	isup := func() (Ev, string) {
		ps := []string{"me"}
		letters := ""
		for i, n := 0, 1+r.Intn(3); i < n; i++ {
			var t string
			switch r.Intn(5) {
			case 0, 1:
				t = isupChanmodes[r.Intn(len(isupChanmodes))]
			case 2, 3:
				t = isupPrefix[r.Intn(len(isupPrefix))]
			default:
				t = isupOther[r.Intn(len(isupOther))]
			}
			if strings.ContainsAny(t, " ") || t == "" {
				t = strings.ReplaceAll(t, " ", "")
				if t == "" {
					t = "X"
				}
			}
			letters += modeLetters(t)
			ps = append(ps, t)
		}
		ps = append(ps, Pick(r, "are supported by this server", "are supported by this server", "are supported by this server", "are available on this server", "this server"))
		return srv("005", ps...), letters
	}
	flags := func(letters string) string {
		var sb strings.Builder
		for i, n := 0, 1+r.Intn(5); i < n; i++ {
			if r.Intn(3) == 0 {
				sb.WriteString(Pick(r, "+", "-"))
			}
			sb.WriteByte(letters[r.Intn(len(letters))])
		}
		return sb.String()
	}
	names := func() string {
		var parts []string
		for i, n := 0, 1+r.Intn(4); i < n; i++ {
			parts = append(parts, RandBytes(r, r.Intn(3), "@+%~&!")+caseVariant(r, hostNicks[r.Intn(10)]))
		}
		return strings.Join(parts, " ")
	}
	e1, letters := isup()
	ch := "#is" + strconv.Itoa(serial) + Pick(r, "", "[a]", "X")
	joiner := Ev{HasSrc: true, Name: Pick(r, "me", "ME", "alice", "zed"), Ident: "u", Host: "h", Cmd: "JOIN", Params: []string{ch}}
	out := []Ev{e1, joiner,
		srv("MODE", caseVariant(r, ch), flags(letters), hostNicks[r.Intn(8)], Pick(r, "key", "5", "*!*@*", "bob")),
		srv("353", "me", "=", caseVariant(r, ch), names()),
		srv("324", "me", ch, flags(letters), Pick(r, "key", "5", "x"))}
	if r.Intn(2) == 0 {
		e2, letters2 := isup()
		out = append(out, e2,
			srv("MODE", ch, flags(letters+letters2), hostNicks[r.Intn(8)]),
			Ev{HasSrc: true, Name: Pick(r, "me", "carol"), Ident: "u", Host: "h", Cmd: "JOIN", Params: []string{ch + "b"}},
			srv("353", "me", "@", ch+"b", names()))
	}
	for i := range out { // only the last parameter may hold spaces or be empty
		for j, p := range out[i].Params {
			if j < len(out[i].Params)-1 && (p == "" || strings.ContainsAny(p, " ") || p[0] == ':') {
				out[i].Params[j] = "x"
			}
		}
	}
	return out
}

// isupportHistories: every CHANMODES and PREFIX value of the pools above on its own, each
// followed by the creation of a channel and by MODE / NAMES / 324 lines that read it.
func isupportHistories(route string) []Case {
	var out []Case
	srv := func(cmd string, ps ...string) Ev { return Ev{HasSrc: true, Name: "srv", Cmd: cmd, Params: ps} }
	for i, tok := range append(append([]string{}, isupChanmodes...), isupPrefix...) {
		t := strings.ReplaceAll(tok, " ", "")
		l := modeLetters(t)
		ch := "#new" + strconv.Itoa(i)
		for _, fresh := range []bool{false, true} {
			var evs []Ev
			if !fresh {
				evs = joinedPrefix()
			}
			evs = append(evs,
				srv("005", "me", t, "are supported by this server"),
				Ev{HasSrc: true, Name: "me", Ident: "u", Host: "h", Cmd: "JOIN", Params: []string{ch}},
				srv("353", "me", "=", ch, "me @alice +bob ~&%carol !dave"),
				srv("MODE", ch, "+"+l[:3]+"-"+l[1:2]+"+"+l[len(l)-8:], "alice", "key", "5", "bob"),
				srv("324", "me", ch, "+"+l, "a", "b", "c"),
				Ev{HasSrc: true, Name: "zed", Ident: "z", Host: "h", Cmd: "JOIN", Params: []string{ch + "x"}},
				srv("MODE", "#chan", "+"+l[:2], "alice", "bob"),
				srv("005", "me", "CHANMODES=beI,k,l,imnpst", "PREFIX=(ov)@+", "are supported by this server"),
				srv("MODE", ch, "-"+l, "alice", "key"))
			out = append(out, EncodeHistory(route, "me", "user", evs))
		}
	}
	for i, tok := range isupOther {
		t := strings.ReplaceAll(tok, " ", "")
		if t == "" {
			continue
		}
		evs := append(joinedPrefix(), srv("005", "me", t, "NICKLEN=30", "are supported by this server"),
			Ev{HasSrc: true, Name: "me", Ident: "u", Host: "h", Cmd: "JOIN", Params: []string{"#len" + strconv.Itoa(i)}},
			srv("005", "me", "HOSTLEN=63", t, "are supported by this server"))
		out = append(out, EncodeHistory(route, "me", "user", evs))
	}
	return out
}

func hostileEvent(r *rand.Rand) Ev {
	e := Ev{Cmd: hostCmds[r.Intn(len(hostCmds))]}
	if r.Intn(6) != 0 {
		e.HasSrc = true
		e.Name = caseVariant(r, hostNicks[r.Intn(len(hostNicks)-2)])
		if r.Intn(3) != 0 {
			e.Ident = Pick(r, "u", "~id", "")
			e.Host = Pick(r, "h.example", "10.0.0.1", "")
		}
	}
	if r.Intn(8) == 0 {
		e.HasAcct, e.Acct = true, Pick(r, "acct", "", "*", "other")
	}
	n := r.Intn(5)
	if r.Intn(6) == 0 {
		n = r.Intn(10)
	}
	for i := 0; i < n; i++ {
		e.Params = append(e.Params, hostileParam(r))
	}
	// shape some events so that they get past the first guards
	switch r.Intn(5) {
	case 0, 1:
		switch e.Cmd {
		case "353":
			e.Params = []string{"me", "=", caseVariant(r, hostChans[r.Intn(5)]), Pick(r, "me @alice +bob", "@+alice!a@h bob!b@h2 ~&carol", "ME alice ALICE", "x@ @y!z +", "b[o]b B{O}B")}
		case "352":
			e.Params = []string{"me", hostChans[r.Intn(5)], "id", "host", "srv", caseVariant(r, hostNicks[r.Intn(8)]), "H", Pick(r, "0 Real", "12 x", "abc", "", "0")}
		case "354":
			e.Params = []string{"me", Pick(r, "1", "2"), hostChans[r.Intn(5)], "id", "host", caseVariant(r, hostNicks[r.Intn(8)]), Pick(r, "acct", "0", ""), "Real Name"}
		case "005":
			k := 1 + r.Intn(4)
			e.Params = []string{"me"}
			for i := 0; i < k; i++ {
				e.Params = append(e.Params, hostileParam(r))
			}
			e.Params = append(e.Params, "are supported by this server")
		case "MODE":
			e.Params = []string{caseVariant(r, hostChans[r.Intn(5)]), Pick(r, "+o", "-o", "+ov", "+ntk", "-k", "+l", "+b", "-b+v", "+qaohv", "+n\xe9", "Caf\xc3\xa9", "+\xff\x80-\xff"), hostNicks[r.Intn(8)], hostNicks[r.Intn(8)]}
		case "JOIN":
			e.Params = []string{caseVariant(r, hostChans[r.Intn(6)])}
		case "NICK":
			e.Params = []string{caseVariant(r, hostNicks[r.Intn(len(hostNicks))])}
		case "KICK":
			e.Params = []string{caseVariant(r, hostChans[r.Intn(5)]), caseVariant(r, hostNicks[r.Intn(8)]), "bye"}
		case "PART":
			e.Params = []string{caseVariant(r, hostChans[r.Intn(5)])}
		case "PRIVMSG", "NOTICE":
			// CTCP requests and replies, well-formed and not, with and without a source
			body := ctcpTags[r.Intn(len(ctcpTags))]
			if r.Intn(2) == 0 {
				body += " " + Pick(r, "12345", "some text", "", "\x01")
			}
			text := "\x01" + body + "\x01"
			switch r.Intn(8) {
			case 0:
				text = "\x01" + body // unterminated
			case 1:
				text = "\x01\x01"
			case 2:
				text = "\x01 \x01"
			}
			e.Params = []string{Pick(r, "me", "#chan", "ME", "#nowhere"), text}
		case "CAP":
			n := r.Intn(4)
			var ws []string
			for i := 0; i < n; i++ {
				ws = append(ws, capWords[r.Intn(len(capWords))])
			}
			e.Params = []string{Pick(r, "*", "me"), Pick(r, "LS", "ACK", "NAK", "DEL", "NEW", "LIST", "ls", "END")}
			if r.Intn(4) == 0 {
				e.Params = append(e.Params, "*")
			}
			if r.Intn(5) != 0 {
				e.Params = append(e.Params, strings.Join(ws, " "))
			}
		case "AUTHENTICATE":
			e.Params = []string{Pick(r, "+", "PLAIN", "*", "", "Zm9v", "+ +")}
			if r.Intn(5) == 0 {
				e.Params = append(e.Params, "+")
			}
		}
	}
	if e.Cmd == "JOIN" && len(e.Params) > 0 {
		// the channel is echoed as a middle parameter of WHO/MODE, where a ':' at the start of
		// a word cannot be told from the trailing marker when the harness reads the line back
		p := strings.ReplaceAll(" "+e.Params[0], " :", " ;")
		e.Params[0] = p[1:]
	}
	for i, p := range e.Params { // parameters a parser can produce: only the last may hold spaces or be empty
		if i < len(e.Params)-1 && (p == "" || strings.ContainsAny(p, " ") || p[0] == ':') {
			e.Params[i] = "x"
		}
	}
	return e
}

func historySig(evs []Ev, obs string) string {
	if obs == "PANIC" || obs == "WEDGED" || obs == "NOPONG" {
		return strings.ToLower(obs)
	}
	seen := map[string]bool{}
	for _, e := range evs {
		seen[e.Cmd] = true
	}
	nch := strings.Count(obs[strings.Index(obs, ";c="):strings.Index(obs, ";u=")], ":") / 4
	nus := strings.Count(obs[strings.Index(obs, ";u="):strings.Index(obs, ";k=")], ":") / 7
	b := func(n int) string {
		switch {
		case n == 0:
			return "0"
		case n <= 2:
			return "1-2"
		default:
			return "3+"
		}
	}
	return "cmds" + strconv.Itoa(len(seen)/4*4) + "/ch" + b(nch) + "/us" + b(nus)
}

// slowFailures counts wedge / no-answer verdicts of this process (each takes seconds to reach).
var slowFailures int

func init() {
	Register(&Suite{
		Name: "state.hostile",
		Prop: []string{"C05"},
		Fixed: func() []Case {
			return append(append(shapeHistories("feed"), isupportHistories("feed")...), foldHistories("feed")...)
		},
		Gen: func(r *rand.Rand) Case {
			n := 3 + r.Intn(40)
			evs := []Ev{}
			if r.Intn(4) != 0 { // usually start from a joined state so that there is something to corrupt
				evs = append(evs, joinedPrefix()...)
			}
			blocks := 0
			for i := 0; i < n; i++ {
				if r.Intn(25) == 0 && blocks < 3 {
					blocks++
					evs = append(evs, isupportBlock(r, blocks)...)
					continue
				}
				evs = append(evs, hostileEvent(r))
			}
			return EncodeHistory("feed", "me", "user", evs)
		},
		Run: func(c Case) Result {
			_, nick, user, evs, ok := DecodeHistory(c)
			if !ok {
				return Result{Obs: "?bad-args", Sig: ""}
			}
			if slowFailures >= 8 {
				// every such verdict costs seconds; a run that has seen eight of them has its answer
				return Result{Obs: "?skipped-after-repeated-wedges", Sig: ""}
			}
			obs, oracle, ss := RunHistory(nick, user, evs)
			switch obs {
			case "WEDGED", "NOPONG":
				slowFailures++ // the client is abandoned: stopping it could block on the leaked lock
			case "PANIC":
				// abandoned too: the handler may have died with the state lock held
			default:
				ss.Stop()
			}
			return Result{Obs: obs, Oracle: oracle, Sig: historySig(evs, obs)}
		},
	})

	// The connected route: the same kind of history is written to the socket of a
	// MockConnect'ed client; afterwards the client must answer a PING or Connect must have
	// returned an error. Every session runs in a process of its own: a panic in a bare
	// goroutine (which no RecoverFunc can absorb) is reported with the history as replay.
	// Routes: "conn-app" (RecoverFunc set, application handlers of all three kinds that panic on
	// PRIVMSG without source, every NOTICE, short TOPIC / KICK, source-less 366: a recovered
	// application panic must not stop the client), "conn" (RecoverFunc records), "conn-norecover" (a handler panic kills the
	// process, as without RecoverFunc), "conn-sasl" (SASL PLAIN configured: a failed or
	// unexpected SASL exchange makes the client disconnect with an error).
	liveDirect := func(c Case) Result {
		route, nick, user, evs, ok := DecodeHistory(c)
		if !ok {
			return Result{Obs: "?bad-args", Sig: ""}
		}
		opt := ConnOptions{SASL: route == "conn-sasl", NoRecover: route == "conn-norecover", App: route == "conn-app"}
		obs, oracle := RunConnected(nick, user, evs, opt)
		sig := route + "/"
		if strings.HasPrefix(obs, "n=") {
			sig += historySig(evs, obs)
		} else {
			sig += strings.ToLower(obs)
		}
		return Result{Obs: obs, Oracle: oracle, Sig: sig}
	}
	// Finding handler-injected-error-self-blocks. Three internal handlers (handleSASL,
	// handleSASLError, the STS block of handleCAP) queue an ERROR with Client.receive from the
	// goroutine that drains the receive queue. When the 25 slots are full at that moment the
	// handler waits on itself. Two ways to get there, both written to the socket in one burst:
	//   burst-sasl: SASL configured, an application handler that takes 3 ms per PRIVMSG, a
	//               failing SASL reply followed by 30-60 more lines;
	//   burst-sts : server input only, flood protection on (the default): eight unknown CTCP
	//               queries are answered inside execLoop and the rate limiter sleeps there
	//               while the burst (CAP ACK of an invalid sts policy, 40 MOTD lines) fills the queue.
	// Verdicts: the client answers the final PING or Connect returns an error ("ended");
	//   promptly                       -> nothing to report (this is what a repaired tree does);
	//   after the 30 s timeout of receive (the ERROR is dropped) -> class `stall`, the recorded finding;
	//   never (no PONG, no return, and NO PROGRESS: queue lengths and written lines unchanged
	//   for 45 s, at least 50 s after the burst) -> class `stall-permanent`.
	stallSum := func(route, nick string, evs []Ev) string {
		h := uint32(2166136261)
		for i := 0; i < len(route+"/"+nick); i++ {
			h = (h ^ uint32((route + "/" + nick)[i])) * 16777619
		}
		for _, e := range evs {
			for _, a := range e.args() {
				for i := 0; i < len(a); i++ {
					h = (h ^ uint32(a[i])) * 16777619
				}
				h = (h ^ 0xff) * 16777619
			}
		}
		return "u" + strconv.FormatUint(uint64(h), 16)
	}
	stallDirect := func(c Case) Result {
		route, nick, user, evs, ok := DecodeHistory(c)
		// the history is tied to a checksum (carried in the user name): a run takes 30-50 s, so
		// the byte-wise shrinker of bin/check must not explore variants of it
		if !ok || user != stallSum(route, nick, evs) || (route != "burst-sasl" && route != "burst-sts") {
			return Result{Obs: "?bad-args", Sig: ""}
		}
		cfg := drive.BaseConfig()
		cfg.Nick, cfg.User = nick, user
		if route == "burst-sasl" {
			cfg.SASL = &girc.SASLPlain{User: "acct", Pass: "secret"}
		} else {
			cfg.AllowFlood = false
		}
		ss := drive.Start(cfg)
		if route == "burst-sasl" {
			ss.C.Handlers.Add(girc.PRIVMSG, func(c *girc.Client, e girc.Event) { time.Sleep(3 * time.Millisecond) })
		}
		var sb strings.Builder
		for _, e := range evs {
			line, lok := e.Line()
			if !lok {
				return Result{Obs: "?unrenderable"}
			}
			sb.WriteString(line + "\r\n")
		}
		const tok = SentinelPrefix + "stall"
		sb.WriteString("PING " + tok + "\r\n")
		mark := ss.Mark()
		go ss.Peer.Write([]byte(sb.String()))
		start := time.Now()
		lastProgress := start
		lastRx, lastTx := ss.C.VerifQueues()
		lastLines := mark
		verdict := func(how string) Result {
			d := time.Since(start)
			if d > 10*time.Second {
				return Result{Obs: "ended", Sig: route + "/" + how + "-late",
					Oracle: fmt.Sprintf("stall: the client %s only %d s after the burst: a handler queued its ERROR on the full receive queue that its own goroutine drains, processing stood still until the 30 s timeout of Client.receive, and the ERROR was dropped", how, int(d.Seconds()))}
			}
			return Result{Obs: "ended", Sig: route + "/" + how}
		}
		for {
			select {
			case err := <-ss.Done:
				if err == nil {
					return Result{Obs: "disconnected-nil", Oracle: "liveness: Connect returned without an error", Sig: route + "/nil"}
				}
				return verdict("disconnected")
			default:
			}
			lines := ss.Since(mark)
			for _, l := range lines {
				if l == "PONG "+tok+"\r\n" {
					return verdict("answered the PING")
				}
			}
			rx, tx := ss.C.VerifQueues()
			if rx != lastRx || tx != lastTx || mark+len(lines) != lastLines {
				lastRx, lastTx, lastLines = rx, tx, mark+len(lines)
				lastProgress = time.Now()
			}
			if (time.Since(start) >= 50*time.Second && time.Since(lastProgress) >= 45*time.Second) || time.Since(start) >= 180*time.Second {
				return Result{Obs: "HUNG", Sig: route + "/hung",
					Oracle: fmt.Sprintf("stall-permanent: %d s after the burst the client has neither answered the PING nor returned from Connect, and nothing has moved for %d s (receive queue %d/25, send queue %d): the event loop waits for ever on its own queue",
						int(time.Since(start).Seconds()), int(time.Since(lastProgress).Seconds()), rx, tx)}
			}
			time.Sleep(5 * time.Millisecond)
		}
	}
	Register(&Suite{
		Name: "state.stall",
		Prop: []string{"C05"},
		Gen: func(r *rand.Rand) Case {
			var evs []Ev
			route := Pick(r, "burst-sasl", "burst-sts")
			if route == "burst-sasl" {
				chat := func() Ev {
					return Ev{HasSrc: true, Name: Pick(r, "alice", "bob", "zed"), Ident: "u", Host: "h", Cmd: "PRIVMSG", Params: []string{"#chan", "hello there"}}
				}
				evs = joinedPrefix()
				for i := 2 + r.Intn(8); i > 0; i-- {
					evs = append(evs, chat())
				}
				if r.Intn(2) == 0 {
					evs = append(evs, Ev{HasSrc: true, Name: "srv", Cmd: Pick(r, "902", "904", "905", "906", "908"), Params: []string{"me", "SASL authentication failed"}})
				} else {
					evs = append(evs, Ev{Cmd: "AUTHENTICATE", Params: []string{Pick(r, "PLAIN", "*", "x")}})
				}
				for i := 30 + r.Intn(30); i > 0; i-- {
					evs = append(evs, chat())
				}
			} else {
				for i := 0; i < 8; i++ {
					evs = append(evs, Ev{HasSrc: true, Name: "x", Ident: "y", Host: "z", Cmd: "PRIVMSG", Params: []string{"me", "\x01" + Pick(r, "FOO", "BAR", "CLIENTINFO") + "\x01"}})
				}
				evs = append(evs, Ev{HasSrc: true, Name: "srv", Cmd: "CAP", Params: []string{"*", "ACK", Pick(r, "sts", "sts multi-prefix", "sts=duration=10")}})
				for i := 0; i < 40+r.Intn(10); i++ {
					evs = append(evs, Ev{HasSrc: true, Name: "srv", Cmd: "372", Params: []string{"me", "- filler line " + strconv.Itoa(i)}})
				}
			}
			return EncodeHistory(route, "me", stallSum(route, "me", evs), evs)
		},
		Run: func(c Case) Result { return Isolated("state.stall", c, stallDirect) },
	})
	Register(&Suite{
		Name: "state.liveness",
		Prop: []string{"C05"},
		Fixed: func() []Case {
			// one-message crashes seen while reading the code, on the socket route
			one := func(route string, e ...Ev) Case {
				return EncodeHistory(route, "me", "user", append(joinedPrefix(), e...))
			}
			fixed := []Case{
				one("conn-norecover", Ev{Cmd: "352"}),
				one("conn-norecover", Ev{Cmd: "353", Params: []string{"me", "="}}),
				one("conn-norecover", Ev{Cmd: "CHGHOST", Params: []string{"a", "b"}}, Ev{Cmd: "AWAY", Params: []string{"x"}}, Ev{Cmd: "ACCOUNT", Params: []string{"x"}}),
				one("conn-norecover", Ev{HasAcct: true, Acct: "x", Cmd: "PRIVMSG", Params: []string{"me", "hi"}}),
				one("conn-norecover", Ev{Cmd: "AUTHENTICATE", Params: []string{"+"}}),
				one("conn-norecover", Ev{Cmd: "PRIVMSG", Params: []string{"me", "\x01VERSION\x01"}}, Ev{Cmd: "PRIVMSG", Params: []string{"me", "\x01FINGER\x01"}},
					Ev{Cmd: "PRIVMSG", Params: []string{"me", "\x01PING 1\x01"}}, Ev{Cmd: "PRIVMSG", Params: []string{"me", "\x01TIME\x01"}},
					Ev{Cmd: "PRIVMSG", Params: []string{"me", "\x01SOURCE\x01"}}, Ev{Cmd: "PRIVMSG", Params: []string{"me", "\x01PONG\x01"}},
					Ev{Cmd: "PRIVMSG", Params: []string{"me", "\x01UNKNOWN\x01"}}),
				one("conn-norecover", Ev{HasSrc: true, Name: "alice", Cmd: "NICK", Params: []string{"bob"}}, Ev{HasSrc: true, Name: "bob", Cmd: "QUIT"},
					Ev{HasSrc: true, Name: "me", Cmd: "PART", Params: []string{"#chan"}}, Ev{HasSrc: true, Name: "me", Cmd: "PART", Params: []string{"#c[1]"}}),
				one("conn-sasl", Ev{Cmd: "AUTHENTICATE", Params: []string{"+"}}),
				one("conn-sasl", Ev{Cmd: "AUTHENTICATE", Params: []string{"PLAIN"}}),
				one("conn-sasl", Ev{Cmd: "904", Params: []string{"me", "failed"}}),
				one("conn", Ev{HasSrc: true, Name: "srv", Cmd: "ERROR", Params: []string{"Closing link"}}),
				// RecoverFunc set and application handlers that panic on the line: the client must go on
				EncodeHistory("conn-app", "me", "user", []Ev{{Cmd: "PRIVMSG", Params: []string{"me", "hi there"}}}),
				EncodeHistory("conn-app", "me", "user", []Ev{{HasSrc: true, Name: "a", Cmd: "NOTICE", Params: []string{"me", "x"}}}),
				EncodeHistory("conn-app", "me", "user", []Ev{{HasSrc: true, Name: "a", Cmd: "TOPIC", Params: []string{"#chan"}}, {HasSrc: true, Name: "a", Cmd: "KICK", Params: []string{"#chan", "bob"}}, {Cmd: "366"}}),
				one("conn-app", Ev{Cmd: "PRIVMSG", Params: []string{"#chan", "hello"}}, Ev{HasSrc: true, Name: "alice", Cmd: "NOTICE", Params: []string{"#chan", "x"}},
					Ev{HasSrc: true, Name: "alice", Cmd: "KICK", Params: []string{"#chan", "bob"}}, Ev{Cmd: "366", Params: []string{"me", "#chan", "End"}}, Ev{HasSrc: true, Name: "alice", Cmd: "TOPIC", Params: []string{"#chan"}}),
			}
			// the server options that are consumed later (CHANMODES / PREFIX / lengths), on the socket
			for i, c := range isupportHistories("conn-norecover") {
				if i%2 == 1 {
					continue // the variant from a fresh state runs on the synchronous route only
				}
				_, _, _, evs, _ := DecodeHistory(c)
				ok := true
				for _, e := range evs {
					if _, lok := e.Line(); !lok {
						ok = false
					}
				}
				if ok {
					fixed = append(fixed, c)
				}
			}
			fixed = append(fixed, foldHistories("conn")...)
			return fixed
		},
		Gen: func(r *rand.Rand) Case {
			route := Pick(r, "conn", "conn", "conn-norecover", "conn-norecover", "conn-sasl", "conn-app", "conn-app")
			n := 3 + r.Intn(40)
			evs := []Ev{}
			if r.Intn(4) != 0 {
				evs = append(evs, joinedPrefix()...)
			}
			blocks := 0
			for len(evs) < n {
				if r.Intn(25) == 0 && blocks < 3 {
					blocks++
					for _, e := range isupportBlock(r, blocks) {
						if line, ok := e.Line(); ok {
							if back, pok := EvFromLine(line); pok {
								evs = append(evs, back)
							}
						}
					}
					continue
				}
				e := hostileEvent(r)
				if r.Intn(300) == 0 {
					e = Ev{HasSrc: r.Intn(2) == 0, Name: "srv", Cmd: "ERROR", Params: []string{"Closing link"}}
				}
				if e.Cmd == "CAP" && strings.Contains(strings.Join(e.Params, " "), "sts") {
					continue // strict transport security is C10's subject
				}
				line, ok := e.Line()
				if !ok {
					continue
				}
				if back, pok := EvFromLine(line); pok {
					evs = append(evs, back)
				}
			}
			return EncodeHistory(route, "me", "user", evs)
		},
		Run: func(c Case) Result {
			if slowFailures >= 8 {
				return Result{Obs: "?skipped-after-repeated-wedges", Sig: ""}
			}
			res := Isolated("state.liveness", c, liveDirect)
			if res.Obs == "WEDGED" || res.Obs == "NOPONG" {
				slowFailures++
			}
			return res
		},
	})
}
