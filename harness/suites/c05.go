package suites

import (
	"math/rand"
	"strconv"
	"strings"
)

// Hostile generator: every command the state handlers react to, with too few / too many
// parameters, missing sources, unknown users and channels, renames onto existing nicks,
// replies for channels never joined — names drawn from a small pool so that collisions
// and case variants are frequent.

var (
	hostNicks = []string{"me", "ME", "alice", "Alice", "bob", "b[o]b", "B{O}B", "carol", "x", "nick^", "NICK~", "café", "a-b", "0day", "", "al ice"}
	hostChans = []string{"#chan", "#CHAN", "#c[1]", "#C{1}", "&local", "#x", "+m", "!ABCDEname", "notachan", "", "#a b", "#caf\xc3\xa9"}
	hostCmds  = []string{"JOIN", "PART", "KICK", "QUIT", "NICK", "353", "MODE", "324", "352", "354", "TOPIC", "332", "004", "005", "375", "372",
		"CHGHOST", "AWAY", "ACCOUNT", "001", "PRIVMSG", "NOTICE", "PING", "433", "CAP", "AUTHENTICATE", "900", "903", "904", "366", "ERRORX"}
)

func caseVariant(r *rand.Rand, s string) string {
	b := []byte(s)
	for i, c := range b {
		if r.Intn(3) != 0 {
			continue
		}
		switch {
		case c >= 'a' && c <= 'z':
			b[i] = c - 32
		case c >= 'A' && c <= 'Z':
			b[i] = c + 32
		case c >= '[' && c <= '^':
			b[i] = c + 32
		case c >= '{' && c <= '~':
			b[i] = c - 32
		}
	}
	return string(b)
}

func hostileParam(r *rand.Rand) string {
	switch r.Intn(12) {
	case 0, 1, 2:
		return caseVariant(r, hostNicks[r.Intn(len(hostNicks))])
	case 3, 4, 5:
		return caseVariant(r, hostChans[r.Intn(len(hostChans))])
	case 6:
		return Pick(r, "+o", "-o", "+v", "+ntk", "-k", "+l", "+b", "+ov-v", "+q", "-", "+", "+kl", "ntl")
	case 7:
		return Pick(r, "*", "1", "0", "key", "5", "H", "G*", "=", "@", "acct", "%tacuhnr,1")
	case 8:
		return Pick(r, "me @alice +bob", "@+alice!a@h.example bob!b@h2 ~&carol", "@ + x@ @y!z", "0 Real Name", "3 hops", "12345678", "are supported by this server",
			"topic with spaces", "", ":colon", " lead")
	case 9:
		return Pick(r, "CHANMODES=beI,k,l,imnpst", "CHANMODES=b,k,l,imnpst,zz", "CHANMODES=,,,", "CHANMODES=eIb,kf,lj,CFL", "PREFIX=(qaohv)~&@%+", "PREFIX=(ov)@+", "PREFIX=(ov)@", "PREFIX=", "PREFIX",
			"NICKLEN=9", "NICKLEN=x", "LINELEN=1024", "LINELEN=-5", "LINELEN=20", "MAXNICKLEN=40", "USERLEN=10", "USERLEN=30", "HOSTLEN=100", "NETWORK=Test", "=x", "A=", "CASEMAPPING=rfc1459")
	case 10:
		return RandBytes(r, r.Intn(6), "ab#@!+%~&:=,* []{}\\|^")
	default:
		return strconv.Itoa(r.Intn(500))
	}
}

func hostileEvent(r *rand.Rand) Ev {
	e := Ev{Cmd: hostCmds[r.Intn(len(hostCmds))]}
	if r.Intn(6) != 0 {
		e.HasSrc = true
		e.Name = caseVariant(r, hostNicks[r.Intn(len(hostNicks)-2)])
		if r.Intn(3) != 0 {
			e.Ident = Pick(r, "u", "~id", "")
			e.Host = Pick(r, "h.example", "10.0.0.1", "")
		}
	}
	if r.Intn(8) == 0 {
		e.HasAcct, e.Acct = true, Pick(r, "acct", "", "*", "other")
	}
	n := r.Intn(5)
	if r.Intn(6) == 0 {
		n = r.Intn(10)
	}
	for i := 0; i < n; i++ {
		e.Params = append(e.Params, hostileParam(r))
	}
	// shape some events so that they get past the first guards
	switch r.Intn(4) {
	case 0:
		switch e.Cmd {
		case "353":
			e.Params = []string{"me", "=", caseVariant(r, hostChans[r.Intn(5)]), Pick(r, "me @alice +bob", "@+alice!a@h bob!b@h2 ~&carol", "ME alice ALICE", "x@ @y!z +", "b[o]b B{O}B")}
		case "352":
			e.Params = []string{"me", hostChans[r.Intn(5)], "id", "host", "srv", caseVariant(r, hostNicks[r.Intn(8)]), "H", Pick(r, "0 Real", "12 x", "abc", "", "0")}
		case "354":
			e.Params = []string{"me", Pick(r, "1", "2"), hostChans[r.Intn(5)], "id", "host", caseVariant(r, hostNicks[r.Intn(8)]), Pick(r, "acct", "0", ""), "Real Name"}
		case "005":
			k := 1 + r.Intn(4)
			e.Params = []string{"me"}
			for i := 0; i < k; i++ {
				e.Params = append(e.Params, hostileParam(r))
			}
			e.Params = append(e.Params, "are supported by this server")
		case "MODE":
			e.Params = []string{caseVariant(r, hostChans[r.Intn(5)]), Pick(r, "+o", "-o", "+ov", "+ntk", "-k", "+l", "+b", "-b+v", "+qaohv"), hostNicks[r.Intn(8)], hostNicks[r.Intn(8)]}
		case "JOIN":
			e.Params = []string{caseVariant(r, hostChans[r.Intn(6)])}
		case "NICK":
			e.Params = []string{caseVariant(r, hostNicks[r.Intn(len(hostNicks))])}
		}
	}
	for i, p := range e.Params { // parameters a parser can produce: only the last may hold spaces or be empty
		if i < len(e.Params)-1 && (p == "" || strings.ContainsAny(p, " ") || p[0] == ':') {
			e.Params[i] = "x"
		}
	}
	return e
}

func historySig(evs []Ev, obs string) string {
	if obs == "PANIC" || obs == "WEDGED" || obs == "NOPONG" {
		return strings.ToLower(obs)
	}
	seen := map[string]bool{}
	for _, e := range evs {
		seen[e.Cmd] = true
	}
	nch := strings.Count(obs[strings.Index(obs, ";c="):strings.Index(obs, ";u=")], ":") / 4
	nus := strings.Count(obs[strings.Index(obs, ";u="):strings.Index(obs, ";k=")], ":") / 7
	b := func(n int) string {
		switch {
		case n == 0:
			return "0"
		case n <= 2:
			return "1-2"
		default:
			return "3+"
		}
	}
	return "cmds" + strconv.Itoa(len(seen)/4*4) + "/ch" + b(nch) + "/us" + b(nus)
}

func init() {
	Register(&Suite{
		Name: "state.hostile",
		Prop: []string{"C05"},
		Gen: func(r *rand.Rand) Case {
			n := 3 + r.Intn(40)
			evs := []Ev{}
			if r.Intn(4) != 0 { // usually start from a joined state so that there is something to corrupt
				evs = append(evs, Ev{HasSrc: true, Name: "srv", Cmd: "001", Params: []string{"me", "welcome"}},
					Ev{HasSrc: true, Name: "me", Ident: "u", Host: "h", Cmd: "JOIN", Params: []string{"#chan"}},
					Ev{HasSrc: true, Name: "srv", Cmd: "353", Params: []string{"me", "=", "#chan", "me @alice +bob carol"}},
					Ev{HasSrc: true, Name: "me", Ident: "u", Host: "h", Cmd: "JOIN", Params: []string{"#c[1]"}},
					Ev{HasSrc: true, Name: "srv", Cmd: "353", Params: []string{"me", "=", "#c[1]", "me alice b[o]b"}})
			}
			for i := 0; i < n; i++ {
				evs = append(evs, hostileEvent(r))
			}
			return EncodeHistory("feed", "me", "user", evs)
		},
		Run: func(c Case) Result {
			_, nick, user, evs, ok := DecodeHistory(c)
			if !ok {
				return Result{Obs: "?bad-args", Sig: ""}
			}
			obs, oracle, ss := RunHistory(nick, user, evs)
			ss.Stop()
			return Result{Obs: obs, Oracle: oracle, Sig: historySig(evs, obs)}
		},
	})
}
