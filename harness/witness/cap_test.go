//go:build verif

package witness

// Witness for the C08 finding ack-removal-ignored (patch:
// notes/proposed-fixes/cap-ack-removal.diff).
//
// It FAILS on the tree without the patch and passes with it. While the defect is carried
// as a known finding the test is named TestPendingC08_… so that `bin/check C08` (which runs
// ^TestC08_) does not pick it up; rename it to TestC08_AckRemoval in the commit that
// applies the fix.  Run by hand:
//
//	cd harness && go test -tags verif -count=1 -run 'C08_AckRemoval' ./witness

import (
	"strings"
	"testing"
	"time"

	"gircverif/drive"

	"github.com/lrstanley/girc"
)

func TestC08_AckRemoval(t *testing.T) {
	s := drive.Start(drive.BaseConfig())
	defer s.Stop()

	s.Feed("CAP * LS :message-tags away-notify")
	s.Feed("CAP me ACK :message-tags away-notify")
	if !s.C.HasCapability("message-tags") || !s.C.HasCapability("away-notify") {
		t.Fatal("setup: acknowledged capabilities are not reported as enabled")
	}

	// IRCv3 capability negotiation: a name prefixed with '-' in CAP ACK acknowledges that
	// the capability has been DISABLED (the answer to CAP REQ :-message-tags).
	s.Feed("CAP me ACK :-message-tags")

	if s.C.HasCapability("message-tags") {
		t.Errorf(`HasCapability("message-tags") is still true after CAP ACK :-message-tags`)
	}
	if s.C.HasCapability("-message-tags") {
		t.Errorf(`"-message-tags" was recorded as an enabled capability`)
	}
	if !s.C.HasCapability("away-notify") {
		t.Errorf("the removal of message-tags disabled away-notify as well")
	}

	// consequence for the third clause of C08: tags must no longer reach the wire
	s.C.Send(&girc.Event{Command: girc.PRIVMSG, Params: []string{"#c", "witness"}, Tags: girc.Tags{"k": "v"}})
	l, ok := s.WaitLine(func(l string) bool { return strings.Contains(l, "PRIVMSG #c witness") }, 5*time.Second)
	if !ok {
		t.Fatal("the PRIVMSG was not written")
	}
	if strings.HasPrefix(l, "@") {
		t.Errorf("tags written after message-tags was disabled: %q", l)
	}
}
