//go:build verif

package witness

// Witness for the C08 finding ack-removal-ignored (patch:
// notes/proposed-fixes/cap-ack-removal.diff).
//
// It FAILS on the tree without the patch and passes with it. While the defect is carried
// as a known finding the test is named TestPendingC08_… so that `bin/check C08` (which runs
// ^TestC08_) does not pick it up; rename it to TestC08_AckRemoval in the commit that
// applies the fix.  Run by hand:
//
//	cd harness && go test -tags verif -count=1 -run 'C08_AckRemoval' ./witness

import (
	"strings"
	"testing"
	"time"

	"gircverif/drive"

	"github.com/lrstanley/girc"
)

func TestC08_AckRemoval(t *testing.T) {
	s := drive.Start(drive.BaseConfig())
	defer s.Stop()

	s.Feed("CAP * LS :message-tags away-notify")
	s.Feed("CAP me ACK :message-tags away-notify")
	if !s.C.HasCapability("message-tags") || !s.C.HasCapability("away-notify") {
		t.Fatal("setup: acknowledged capabilities are not reported as enabled")
	}

	// IRCv3 capability negotiation: a name prefixed with '-' in CAP ACK acknowledges that
	// the capability has been DISABLED (the answer to CAP REQ :-message-tags).
	s.Feed("CAP me ACK :-message-tags")

	if s.C.HasCapability("message-tags") {
		t.Errorf(`HasCapability("message-tags") is still true after CAP ACK :-message-tags`)
	}
	if s.C.HasCapability("-message-tags") {
		t.Errorf(`"-message-tags" was recorded as an enabled capability`)
	}
	if !s.C.HasCapability("away-notify") {
		t.Errorf("the removal of message-tags disabled away-notify as well")
	}

	// consequence for the third clause of C08: tags must no longer reach the wire
	s.C.Send(&girc.Event{Command: girc.PRIVMSG, Params: []string{"#c", "witness"}, Tags: girc.Tags{"k": "v"}})
	l, ok := s.WaitLine(func(l string) bool { return strings.Contains(l, "PRIVMSG #c witness") }, 5*time.Second)
	if !ok {
		t.Fatal("the PRIVMSG was not written")
	}
	if strings.HasPrefix(l, "@") {
		t.Errorf("tags written after message-tags was disabled: %q", l)
	}
}

// Witness for the C08 finding tmpcap-not-pruned (patch:
// notes/proposed-fixes/cap-tmpcap-prune.diff).  FAILS on the tree without the patch, passes
// with it; named TestPendingC08_… so that `bin/check C08` does not run it while the defect is a
// known finding — rename to TestC08_TmpCapPruned in the commit that applies the fix.
func TestC08_TmpCapPruned(t *testing.T) {
	// the last CAP REQ written for a scripted sequence of server lines; a PING fed after them
	// goes through the same send queue, so its PONG marks the end of what they caused
	reqAfter := func(lines ...string) string {
		s := drive.Start(drive.BaseConfig())
		defer s.Stop()
		for _, l := range lines {
			s.Feed(l)
		}
		s.Feed("PING :witness-done")
		if _, ok := s.WaitLine(func(l string) bool { return strings.HasPrefix(l, "PONG ") && strings.Contains(l, "witness-done") }, 10*time.Second); !ok {
			t.Fatal("no PONG")
		}
		last := "(no CAP REQ)"
		for _, l := range s.Lines() {
			if strings.HasPrefix(l, "CAP REQ ") {
				last = strings.TrimRight(strings.TrimPrefix(strings.TrimPrefix(l, "CAP REQ "), ":"), "\r\n")
			}
		}
		return last
	}

	// the server refused the first request as a whole; a later CAP NEW (cap-notify is implicit
	// with CAP LS 302) must be answered on its own
	if got := reqAfter("CAP * LS :multi-prefix message-tags", "CAP me NAK :multi-prefix message-tags", "CAP me NEW :batch"); got != "batch" {
		t.Errorf("after a NAK, CAP NEW :batch was answered by CAP REQ :%s, want CAP REQ :batch", got)
	}
	// a capability withdrawn while it was pending is not requested
	got := reqAfter("CAP * LS * :multi-prefix batch", "CAP me DEL :multi-prefix", "CAP * LS :away-notify")
	toks := strings.Split(got, " ")
	for _, tok := range toks {
		if tok == "multi-prefix" {
			t.Errorf("multi-prefix was requested (CAP REQ :%s) after CAP DEL :multi-prefix", got)
		}
	}
	if len(toks) != 2 {
		t.Errorf("CAP REQ :%s, want batch and away-notify", got)
	}
}
