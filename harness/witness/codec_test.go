//go:build verif

// Witnesses of the wire codec (C01, C02) and the facts its model relies on.
package witness

import (
	"strings"
	"testing"
	"unicode"

	"github.com/lrstanley/girc"
)

// A tag set that Tags.Set accepted as exactly fitting the 4094-byte limit must be
// serialised completely (repaired in cef5b09).
func TestC01_TagLimitBoundary(t *testing.T) {
	tags := girc.Tags{}
	if err := tags.Set("k", strings.Repeat("v", 4091)); err != nil { // "@k=" + 4091 = 4094
		t.Fatalf("Set rejected a tag section of exactly 4094 bytes: %v", err)
	}
	if got := len(tags.Bytes()); got != 4094 {
		t.Fatalf("Bytes() wrote %d bytes of a 4094-byte tag section", got)
	}
	e := &girc.Event{Command: "TAGMSG", Params: []string{"#c"}, Tags: tags}
	p := girc.ParseEvent(e.String())
	if p == nil {
		t.Fatal("event with a maximal tag section does not parse back")
	}
	if v, ok := p.Tags.Get("k"); !ok || len(v) != 4091 {
		t.Fatalf("tag lost at the limit: ok=%v len=%d", ok, len(v))
	}
	if err := tags.Set("j", ""); err == nil {
		t.Fatal("Set accepted a tag beyond the limit")
	}
}

// The model of strings.ToUpper (coq/Lib/GoUpper.v) is exact on ASCII, on invalid bytes and
// on the non-ASCII runes whose upper-case image is ASCII.  Those runes are exactly
// U+0131 and U+017F.
func TestC02_UpperAsciiImage(t *testing.T) {
	var got []rune
	for r := rune(0x80); r <= unicode.MaxRune; r++ {
		if u := unicode.ToUpper(r); u < 0x80 {
			got = append(got, r)
		}
	}
	if len(got) != 2 || got[0] != 0x131 || got[1] != 0x17f {
		t.Fatalf("non-ASCII runes with an ASCII upper-case image: %U", got)
	}
	if unicode.ToUpper(0x131) != 'I' || unicode.ToUpper(0x17f) != 'S' {
		t.Fatal("unexpected images")
	}
	for in, want := range map[string]string{
		"a\xffb": "A�B", "\xc4\xb1d": "ID", "a\xc5\xbf": "AS", "privmsg": "PRIVMSG", "\xe2\x82": "��",
	} {
		if got := strings.ToUpper(in); got != want {
			t.Fatalf("ToUpper(%q) = %q, want %q", in, got, want)
		}
	}
	if p := girc.ParseEvent("\xc4\xb1d x"); p == nil || p.Command != "ID" {
		t.Fatalf("ParseEvent upper-cases with strings.ToUpper: %#v", p)
	}
}

// Set on a nil Tags must not report success while the value is lost (repaired in 637a0fa:
// it returns an error; a value-receiver method cannot allocate the map for the caller).
func TestC01_TagsSetNil(t *testing.T) {
	var tags girc.Tags
	err := tags.Set("a", "b")
	if v, ok := tags.Get("a"); err == nil && (!ok || v != "b") {
		t.Fatalf("Set on a nil Tags returned nil but Get gives (%q, %v)", v, ok)
	}
	ev := &girc.Event{Command: "TAGMSG", Params: []string{"#c"}}
	if err := ev.Tags.Set("+draft/reply", "x"); err == nil {
		if v, ok := ev.Tags.Get("+draft/reply"); !ok || v != "x" {
			t.Fatalf("Event.Tags.Set on a fresh event returned nil and lost the tag")
		}
	}
}
