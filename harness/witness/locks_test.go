//go:build verif

package witness

// Witnesses of the C12 findings that are NOT repaired yet (conf/C12.known.json known_findings,
// proposed patches in notes/proposed-fixes/C12-*.diff).  They fail on today's /repo, so they
// are named TestC12_* and are not matched by `bin/check C12` (which runs ^TestC12_).
// When a finding is repaired: rename its witness to TestC12_* and drop the known_findings
// entries of its slug.
//
//	cd harness && go test -race -tags verif -count=1 -run '^TestC12_' ./witness

import (
	"bufio"
	"net"
	"sync"
	"sync/atomic"
	"testing"
	"time"

	"github.com/lrstanley/girc"
)

func locksClient() *girc.Client {
	return girc.New(girc.Config{Server: "dummy.int", Port: 6667, Nick: "nick", User: "user", Name: "real"})
}

// locksMock connects c to a pipe whose other end discards what the client sends.
func locksMock(c *girc.Client) (server net.Conn, done chan error) {
	in, out := net.Pipe()
	done = make(chan error, 1)
	go func() { done <- c.MockConnect(out) }()
	go func() {
		br := bufio.NewReader(in)
		for {
			if _, err := br.ReadString('\n'); err != nil {
				return
			}
		}
	}()
	return in, done
}

// slug cap-runhandlers-under-state-lock
func TestC12_STSUpgradeHandlerCallsGetter(t *testing.T) {
	c := locksClient()
	finished := make(chan struct{})
	c.Handlers.Add(girc.STS_UPGRADE_INIT, func(cl *girc.Client, e girc.Event) {
		_ = cl.GetNick()
		close(finished)
	})
	in, _ := locksMock(c)
	defer in.Close()
	time.Sleep(200 * time.Millisecond)
	in.Write([]byte(":srv CAP * LS :sts=port=6697\r\n"))
	time.Sleep(100 * time.Millisecond)
	in.Write([]byte(":srv CAP * ACK :sts\r\n"))
	select {
	case <-finished:
	case <-time.After(3 * time.Second):
		t.Fatal("deadlock: the STS_UPGRADE_INIT handler calls GetNick while handleCAP holds the state lock and waits for it")
	}
}

// slug ctcp-handler-under-ctcp-lock
func TestC12_CTCPHandlerRegisters(t *testing.T) {
	c := locksClient()
	finished := make(chan struct{})
	c.CTCP.Set("FOO", func(cl *girc.Client, ev girc.CTCPEvent) {
		cl.CTCP.Clear("BAR")
		close(finished)
	})
	in, _ := locksMock(c)
	defer in.Close()
	time.Sleep(200 * time.Millisecond)
	in.Write([]byte(":a!b@c PRIVMSG nick :\x01FOO x\x01\r\n"))
	select {
	case <-finished:
	case <-time.After(3 * time.Second):
		t.Fatal("deadlock: a CTCP handler calls CTCP.Clear while CTCP.call holds CTCP.mu.RLock")
	}
	c.Close()
}

// slug sts-fallback-handlers-under-client-lock
func TestC12_STSFallbackHandlerCallsIsConnected(t *testing.T) {
	c := girc.New(girc.Config{Server: "127.0.0.1", Port: 1, Nick: "nick", User: "user", Name: "real"})
	c.VerifSetSTS(1, 1, time.Hour) // a policy for a closed port that expired long ago
	finished := make(chan struct{})
	c.Handlers.Add(girc.STS_ERR_FALLBACK, func(cl *girc.Client, e girc.Event) {
		_ = cl.IsConnected()
		close(finished)
	})
	go func() { _ = c.Connect() }()
	select {
	case <-finished:
	case <-time.After(8 * time.Second):
		t.Fatal("deadlock: the STS_ERR_FALLBACK handler calls IsConnected while internalConnect holds Client.mu")
	}
}

// slug stop-written-without-client-lock (meaningful with -race: the detector reports the
// write of c.stop in internalConnect against the read in Close)
func TestC12_CloseDuringConnect(t *testing.T) {
	for i := 0; i < 30; i++ {
		c := locksClient()
		in, out := net.Pipe()
		go func() {
			b := make([]byte, 4096)
			for {
				if _, err := in.Read(b); err != nil {
					return
				}
			}
		}()
		done := make(chan error, 1)
		go func() { done <- c.MockConnect(out) }()
		for j := 0; j < 2000; j++ {
			c.Close()
			if c.IsConnected() {
				break
			}
		}
		// Keep closing until Connect returns: on a loaded machine the connect goroutine may
		// not even have started when the loop above is over, and a Close before c.stop is
		// assigned is a no-op.
		deadline := time.After(30 * time.Second)
	wait:
		for {
			select {
			case <-done:
				break wait
			case <-deadline:
				t.Fatal("connect did not return")
			default:
				c.Close()
				time.Sleep(time.Millisecond)
			}
		}
		in.Close()
	}
}

// slug ctcp-finger-conn-unguarded: a FINGER request answered after the disconnect dereferences
// the nil c.conn in a bare goroutine (the process dies; RecoverFunc does not cover it).  The
// replier is started here the way CTCP.SetBg starts it.
func TestC12_FingerAfterDisconnect(t *testing.T) {
	c := locksClient()
	in, done := locksMock(c)
	time.Sleep(100 * time.Millisecond)
	c.Close()
	<-done
	in.Close()
	ev := girc.ParseEvent(":a!b@c PRIVMSG nick :\x01FINGER\x01")
	panicked := make(chan interface{}, 1)
	go func() {
		defer func() { panicked <- recover() }()
		c.RunHandlers(ev) // CTCP.call -> SetBg wrapper -> go handleCTCPFinger: runs in its own goroutine
	}()
	<-panicked
	// The bare goroutine cannot be recovered from here; give it time to run. On the unrepaired
	// tree the test binary dies with "invalid memory address or nil pointer dereference".
	time.Sleep(300 * time.Millisecond)
}

// slug uptime-conn-nil-after-check (NOT repaired yet: named TestPending..., not run by bin/check;
// patch in notes/proposed-fixes/C12-uptime-conn-nil-after-check.diff).  Uptime and ConnSince check
// IsConnected() and read c.conn in a second critical section; a teardown in between leaves c.conn
// nil.  Pollers call both while connections are set up and closed; a recovered panic is the failure.
func TestC12_UptimeDuringTeardown(t *testing.T) {
	for cycle := 0; cycle < 60; cycle++ {
		c := locksClient()
		in, done := locksMock(c)
		var stop int32
		panicked := make(chan interface{}, 16)
		var wg sync.WaitGroup
		for g := 0; g < 8; g++ {
			wg.Add(1)
			go func() {
				defer wg.Done()
				defer func() {
					if p := recover(); p != nil {
						panicked <- p
					}
				}()
				for atomic.LoadInt32(&stop) == 0 {
					_, _ = c.Uptime()
					_, _ = c.ConnSince()
				}
			}()
		}
		time.Sleep(2 * time.Millisecond)
		c.Close()
		select {
		case p := <-panicked:
			atomic.StoreInt32(&stop, 1)
			t.Fatalf("cycle %d: Uptime/ConnSince panicked during the teardown: %v", cycle, p)
		case <-done:
		case <-time.After(30 * time.Second):
			atomic.StoreInt32(&stop, 1)
			select {
			case p := <-panicked:
				t.Fatalf("cycle %d: Uptime/ConnSince panicked (%v) with Client.mu still read-locked: Connect never returns", cycle, p)
			default:
				t.Fatal("connect did not return")
			}
		}
		atomic.StoreInt32(&stop, 1)
		wg.Wait()
		in.Close()
		select {
		case p := <-panicked:
			t.Fatalf("cycle %d: Uptime/ConnSince panicked during the teardown: %v", cycle, p)
		default:
		}
	}
}
