//go:build verif

// C04: four messages the tracked state used to misread (repaired in /repo by 1202858, b2cf3ea,
// 5501026, 0dc8f0c). Each test fails on the tree before its fix.
package witness

import "testing"

func TestC04_JoinRecordsIdentityOfKnownUser(t *testing.T) {
	s := joined(t) // alice is known from a plain NAMES line: no ident/host yet
	defer s.Stop()
	s.Feed(":me!user@host JOIN #two")
	s.Feed(":srv 353 me = #two :me")
	s.Feed(":alice!ai@ah.example JOIN #two")
	if u := s.C.LookupUser("alice"); u == nil || u.Ident != "ai" || u.Host != "ah.example" {
		t.Fatalf("after ':alice!ai@ah.example JOIN #two' the user is %+v, want ident ai host ah.example", u)
	}
}

func TestC04_ExtendedJoinStarMeansLoggedOut(t *testing.T) {
	s := joined(t)
	defer s.Stop()
	s.Feed(":me!user@host JOIN #two")
	s.Feed(":carol!c@h JOIN #chan acct :Carol")
	s.Feed(":carol!c@h JOIN #two * :Carol")
	if u := s.C.LookupUser("carol"); u == nil || u.Extras.Account != "" {
		t.Fatalf("after an extended JOIN with account '*' the account is still %+v", u)
	}
}

func TestC04_AccountTagOnIntroducingJoin(t *testing.T) {
	s := joined(t)
	defer s.Stop()
	s.Feed("@account=acct :carol!c@h JOIN #chan")
	if u := s.C.LookupUser("carol"); u == nil || u.Extras.Account != "acct" {
		t.Fatalf("the account tag of the JOIN that introduced carol was lost: %+v", u)
	}
}

func TestC04_IsupportEmptyValue(t *testing.T) {
	s := joined(t)
	defer s.Stop()
	s.Feed(":srv 005 me SILENCE= NETWORK=Test :are supported by this server")
	if v, ok := s.C.GetServerOption("SILENCE"); !ok || v != "" {
		_, bad := s.C.GetServerOption("SILENCE=")
		t.Fatalf("ISUPPORT token 'SILENCE=': GetServerOption(\"SILENCE\") = %q, %v (stored under \"SILENCE=\": %v)", v, ok, bad)
	}
}
