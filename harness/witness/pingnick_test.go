//go:build verif

package witness

// C17 witnesses.
//
// TestC17_NoTrackingCollision and TestC17_InvalidNickRepeat fail before the two C17 fixes of
// nickCollisionHandler (notes/proposed-fixes/c17-*.diff).

import (
	"reflect"
	"strings"
	"testing"
	"time"

	"gircverif/drive"

	"github.com/lrstanley/girc"
)

func nickLines(lines []string) (out []string) {
	for _, l := range lines {
		if strings.HasPrefix(l, "NICK ") {
			out = append(out, strings.TrimSuffix(strings.TrimPrefix(l, "NICK "), "\r\n"))
		}
	}
	return out
}

// Collisions after registration build on the refused nickname too, and a PING in between
// is answered with its token and does not disturb the run.
func TestC17_CollisionAfterWelcomeAndPing(t *testing.T) {
	s := drive.Start(drive.BaseConfig())
	defer s.Stop()
	lines := sentLines(s, func() {
		s.Feed(":srv 001 me :Welcome")
		s.C.Cmd.Nick("new")
		s.Feed(":srv 433 me new :Nickname is already in use")
		s.Feed("PING :tok en")
		s.Feed(":srv 436 me new_ :Nickname collision KILL")
		s.Feed(":srv 437 me new__ :Nick/channel is temporarily unavailable")
	})
	if got := nickLines(lines); !reflect.DeepEqual(got, []string{"new", "new_", "new__", "new___"}) {
		t.Fatalf("NICK lines: %q", got)
	}
	pongs := 0
	for _, l := range lines {
		if strings.HasPrefix(l, "PONG") {
			pongs++
			if l != "PONG :tok en\r\n" {
				t.Fatalf("PONG line %q", l)
			}
		}
	}
	if pongs != 1 {
		t.Fatalf("%d PONG lines in %q", pongs, lines)
	}
}

// With tracking disabled the collision handler panics in GetNick and proposes nothing
// (without Config.RecoverFunc the panic kills the process).
func TestC17_NoTrackingCollision(t *testing.T) {
	s := drive.Start(drive.BaseConfig())
	defer s.Stop()
	s.C.DisableTracking()
	lines := sentLines(s, func() { s.Feed(":srv 433 * me :Nickname is already in use") })
	if s.PanicCount() != 0 {
		t.Errorf("the collision handler panicked: %v", s.Panics[0])
	}
	if got := nickLines(lines); !reflect.DeepEqual(got, []string{"me_"}) {
		t.Fatalf("NICK lines after 433 with tracking disabled: %q, want [me_]", got)
	}
}

// A refused nickname that IsValidNick rejects (non-ASCII) is proposed again.
func TestC17_InvalidNickRepeat(t *testing.T) {
	s := drive.Start(drive.BaseConfig())
	defer s.Stop()
	lines := sentLines(s, func() {
		s.Feed(":srv 001 \xc3\xbc :Welcome")
		for i := 0; i < 5000 && s.C.GetNick() != "\xc3\xbc"; i++ { // handleConnect runs in the background
			time.Sleep(time.Millisecond)
		}
		s.Feed(":srv 433 \xc3\xbc \xc3\xa9 :Nickname is already in use")
		s.Feed(":srv 433 \xc3\xbc \xc3\xbc_ :Nickname is already in use")
	})
	got := nickLines(lines)
	if len(got) != 2 || got[0] == got[1] {
		t.Fatalf("NICK lines: %q: the refused nickname is proposed again", got)
	}
}

// A NICKLEN / MAXNICKLEN announced in 005 does not change what the client asks for: a refused
// nickname of exactly NICKLEN bytes is followed by that nickname plus "_", not by itself
// (seeded regression C17-4), and a callback's value is sent whole.
func TestC17_NickSentVerbatimAtNicklen(t *testing.T) {
	s := drive.Start(drive.BaseConfig())
	defer s.Stop()
	lines := sentLines(s, func() {
		s.Feed(":srv 001 me :Welcome")
		s.Feed(":srv 005 me NICKLEN=9 MAXNICKLEN=9 :are supported by this server")
		if v, _ := s.C.GetServerOption("NICKLEN"); v != "9" {
			t.Fatalf("NICKLEN not recorded: %q", v)
		}
		s.C.Cmd.Nick("abcdefghi")
		s.Feed(":srv 433 me abcdefghi :Nickname is already in use")
		s.Feed(":srv 433 me abcdefghi_ :Nickname is already in use")
	})
	if got := nickLines(lines); !reflect.DeepEqual(got, []string{"abcdefghi", "abcdefghi_", "abcdefghi__"}) {
		t.Fatalf("NICK lines: %q", got)
	}

	cfg := drive.BaseConfig()
	cfg.HandleNickCollide = func(string) string { return "LongAlternative_Nick" }
	s2 := drive.Start(cfg)
	defer s2.Stop()
	lines = sentLines(s2, func() {
		s2.Feed(":srv 005 me NICKLEN=9 :are supported by this server")
		s2.Feed(":srv 433 * me :Nickname is already in use")
	})
	if got := nickLines(lines); !reflect.DeepEqual(got, []string{"LongAlternative_Nick"}) {
		t.Fatalf("NICK lines with callback: %q", got)
	}
}

// A PING that arrives while a background handler is busy is answered before that handler
// returns (seeded regression C17-7: Caller.exec waiting for background handlers).
func TestC17_PingWhileBackgroundHandlerBusy(t *testing.T) {
	s := drive.Start(drive.BaseConfig())
	defer s.Stop()
	gate := make(chan struct{})
	started := make(chan struct{}, 1)
	s.C.Handlers.AddBg("PRIVMSG", func(*girc.Client, girc.Event) {
		started <- struct{}{}
		select {
		case <-gate:
		case <-time.After(8 * time.Second):
		}
	})
	defer close(gate)
	s.Send(":bob!b@h PRIVMSG me :go")
	select {
	case <-started:
	case <-time.After(5 * time.Second):
		t.Fatal("background handler did not start")
	}
	s.Send("PING :tok en")
	if _, ok := s.WaitLine(func(l string) bool { return l == "PONG :tok en\r\n" }, 5*time.Second); !ok {
		t.Fatal("PING not answered within 5s while a background handler was blocked")
	}
}
