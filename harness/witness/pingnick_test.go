//go:build verif

package witness

// C17 witnesses.
//
// TestC17_NoTrackingCollision and TestC17_InvalidNickRepeat fail before the two C17 fixes of
// nickCollisionHandler (notes/proposed-fixes/c17-*.diff).

import (
	"reflect"
	"strings"
	"testing"
	"time"

	"gircverif/drive"
)

func nickLines(lines []string) (out []string) {
	for _, l := range lines {
		if strings.HasPrefix(l, "NICK ") {
			out = append(out, strings.TrimSuffix(strings.TrimPrefix(l, "NICK "), "\r\n"))
		}
	}
	return out
}

// Collisions after registration build on the refused nickname too, and a PING in between
// is answered with its token and does not disturb the run.
func TestC17_CollisionAfterWelcomeAndPing(t *testing.T) {
	s := drive.Start(drive.BaseConfig())
	defer s.Stop()
	lines := sentLines(s, func() {
		s.Feed(":srv 001 me :Welcome")
		s.C.Cmd.Nick("new")
		s.Feed(":srv 433 me new :Nickname is already in use")
		s.Feed("PING :tok en")
		s.Feed(":srv 436 me new_ :Nickname collision KILL")
		s.Feed(":srv 437 me new__ :Nick/channel is temporarily unavailable")
	})
	if got := nickLines(lines); !reflect.DeepEqual(got, []string{"new", "new_", "new__", "new___"}) {
		t.Fatalf("NICK lines: %q", got)
	}
	pongs := 0
	for _, l := range lines {
		if strings.HasPrefix(l, "PONG") {
			pongs++
			if l != "PONG :tok en\r\n" {
				t.Fatalf("PONG line %q", l)
			}
		}
	}
	if pongs != 1 {
		t.Fatalf("%d PONG lines in %q", pongs, lines)
	}
}

// With tracking disabled the collision handler panics in GetNick and proposes nothing
// (without Config.RecoverFunc the panic kills the process).
func TestC17_NoTrackingCollision(t *testing.T) {
	s := drive.Start(drive.BaseConfig())
	defer s.Stop()
	s.C.DisableTracking()
	lines := sentLines(s, func() { s.Feed(":srv 433 * me :Nickname is already in use") })
	if s.PanicCount() != 0 {
		t.Errorf("the collision handler panicked: %v", s.Panics[0])
	}
	if got := nickLines(lines); !reflect.DeepEqual(got, []string{"me_"}) {
		t.Fatalf("NICK lines after 433 with tracking disabled: %q, want [me_]", got)
	}
}

// A refused nickname that IsValidNick rejects (non-ASCII) is proposed again.
func TestC17_InvalidNickRepeat(t *testing.T) {
	s := drive.Start(drive.BaseConfig())
	defer s.Stop()
	lines := sentLines(s, func() {
		s.Feed(":srv 001 \xc3\xbc :Welcome")
		for i := 0; i < 5000 && s.C.GetNick() != "\xc3\xbc"; i++ { // handleConnect runs in the background
			time.Sleep(time.Millisecond)
		}
		s.Feed(":srv 433 \xc3\xbc \xc3\xa9 :Nickname is already in use")
		s.Feed(":srv 433 \xc3\xbc \xc3\xbc_ :Nickname is already in use")
	})
	got := nickLines(lines)
	if len(got) != 2 || got[0] == got[1] {
		t.Fatalf("NICK lines: %q: the refused nickname is proposed again", got)
	}
}
