//go:build verif

// Further C11 witnesses: one minimal input per facet of the three repaired defects
// (splitMessage ef457aa, Join/List 16b825c, ISUPPORT LINELEN 331c718). Each fails on the
// tree before the corresponding fix commit and passes after it.
package witness

import (
	"reflect"
	"strings"
	"testing"

	"github.com/lrstanley/girc"
)

// Two words were fused when the second did not fit: "bbbb"+"cccc" without the separator.
func TestC11_SplitNeverFusesWords(t *testing.T) {
	got := girc.VerifSplitMessage("aaaa bbbb cccc", 9)
	want := []string{"aaaa bbbb", "cccc"}
	if !reflect.DeepEqual(got, want) {
		t.Fatalf("split(\"aaaa bbbb cccc\", 9) = %q, want %q", got, want)
	}
}

// Whitespace-only text longer than the limit gave one empty piece.
func TestC11_SplitWhitespaceOnlyGivesNothing(t *testing.T) {
	if got := girc.VerifSplitMessage(strings.Repeat(" ", 40), 10); len(got) != 0 {
		t.Fatalf("whitespace-only text gave %q", got)
	}
}

// The limit is in bytes: 30 two-byte characters against a width of 20 need three pieces,
// each valid UTF-8.
func TestC11_SplitCountsBytes(t *testing.T) {
	got := girc.VerifSplitMessage(strings.Repeat("é", 30), 20)
	if len(got) != 3 || strings.Join(got, "") != strings.Repeat("é", 30) {
		t.Fatalf("got %q", got)
	}
	for _, p := range got {
		if len(p) > 20 {
			t.Fatalf("piece %q has %d bytes", p, len(p))
		}
	}
}

// A long CTCP ACTION keeps its frame on every piece and every piece fits.
func TestC11_ActionKeepsFrame(t *testing.T) {
	e := &girc.Event{Command: girc.PRIVMSG, Params: []string{"#c", "\x01ACTION " + strings.Repeat("wave ", 40) + "\x01"}}
	pieces := girc.VerifEventSplit(e, 60)
	if len(pieces) < 2 {
		t.Fatalf("not split: %d piece(s)", len(pieces))
	}
	for _, p := range pieces {
		l := p.Last()
		if !strings.HasPrefix(l, "\x01ACTION ") || !strings.HasSuffix(l, "\x01") || p.Params[0] != "#c" || p.Command != girc.PRIVMSG {
			t.Fatalf("piece %q lost the frame", p.String())
		}
		if p.Len() > 60 {
			t.Fatalf("piece %q is %d bytes, limit 60", p.String(), p.Len())
		}
	}
}

// List used to skip the channel that overflowed a batch (and to send nothing at all when
// it was the last one).
func TestC11_ListBatches(t *testing.T) {
	s := joined(t)
	defer s.Stop()
	s.Feed(":srv 005 me LINELEN=137 :are supported by this server") // MaxEventLength 20
	chans := []string{"#aaaa", "#bbbb", "#cccc", "#dddd", "#eeee"}
	lines := sentLines(s, func() { s.C.Cmd.List(chans...) })
	var got []string
	for _, l := range lines {
		l = strings.TrimSuffix(l, "\r\n")
		if strings.HasPrefix(l, "LIST ") {
			if len(l) > 20 {
				t.Fatalf("line %q exceeds MaxEventLength 20", l)
			}
			got = append(got, strings.Split(strings.TrimPrefix(l, "LIST "), ",")...)
		}
	}
	if !reflect.DeepEqual(got, chans) {
		t.Fatalf("List sent %q, want %q", got, chans)
	}
}

// LINELEN together with NICKLEN/USERLEN/HOSTLEN: L - 2 - (4 + nick + user + host).
func TestC11_LimitFormula(t *testing.T) {
	s := joined(t)
	defer s.Stop()
	s.Feed(":srv 005 me LINELEN=2048 NICKLEN=31 USERLEN=12 HOSTLEN=100 :are supported by this server")
	if got, want := s.C.MaxEventLength(), 2048-2-(4+31+18+100); got != want {
		t.Fatalf("MaxEventLength = %d, want %d", got, want)
	}
}
