//go:build verif

// Witnesses: one minimal failing input / history per defect found while stating the
// property theorems. Each test fails on the tree before the corresponding `fix:`
// commit and passes after it; they run first in every check of their property.
package witness

import (
	"encoding/base64"
	"reflect"
	"strings"
	"testing"
	"time"

	"gircverif/drive"

	"github.com/lrstanley/girc"
)

func TestC15_FoldNonASCII(t *testing.T) {
	if got := girc.ToRFC1459("#caf\xc3\xa9"); got != "#caf\xc3\xa9" {
		t.Fatalf("ToRFC1459 changed non-ASCII bytes: %x", got)
	}
}

func TestC01_TabInsideMiddle(t *testing.T) {
	e := &girc.Event{Command: "PRIVMSG", Params: []string{"#c", "a\tb"}}
	p := girc.ParseEvent(e.String())
	if p == nil || !reflect.DeepEqual(p.Params, e.Params) {
		t.Fatalf("round trip of %q gave %#v", e.String(), p)
	}
	for _, sep := range []string{" ", "\v", " ", "\f", "\u0085"} {
		p := girc.ParseEvent("PRIVMSG #c a" + sep + "b")
		if p == nil || len(p.Params) != 2 {
			t.Fatalf("separator %q split a middle parameter: %#v", sep, p)
		}
	}
}

func TestC01_TagValueStoredEscaped(t *testing.T) {
	p := girc.ParseEvent(`@k=a\sb\\sc :n PRIVMSG #c :x`)
	if p == nil {
		t.Fatal("nil")
	}
	if v, _ := p.Tags.Get("k"); v != `a b\sc` {
		t.Fatalf("Get after parse = %q, want %q", v, `a b\sc`)
	}
	q := girc.ParseEvent(p.String())
	if q == nil || q.Command != "PRIVMSG" {
		t.Fatalf("re-serialised line %q does not parse back to the same event: %#v", p.String(), q)
	}
	if v, _ := q.Tags.Get("k"); v != `a b\sc` {
		t.Fatalf("Get after second parse = %q", v)
	}
}

func TestC03_LenEmptyTags(t *testing.T) {
	e := &girc.Event{Command: "PING", Params: []string{"x"}, Tags: girc.Tags{}}
	if e.Len() != len(e.Bytes()) {
		t.Fatalf("Len()=%d, len(Bytes())=%d", e.Len(), len(e.Bytes()))
	}
}

func joined(t *testing.T) *drive.Session {
	s := drive.Start(drive.BaseConfig())
	s.Feed(":srv 001 me :welcome")
	for i := 0; i < 500 && s.C.GetNick() != "me"; i++ {
		time.Sleep(time.Millisecond)
	}
	s.Feed(":me!user@host JOIN #chan")
	s.Feed(":srv 353 me = #chan :me @alice +bob")
	return s
}

func TestC04_ModeRemoval(t *testing.T) {
	s := joined(t)
	defer s.Stop()
	s.Feed(":alice!a@h MODE #chan +m")
	if ch := s.C.LookupChannel("#chan"); ch == nil || !ch.Modes.HasMode("m") {
		t.Fatal("+m not recorded")
	}
	s.Feed(":alice!a@h MODE #chan -m")
	if ch := s.C.LookupChannel("#chan"); ch.Modes.HasMode("m") {
		t.Fatal("-m ignored: HasMode(m) still true")
	}
}

func TestC04_KickOwnNickCaseVariant(t *testing.T) {
	s := joined(t)
	defer s.Stop()
	s.Feed(":alice!a@h KICK #chan ME :bye")
	if s.C.IsInChannel("#chan") {
		t.Fatal("kick of own nick in another case spelling did not remove the channel")
	}
}

func noPanic(t *testing.T, s *drive.Session, lines ...string) {
	for _, l := range lines {
		s.Feed(l)
	}
	if n := s.PanicCount(); n != 0 {
		t.Fatalf("%d handler panic(s) on %q", n, lines)
	}
	if !s.C.VerifTryStateLock() {
		t.Fatalf("state lock left held after %q", lines)
	}
}

func TestC05_BareWHO(t *testing.T)   { s := joined(t); defer s.Stop(); noPanic(t, s, ":srv 352 me") }
func TestC05_ShortNAMES(t *testing.T) { s := joined(t); defer s.Stop(); noPanic(t, s, ":srv 353 a b") }
func TestC05_NoSourceCHGHOST(t *testing.T) {
	s := joined(t)
	defer s.Stop()
	noPanic(t, s, "CHGHOST a b")
}
func TestC05_NoSourceAWAY(t *testing.T) { s := joined(t); defer s.Stop(); noPanic(t, s, "AWAY :gone") }
func TestC05_NoSourceACCOUNT(t *testing.T) {
	s := joined(t)
	defer s.Stop()
	noPanic(t, s, "ACCOUNT acct")
}
func TestC05_NoSourceAccountTag(t *testing.T) {
	s := joined(t)
	defer s.Stop()
	noPanic(t, s, "@account=x PRIVMSG me :hi")
}
func TestC05_AuthenticateWithoutSASL(t *testing.T) {
	s := joined(t)
	defer s.Stop()
	noPanic(t, s, "AUTHENTICATE +")
}
func TestC05_NickOntoExisting(t *testing.T) {
	s := joined(t)
	defer s.Stop()
	noPanic(t, s, ":alice!a@h NICK bob")
	ch := s.C.LookupChannel("#chan")
	seen := map[string]bool{}
	for _, u := range ch.UserList {
		if seen[u] {
			t.Fatalf("duplicate %q in UserList %v", u, ch.UserList)
		}
		seen[u] = true
	}
	noPanic(t, s, ":bob!a@h PART #chan", ":me!user@host PART #chan")
}

func TestC09_ChunkBoundary(t *testing.T) {
	for _, n := range []int{290, 299, 300, 301, 590, 600, 601} {
		pass := strings.Repeat("p", n)
		cfg := drive.BaseConfig()
		cfg.SASL = &girc.SASLPlain{User: "u", Pass: pass}
		s := drive.Start(cfg)
		want := cfg.SASL.Encode([]string{"+"})
		m := s.Mark()
		s.Feed("AUTHENTICATE +")
		s.Settle(20*time.Millisecond, time.Second)
		var got string
		var sizes []int
		for _, l := range s.Since(m) {
			if strings.HasPrefix(l, "AUTHENTICATE ") {
				p := strings.TrimSuffix(strings.TrimPrefix(l, "AUTHENTICATE "), "\r\n")
				sizes = append(sizes, len(p))
				if p != "+" {
					got += p
				}
			}
		}
		s.Stop()
		if got != want {
			dec, _ := base64.StdEncoding.DecodeString(want)
			t.Fatalf("response of %d bytes (credential %d bytes) arrived as %d bytes in chunks %v", len(want), len(dec), len(got), sizes)
		}
	}
}

func TestC11_SplitNoPanicNoLoss(t *testing.T) {
	func() {
		defer func() {
			if r := recover(); r != nil {
				t.Fatalf("splitMessage(\"ab%%\", 2) panicked: %v", r)
			}
		}()
		girc.VerifSplitMessage("ab%", 2)
	}()
	check := func(in string, w int) {
		out := girc.VerifSplitMessage(in, w)
		if got := strings.Join(strings.Fields(strings.Join(out, " ")), ""); got != strings.Join(strings.Fields(in), "") {
			t.Fatalf("split(%q,%d)=%q loses or adds characters", in, w, out)
		}
		for _, p := range out {
			if len(p) > w {
				t.Fatalf("split(%q,%d): piece %q is %d bytes", in, w, p, len(p))
			}
			if p == "" {
				t.Fatalf("split(%q,%d): empty piece", in, w)
			}
		}
	}
	check("aaaa-bbbb cccc", 8)
	check("time:now is 12:30", 9)
	check(strings.Repeat("é", 30), 20)
	check("aaaa bbbb cccc dddd", 10)
	words := func(ss []string) []string { return strings.Fields(strings.Join(ss, " ")) }
	in := "aaaaaaa bbbb cccc"
	if got := words(girc.VerifSplitMessage(in, 10)); strings.Join(got, "|") != "aaaaaaa|bbbb|cccc" {
		t.Fatalf("words fused or cut although each fits a line: %q", got)
	}
}

func sentLines(s *drive.Session, f func()) []string {
	m := s.Mark()
	f()
	s.Settle(20*time.Millisecond, time.Second)
	return s.Since(m)
}

func TestC11_JoinBatches(t *testing.T) {
	s := joined(t)
	defer s.Stop()
	var chans []string
	for i := 0; i < 60; i++ {
		chans = append(chans, "#channel-number-"+strings.Repeat("x", i%7)+string(rune('a'+i%26))+string(rune('a'+i/26)))
	}
	lines := sentLines(s, func() { s.C.Cmd.Join(chans...) })
	var got []string
	for _, l := range lines {
		if strings.HasPrefix(l, "JOIN ") {
			got = append(got, strings.Split(strings.TrimSuffix(strings.TrimPrefix(l, "JOIN "), "\r\n"), ",")...)
		}
	}
	if !reflect.DeepEqual(got, chans) {
		t.Fatalf("Join sent %d of %d channels", len(got), len(chans))
	}
}

func TestC11_LineLen(t *testing.T) {
	s := joined(t)
	defer s.Stop()
	s.Feed(":srv 005 me LINELEN=1024 :are supported by this server")
	if got := s.C.MaxEventLength(); got != 1024-2-115 {
		t.Fatalf("MaxEventLength after LINELEN=1024 is %d, want %d", got, 1024-2-115)
	}
}

func TestC13_SnapshotIsolation(t *testing.T) {
	s := joined(t)
	defer s.Stop()
	snap := s.C.LookupChannel("#chan")
	before := append([]string(nil), s.C.LookupChannel("#chan").UserList...)
	snap.UserList[0] = "zzz"
	if after := s.C.LookupChannel("#chan").UserList; !reflect.DeepEqual(before, after) {
		t.Fatalf("writing a snapshot changed tracked state: %v -> %v", before, after)
	}
	snap2 := s.C.LookupChannel("#chan")
	saved := append([]string(nil), snap2.UserList...)
	s.Feed(":alice!a@h PART #chan")
	if !reflect.DeepEqual(saved, snap2.UserList) {
		t.Fatalf("a later PART changed an old snapshot: %v -> %v", saved, snap2.UserList)
	}
	u := s.C.LookupUser("bob")
	savedU := append([]string(nil), u.ChannelList...)
	u.ChannelList[0] = "#zzz"
	if got := s.C.LookupUser("bob").ChannelList; !reflect.DeepEqual(got, savedU) {
		t.Fatalf("writing a user snapshot changed tracked state: %v", got)
	}
}

func TestC14_EmptyCommand(t *testing.T) {
	e := &girc.Event{Command: "PRIVMSG", Params: []string{"me", "\x01 a\x01"}, Source: &girc.Source{Name: "x"}}
	if c := girc.DecodeCTCP(e); c != nil {
		t.Fatalf("decoded a CTCP with empty command: %#v", c)
	}
}

func TestC14_NoSourceCTCP(t *testing.T) {
	// The default repliers run in bare goroutines: a nil dereference there kills the
	// process. On the unrepaired tree this test aborts the whole test binary.
	s := joined(t)
	defer s.Stop()
	for _, c := range []string{"VERSION", "PING 1", "TIME", "SOURCE", "FINGER", "PONG"} {
		s.Feed("PRIVMSG me :\x01" + c + "\x01")
	}
	time.Sleep(50 * time.Millisecond)
}

func TestC17_RepeatedCollision(t *testing.T) {
	cfg := drive.BaseConfig()
	s := drive.Start(cfg)
	defer s.Stop()
	lines := sentLines(s, func() {
		s.Feed(":srv 433 * me :Nickname is already in use")
		s.Feed(":srv 433 * me_ :Nickname is already in use")
		s.Feed(":srv 433 * me__ :Nickname is already in use")
	})
	var got []string
	for _, l := range lines {
		if strings.HasPrefix(l, "NICK ") {
			got = append(got, strings.TrimSuffix(strings.TrimPrefix(l, "NICK "), "\r\n"))
		}
	}
	if !reflect.DeepEqual(got, []string{"me_", "me__", "me___"}) {
		t.Fatalf("collision proposals: %v", got)
	}
}

func TestC19_OverlappingPieces(t *testing.T) {
	for _, c := range [][2]string{{"a", "a*a"}, {"aba", "ab*ba"}, {"ab", "ab*b"}} {
		if girc.Glob(c[0], c[1]) {
			t.Fatalf("Glob(%q,%q) = true", c[0], c[1])
		}
	}
	if !girc.Glob("aa", "a*a") || !girc.Glob("abba", "ab*ba") {
		t.Fatal("Glob rejects a correct match")
	}
}

func TestC10_InvalidPolicyNotRetained(t *testing.T) {
	s := drive.Start(drive.BaseConfig())
	s.Feed(":srv CAP * LS :sts=port=5")
	s.Feed(":srv CAP * ACK :sts")
	st := s.C.VerifSTSState()
	s.Stop()
	if st.Enabled {
		t.Fatalf("rejected policy (port 5) retained: %+v", st)
	}
}

func TestC12_LatencyDisconnected(t *testing.T) {
	c := girc.New(drive.BaseConfig())
	defer func() {
		if r := recover(); r != nil {
			t.Fatalf("Latency() on a disconnected client panicked: %v", r)
		}
	}()
	c.Latency()
}

func TestC04_WhoAccount(t *testing.T) {
	s := joined(t)
	defer s.Stop()
	s.Feed(":alice!a@h ACCOUNT acct")
	s.Feed(":srv 352 me #chan a h srv alice H :0 Alice")
	if u := s.C.LookupUser("alice"); u == nil || u.Extras.Account != "acct" {
		t.Fatalf("a plain WHO reply (which carries no account) cleared the tracked account: %+v", u)
	}
	s.Feed(":srv 354 me 1 #chan a h alice 0 :Alice")
	if u := s.C.LookupUser("alice"); u.Extras.Account != "" {
		t.Fatalf("WHOX account 0 (logged out) left the stale account %q", u.Extras.Account)
	}
}
