//go:build verif

// Witnesses for C07 (connection lifecycle): each fails on the tree before the
// corresponding `fix:` commit and passes after it.
package witness

import (
	"bufio"
	"net"
	"strings"
	"sync"
	"testing"
	"time"

	"github.com/lrstanley/girc"
)

type lcPeer struct {
	conn  net.Conn
	mu    sync.Mutex
	lines []string
}

// newLcPeer returns the server side of a pipe; when read is true every line the
// client writes is recorded.
func newLcPeer(conn net.Conn, read bool) *lcPeer {
	p := &lcPeer{conn: conn}
	if read {
		go func() {
			r := bufio.NewReader(conn)
			for {
				l, err := r.ReadString('\n')
				if l != "" {
					p.mu.Lock()
					p.lines = append(p.lines, strings.TrimRight(l, "\r\n"))
					p.mu.Unlock()
				}
				if err != nil {
					return
				}
			}
		}()
	}
	return p
}

func (p *lcPeer) got() []string {
	p.mu.Lock()
	defer p.mu.Unlock()
	return append([]string(nil), p.lines...)
}

func (p *lcPeer) waitLine(prefix string, d time.Duration) bool {
	deadline := time.Now().Add(d)
	for time.Now().Before(deadline) {
		for _, l := range p.got() {
			if strings.HasPrefix(l, prefix) {
				return true
			}
		}
		time.Sleep(time.Millisecond)
	}
	return false
}

func lcConfig() girc.Config {
	return girc.Config{Server: "irc.test", Port: 6667, Nick: "me", User: "user", Name: "Real", AllowFlood: true}
}

func lcWait(t *testing.T, done chan error) error {
	t.Helper()
	select {
	case err := <-done:
		return err
	case <-time.After(10 * time.Second):
		t.Fatal("MockConnect did not return within 10s")
		return nil
	}
}

// Lines that follow an ERROR in the same burst stay in the receive queue when the
// exec loop returns; they must not be delivered to handlers, applied to the tracked
// state or answered on the next connection of the same client.
func TestC07_StaleRxNextConn(t *testing.T) {
	c := girc.New(lcConfig())
	var mu sync.Mutex
	var seen []string
	gate := make(chan struct{})
	c.Handlers.Add(girc.ALL_EVENTS, func(_ *girc.Client, e girc.Event) {
		if e.Command == girc.ERROR {
			// hold the exec loop inside the ERROR handlers until the reader has
			// queued the lines that follow (deterministic, no sleeps).
			<-gate
		}
		mu.Lock()
		seen = append(seen, e.String())
		mu.Unlock()
	})

	in, out := net.Pipe()
	p := newLcPeer(in, true)
	done := make(chan error, 1)
	go func() { done <- c.MockConnect(out) }()
	if !p.waitLine("USER ", 5*time.Second) {
		t.Fatal("no registration on connection 1")
	}
	if _, err := in.Write([]byte("ERROR :bye\r\n:me!user@host JOIN #stale\r\n:srv PING :stale1\r\n")); err != nil {
		t.Fatal(err)
	}
	// all three lines were consumed by the client's reader; wait until the two that
	// follow the ERROR sit in the receive queue.
	deadline := time.Now().Add(5 * time.Second)
	for {
		rx, _ := c.VerifQueues()
		if rx >= 2 || time.Now().After(deadline) {
			break
		}
		time.Sleep(time.Millisecond)
	}
	close(gate)
	err := lcWait(t, done)
	in.Close()
	if ee, ok := err.(*girc.ErrEvent); !ok || ee.Error() != "bye" {
		t.Fatalf("connection 1 returned %v, want ErrEvent bye", err)
	}

	mu.Lock()
	seen = nil
	mu.Unlock()

	in2, out2 := net.Pipe()
	p2 := newLcPeer(in2, true)
	go func() { done <- c.MockConnect(out2) }()
	if !p2.waitLine("USER ", 5*time.Second) {
		t.Fatal("no registration on connection 2")
	}
	// A round trip through the new connection: once the answer to this PING is on
	// the wire everything queued before it has been processed.
	if _, err := in2.Write([]byte(":srv PING :fresh\r\n")); err != nil {
		t.Fatal(err)
	}
	if !p2.waitLine("PONG fresh", 5*time.Second) && !p2.waitLine("PONG :fresh", time.Second) {
		t.Fatalf("no PONG on connection 2: %q", p2.got())
	}
	mu.Lock()
	events := append([]string(nil), seen...)
	mu.Unlock()
	for _, e := range events {
		if strings.Contains(e, "#stale") || strings.Contains(e, "stale1") {
			t.Errorf("event of connection 1 delivered on connection 2: %q", e)
		}
	}
	for _, l := range p2.got() {
		if strings.Contains(l, "stale") {
			t.Errorf("connection 2 wrote output caused by connection 1: %q", l)
		}
	}
	if c.LookupChannel("#stale") != nil {
		t.Errorf("tracked state of connection 2 holds channel #stale of connection 1")
	}
	c.Close()
	lcWait(t, done)
	in2.Close()
}

// Output queued but never written (the peer had stopped reading, then closed) must
// not be sent to the next server, let alone before the registration.
func TestC07_StaleTxNextConn(t *testing.T) {
	c := girc.New(lcConfig())
	in, out := net.Pipe()
	done := make(chan error, 1)
	go func() { done <- c.MockConnect(out) }()
	r := bufio.NewReader(in)
	for {
		in.SetReadDeadline(time.Now().Add(5 * time.Second))
		l, err := r.ReadString('\n')
		if err != nil {
			t.Fatalf("registration of connection 1: %v", err)
		}
		if strings.HasPrefix(l, "USER ") {
			break
		}
	}
	// the peer no longer reads: the first message blocks the send loop in its
	// write, the others stay queued.
	for i := 0; i < 5; i++ {
		c.Cmd.Message("#chan", "old message")
	}
	deadline := time.Now().Add(5 * time.Second)
	for {
		_, tx := c.VerifQueues()
		if tx == 4 || time.Now().After(deadline) {
			break
		}
		time.Sleep(time.Millisecond)
	}
	in.Close()
	if err := lcWait(t, done); err == nil {
		t.Fatalf("connection 1 returned nil after the peer closed")
	}

	in2, out2 := net.Pipe()
	p2 := newLcPeer(in2, true)
	go func() { done <- c.MockConnect(out2) }()
	if !p2.waitLine("USER ", 5*time.Second) {
		t.Fatal("no registration on connection 2")
	}
	if _, err := in2.Write([]byte(":srv PING :fresh\r\n")); err != nil {
		t.Fatal(err)
	}
	if !p2.waitLine("PONG", 5*time.Second) {
		t.Fatalf("no PONG on connection 2: %q", p2.got())
	}
	for _, l := range p2.got() {
		if strings.Contains(l, "old message") {
			t.Errorf("output queued on connection 1 was written to connection 2: %q (all: %q)", l, p2.got())
			break
		}
	}
	c.Close()
	lcWait(t, done)
	in2.Close()
}
