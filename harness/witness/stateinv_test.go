//go:build verif

// Witnesses of the C05 findings that are NOT repaired in /repo yet. They are named
// TestPendingC05_* so that `bin/check C05` (which runs ^TestC05_) does not run them;
// rename one to TestC05_* together with the `fix:` commit of its defect
// (patches: notes/proposed-fixes/). Each fails on the current tree and passes with
// its patch applied.
package witness

import (
	"strings"
	"testing"
	"time"

	"gircverif/drive"

	"github.com/lrstanley/girc"
)

// handler-injected-error-self-blocks: a handler that queues an ERROR while the receive
// queue is full waits on itself for 30 s and the ERROR is dropped: the client neither
// processes anything for half a minute nor disconnects after the failed SASL exchange.
func TestPendingC05_InjectedErrorSelfBlocks(t *testing.T) {
	cfg := drive.BaseConfig()
	cfg.SASL = &girc.SASLPlain{User: "a", Pass: "b"}
	s := drive.Start(cfg)
	// an ordinary user handler that takes a few milliseconds per message
	s.C.Handlers.Add(girc.PRIVMSG, func(c *girc.Client, e girc.Event) { time.Sleep(5 * time.Millisecond) })
	var sb strings.Builder
	for i := 0; i < 5; i++ {
		sb.WriteString(":a!b@c PRIVMSG #x :hello\r\n")
	}
	sb.WriteString(":srv 904 me :SASL authentication failed\r\n")
	for i := 0; i < 40; i++ {
		sb.WriteString(":a!b@c PRIVMSG #x :hello\r\n")
	}
	sb.WriteString("PING :after\r\n")
	go s.Peer.Write([]byte(sb.String()))
	select {
	case err := <-s.Done:
		s.Done <- err
		if err == nil {
			t.Fatal("Connect returned nil after a failed SASL exchange")
		}
	case <-time.After(12 * time.Second):
		t.Fatal("12 s after ERR_SASLFAIL the client has neither disconnected nor moved on: the handler blocks on its own receive queue (and the queued ERROR is dropped when the 30 s timeout expires)")
	}
	s.Stop()
}

// mode-perms-for-non-member: MODE #b +o zed for a tracked user who is not in #b stores a
// permission entry; Lookup then claims membership.
func TestPendingC05_ModePermsForNonMember(t *testing.T) {
	s := drive.Start(drive.BaseConfig())
	defer s.Stop()
	for _, l := range []string{":me!u@h JOIN #a", ":srv 353 me = #a :me zed", ":me!u@h JOIN #b", ":srv 353 me = #b :me",
		":srv MODE #b +o zed"} {
		s.Feed(l)
	}
	u := s.C.LookupUser("zed")
	if u == nil {
		t.Fatal("zed is not tracked")
	}
	if u.InChannel("#b") {
		t.Fatal("zed is not in #b")
	}
	if p, ok := u.Perms.Lookup("#b"); ok {
		t.Fatalf("Perms.Lookup(#b) = %+v, ok=true for a user who is not in #b (documented: ok is false if the user is not in the given channel)", p)
	}
}
