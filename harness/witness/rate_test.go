//go:build verif

// C16 witness: fails on the tree before "fix: the flood limiter credits elapsed time only
// once", passes after it.
package witness

import (
	"bufio"
	"fmt"
	"net"
	"strings"
	"sync"
	"testing"
	"time"

	"github.com/lrstanley/girc"
)

// One goroutine, flood protection on. After 1.5 s without output it sends ten
// 30-byte messages (cost 1.3 s each, 13 s in total) back to back. Whatever the
// schedule, n lines may be on the wire t seconds after the last write before the burst
// only if n * 1.3 s <= 8 s + t. The unrepaired limiter forgave the same idle period on
// every call (lastWrite is stamped later, by sendLoop): all ten were written at once.
func TestC16_BurstAfterIdle(t *testing.T) {
	c := girc.New(girc.Config{Server: "irc.test", Port: 6667, Nick: "me", User: "user", Name: "Real Name"})
	in, out := net.Pipe()
	var mu sync.Mutex
	var at []time.Time
	registered := make(chan struct{})
	go func() {
		r := bufio.NewReader(in)
		for {
			l, err := r.ReadString('\n')
			if strings.HasPrefix(l, "USER ") {
				close(registered)
			}
			if strings.HasPrefix(l, "PRIVMSG #w ") {
				mu.Lock()
				at = append(at, time.Now())
				mu.Unlock()
			}
			if err != nil {
				return
			}
		}
	}()
	go c.MockConnect(out)
	defer c.Close()
	select { // the registration lines are on the wire: lastWrite is stamped
	case <-registered:
	case <-time.After(20 * time.Second):
		t.Fatal("no registration within 20s")
	}
	var t0 time.Time
	for i := 0; ; i++ {
		before := time.Now()
		_, since, ok := c.VerifRateState()
		if !ok || i > 100 {
			t.Fatal("not connected")
		}
		if since > time.Hour {
			t.Fatal("lastWrite is unset although the registration lines were written")
		}
		if since >= 1500*time.Millisecond {
			t0 = before.Add(-since) // no later than lastWrite
			break
		}
		time.Sleep(1500*time.Millisecond - since + time.Millisecond)
	}
	const n = 10
	cost := 1300 * time.Millisecond
	for i := 0; i < n; i++ {
		e := &girc.Event{Command: girc.PRIVMSG, Params: []string{"#w", fmt.Sprintf("m%03d", i) + strings.Repeat("x", 15)}}
		if e.Len() != 30 {
			t.Fatalf("Len=%d", e.Len())
		}
		c.Send(e)
	}
	time.Sleep(200 * time.Millisecond)
	mu.Lock()
	defer mu.Unlock()
	if len(at) != n {
		t.Fatalf("%d of %d lines arrived", len(at), n)
	}
	for i, a := range at {
		if sum, allowed := time.Duration(i+1)*cost, 8*time.Second+a.Sub(t0); sum > allowed {
			t.Fatalf("%d lines (%.1fs of cost) were on the wire %.2fs after the last write before the burst; the allowance is 8s + elapsed = %.2fs",
				i+1, sum.Seconds(), a.Sub(t0).Seconds(), allowed.Seconds())
		}
	}
}
