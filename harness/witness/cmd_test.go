//go:build verif

// Witnesses for C18 (cmdhandler).
package witness

import (
	"testing"
	"time"

	"github.com/lrstanley/girc"
	"github.com/lrstanley/girc/cmdhandler"
)

// runs reports which of the registered functions ran for one PRIVMSG with the given text.
func c18Runs(t *testing.T, ch *cmdhandler.CmdHandler, ran chan string, text string) []string {
	t.Helper()
	c := girc.New(girc.Config{Server: "dummy.int", Port: 6667, Nick: "bot", User: "bot", Name: "bot"})
	ch.Execute(c, girc.Event{Source: &girc.Source{Name: "nick"}, Command: girc.PRIVMSG, Params: []string{"bot", text}})
	var out []string
	for {
		select {
		case n := <-ran:
			out = append(out, n)
		case <-time.After(200 * time.Millisecond):
			return out
		}
	}
}

func c18Fn(ran chan string, name string) func(*girc.Client, *cmdhandler.Input) {
	return func(*girc.Client, *cmdhandler.Input) { ran <- name }
}

// Repaired in 79afa49: Add registered the name before it detected the duplicate alias, so a
// command whose registration was rejected stayed invocable by its name.
func TestC18_AddPartialRegistration(t *testing.T) {
	ch, err := cmdhandler.New("!")
	if err != nil {
		t.Fatal(err)
	}
	ran := make(chan string, 8)
	if err := ch.Add(&cmdhandler.Command{Name: "ping", Aliases: []string{"p"}, Fn: c18Fn(ran, "ping")}); err != nil {
		t.Fatal(err)
	}
	if err := ch.Add(&cmdhandler.Command{Name: "pong", Aliases: []string{"p"}, Fn: c18Fn(ran, "pong")}); err == nil {
		t.Fatal("duplicate alias accepted")
	}
	if got := c18Runs(t, ch, ran, "!pong"); len(got) != 0 {
		t.Fatalf("rejected command is invocable: %v", got)
	}
	if got := c18Runs(t, ch, ran, "!p"); len(got) != 1 || got[0] != "ping" {
		t.Fatalf("alias p runs %v, want [ping]", got)
	}
	if err := ch.Add(&cmdhandler.Command{Name: "self", Aliases: []string{"self"}, Fn: c18Fn(ran, "self")}); err == nil {
		t.Fatal("alias equal to the name accepted")
	}
	if err := ch.Add(&cmdhandler.Command{Name: "two", Aliases: []string{"x", "x"}, Fn: c18Fn(ran, "two")}); err == nil {
		t.Fatal("repeated alias accepted")
	}
	if got := c18Runs(t, ch, ran, "!two"); len(got) != 0 {
		t.Fatalf("rejected command is invocable: %v", got)
	}
}

// Repaired in cd20b6b: the prefix was matched by a regular expression, and Go's regexp
// decodes an invalid byte of the text as U+FFFD, so a U+FFFD in the prefix also matched any
// byte of the text that starts no valid UTF-8 sequence: a text that did not begin with the
// prefix ran a command.  New also refused prefixes that are not valid UTF-8.
func TestC18_PrefixReplacementRune(t *testing.T) {
	ch, err := cmdhandler.New("\uFFFD")
	if err != nil {
		t.Fatal(err)
	}
	ran := make(chan string, 8)
	if err := ch.Add(&cmdhandler.Command{Name: "ping", Fn: c18Fn(ran, "ping")}); err != nil {
		t.Fatal(err)
	}
	if got := c18Runs(t, ch, ran, "\uFFFDping"); len(got) != 1 {
		t.Fatalf("the prefix itself: %v", got)
	}
	for _, text := range []string{"\xffping", "\x80ping", "\xc3ping", "\xe2\x82ping a"} {
		if got := c18Runs(t, ch, ran, text); len(got) != 0 {
			t.Errorf("text %q does not start with the prefix %q but ran %v", text, "\uFFFD", got)
		}
	}
	bin, err := cmdhandler.New("\xff!")
	if err != nil {
		t.Fatalf("a prefix that is not valid UTF-8 is refused: %v", err)
	}
	if err := bin.Add(&cmdhandler.Command{Name: "ping", Fn: c18Fn(ran, "ping")}); err != nil {
		t.Fatal(err)
	}
	if got := c18Runs(t, bin, ran, "\xff!ping"); len(got) != 1 {
		t.Fatalf("prefix \\xff!: %v", got)
	}
	if got := c18Runs(t, bin, ran, "\uFFFD!ping"); len(got) != 0 {
		t.Fatalf("prefix \\xff! matched U+FFFD: %v", got)
	}
}
