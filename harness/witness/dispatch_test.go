//go:build verif

// Witnesses of repaired defects of the handler dispatch (property C06).
package witness

import (
	"testing"
	"time"

	"github.com/lrstanley/girc"
)

// AddTmp: done was never closed when somebody else (Remove, Clear, ClearAll) removed the
// handler before the deadline passed / the function returned true (repaired in a57d44a;
// oracle class tmp-done-not-closed-after-removal, suite dispatch.tmpdone).
func TestC06_TmpDoneAfterRemoval(t *testing.T) {
	c := girc.New(girc.Config{Server: "irc.test", Port: 6667, Nick: "me", User: "user"})

	// deadline passes after a manual Remove: a waiter on done must be released
	cuid, done := c.Handlers.AddTmp("FOO", 20*time.Millisecond, func(*girc.Client, girc.Event) bool { return false })
	if !c.Handlers.Remove(cuid) {
		t.Fatal("Remove of a registered temporary handler returned false")
	}
	select {
	case <-done:
	case <-time.After(60 * time.Second):
		t.Error("deadline passed after Remove(cuid): done is still open")
	}

	// the function returns true after ClearAll removed the handler
	entered, gate := make(chan struct{}), make(chan struct{})
	_, done2 := c.Handlers.AddTmp("FOO", 0, func(*girc.Client, girc.Event) bool {
		close(entered)
		<-gate
		return true
	})
	go c.RunHandlers(&girc.Event{Command: "FOO"}) // RunHandlers need not return while a background handler runs
	<-entered
	c.Handlers.ClearAll()
	close(gate)
	select {
	case <-done2:
	case <-time.After(60 * time.Second):
		t.Error("handler returned true after ClearAll: done is still open")
	}
}
