//go:build verif

package witness

// Witness for the defect repaired in /repo as 52091d0 "an STS upgrade is carried out even if
// the old connection's teardown reports an error": the server hangs up at the moment it
// acknowledges a valid policy; before the fix Connect returned the I/O error without the
// secure redial and left beginUpgrade set (the patch is kept in
// notes/proposed-fixes/sts-upgrade-lost-on-teardown-error.diff).

import (
	"bufio"
	"errors"
	"net"
	"strings"
	"sync"
	"testing"
	"time"

	"github.com/lrstanley/girc"
)

type stsWitnessDialer func(addr string) (net.Conn, error)

func (f stsWitnessDialer) Dial(network, addr string) (net.Conn, error) { return f(addr) }

func TestC10_UpgradeSurvivesPeerClose(t *testing.T) {
	for i := 0; i < 50; i++ {
		var mu sync.Mutex
		var dials []string
		c := girc.New(girc.Config{Server: "irc.test", Port: 6667, Nick: "me", User: "u", AllowFlood: true})
		d := stsWitnessDialer(func(addr string) (net.Conn, error) {
			mu.Lock()
			dials = append(dials, addr)
			n := len(dials)
			mu.Unlock()
			if n > 1 {
				return nil, errors.New("no TLS peer in this test")
			}
			cli, srv := net.Pipe()
			go func() {
				defer srv.Close() // hangs up right after the acknowledgement
				r := bufio.NewReader(srv)
				for {
					l, err := r.ReadString('\n')
					if err != nil {
						return
					}
					if strings.HasPrefix(l, "USER ") {
						break
					}
				}
				srv.Write([]byte(":srv CAP * LS :sts=port=6697\r\n"))
				if _, err := r.ReadString('\n'); err != nil {
					return
				}
				srv.Write([]byte(":srv CAP * ACK :sts\r\n"))
			}()
			return cli, nil
		})
		done := make(chan error, 1)
		go func() { done <- c.DialerConnect(d) }()
		select {
		case <-done:
		case <-time.After(20 * time.Second):
			t.Fatal("Connect did not return")
		}
		mu.Lock()
		got := append([]string(nil), dials...)
		mu.Unlock()
		if len(got) != 2 || got[1] != "irc.test:6697" {
			t.Fatalf("run %d: dials %v: the acknowledged policy was not followed by a dial of irc.test:6697 in the same Connect call", i, got)
		}
		if c.VerifSTSState().BeginUpgrade {
			t.Fatalf("run %d: beginUpgrade still set after Connect returned", i)
		}
	}
}
