//go:build verif

// Witnesses of C13 (state getters return isolated snapshots).
package witness

import (
	"reflect"
	"testing"
	"time"

	"gircverif/drive"
)

func heapJoined(t *testing.T) *drive.Session {
	s := drive.Start(drive.BaseConfig())
	s.Feed(":srv 001 me :welcome")
	for i := 0; i < 500 && s.C.GetNick() != "me"; i++ {
		time.Sleep(time.Millisecond)
	}
	s.Feed(":me!user@host JOIN #chan")
	s.Feed(":srv 353 me = #chan :me @alice +bob carol")
	return s
}

// Repaired in 620d5e0: `*nu = *u` copied the slice header including its capacity. After
// a PART the tracked array has a free slot behind len; an append on the snapshot wrote
// into it and the next JOIN overwrote the snapshot's element.
func TestC13_SnapshotSpareCapacity(t *testing.T) {
	s := heapJoined(t)
	defer s.Stop()
	s.Feed(":alice!a@h PART #chan")
	snap := s.C.LookupChannel("#chan")
	snap.UserList = append(snap.UserList, "mallory")
	saved := append([]string(nil), snap.UserList...)
	s.Feed(":erin!e@h JOIN #chan")
	if !reflect.DeepEqual(saved, snap.UserList) {
		t.Fatalf("a later JOIN changed an old snapshot: %v -> %v", saved, snap.UserList)
	}
	if got := s.C.LookupChannel("#chan").UserList; !reflect.DeepEqual(got, []string{"bob", "carol", "erin", "me"}) {
		t.Fatalf("tracked list after the JOIN: %v", got)
	}
}

// Repaired in 620d5e0 (permission maps and modes were always copied; kept as a guard):
// a MODE after the snapshot must not show in the snapshot, Modes.Apply on the snapshot
// must not show in the tracked channel.
func TestC13_SnapshotPermsAndModes(t *testing.T) {
	s := heapJoined(t)
	defer s.Stop()
	u := s.C.LookupUser("bob")
	ch := s.C.LookupChannel("#chan")
	s.Feed(":alice!a@h MODE #chan +o bob")
	s.Feed(":alice!a@h MODE #chan +m")
	if p, _ := u.Perms.Lookup("#chan"); p.Op {
		t.Fatal("a later MODE +o changed the permissions of an old snapshot")
	}
	if ch.Modes.HasMode("m") {
		t.Fatal("a later MODE +m changed the modes of an old snapshot")
	}
	ch.Modes.Apply(ch.Modes.Parse("+s", nil))
	if s.C.LookupChannel("#chan").Modes.HasMode("s") {
		t.Fatal("Modes.Apply on a snapshot changed the tracked channel")
	}
}

// NOT repaired (finding member-getter-live-object; the name keeps it out of `^TestC13_`):
// User.Channels(c) / Channel.Users(c) return the tracked objects themselves. Passes after
// notes/proposed-fixes/member-getter-live-object.diff; rename to TestC13_... then.
func TestPendingC13_MemberGettersReturnCopies(t *testing.T) {
	s := heapJoined(t)
	defer s.Stop()
	chans := s.C.LookupUser("alice").Channels(s.C)
	if len(chans) != 1 {
		t.Fatalf("alice is in %d channels", len(chans))
	}
	chans[0].Topic = "defaced"
	chans[0].UserList[0] = "zzz"
	if got := s.C.LookupChannel("#chan"); got.Topic != "" || got.UserList[0] != "alice" {
		t.Fatalf("writing an object returned by User.Channels changed the tracked channel: topic %q, users %v", got.Topic, got.UserList)
	}
	users := s.C.LookupChannel("#chan").Users(s.C)
	var bob string
	for _, u := range users {
		if u.Nick == "bob" {
			bob = u.Nick
			s.Feed(":bob!b@h NICK robert")
			if u.Nick != bob {
				t.Fatalf("a later NICK changed a user returned by Channel.Users: %q -> %q", bob, u.Nick)
			}
		}
	}
	if bob == "" {
		t.Fatal("bob not returned")
	}
}
