//go:build verif

// Witnesses of C13 (state getters return isolated snapshots).
package witness

import (
	"os"
	"reflect"
	"testing"
	"time"

	"gircverif/drive"

	"github.com/lrstanley/girc"
)

func heapJoined(t *testing.T) *drive.Session {
	s := drive.Start(drive.BaseConfig())
	s.Feed(":srv 001 me :welcome")
	for i := 0; i < 500 && s.C.GetNick() != "me"; i++ {
		time.Sleep(time.Millisecond)
	}
	s.Feed(":me!user@host JOIN #chan")
	s.Feed(":srv 353 me = #chan :me @alice +bob carol")
	return s
}

// Repaired in 620d5e0: `*nu = *u` copied the slice header including its capacity. After
// a PART the tracked array has a free slot behind len; an append on the snapshot wrote
// into it and the next JOIN overwrote the snapshot's element.
func TestC13_SnapshotSpareCapacity(t *testing.T) {
	s := heapJoined(t)
	defer s.Stop()
	s.Feed(":alice!a@h PART #chan")
	snap := s.C.LookupChannel("#chan")
	snap.UserList = append(snap.UserList, "mallory")
	saved := append([]string(nil), snap.UserList...)
	s.Feed(":erin!e@h JOIN #chan")
	if !reflect.DeepEqual(saved, snap.UserList) {
		t.Fatalf("a later JOIN changed an old snapshot: %v -> %v", saved, snap.UserList)
	}
	if got := s.C.LookupChannel("#chan").UserList; !reflect.DeepEqual(got, []string{"bob", "carol", "erin", "me"}) {
		t.Fatalf("tracked list after the JOIN: %v", got)
	}
}

// Repaired in 620d5e0 (permission maps and modes were always copied; kept as a guard):
// a MODE after the snapshot must not show in the snapshot, Modes.Apply on the snapshot
// must not show in the tracked channel.
func TestC13_SnapshotPermsAndModes(t *testing.T) {
	s := heapJoined(t)
	defer s.Stop()
	u := s.C.LookupUser("bob")
	ch := s.C.LookupChannel("#chan")
	s.Feed(":alice!a@h MODE #chan +o bob")
	s.Feed(":alice!a@h MODE #chan +m")
	if p, _ := u.Perms.Lookup("#chan"); p.Op {
		t.Fatal("a later MODE +o changed the permissions of an old snapshot")
	}
	if ch.Modes.HasMode("m") {
		t.Fatal("a later MODE +m changed the modes of an old snapshot")
	}
	ch.Modes.Apply(ch.Modes.Parse("+s", nil))
	if s.C.LookupChannel("#chan").Modes.HasMode("s") {
		t.Fatal("Modes.Apply on a snapshot changed the tracked channel")
	}
}

// Observation, not a C13 violation (coordinator's decision): User.Channels(c) / Channel.Users(c)
// (and Trusted / Admins) are documented to return references, and they do return the tracked
// objects themselves; C13 is about Client.LookupUser / LookupChannel / Users / Channels. The test
// shows what that means (model: C13_member_getters_refuted); it is skipped unless
// VERIF_RUN_OBSERVATIONS=1 and its name keeps it out of `^TestC13_`. It would pass after
// notes/proposed-fixes/member-getter-live-object.diff.
func TestObservationC13_MemberGettersReturnReferences(t *testing.T) {
	if os.Getenv("VERIF_RUN_OBSERVATIONS") == "" {
		t.Skip("documented behaviour (references); set VERIF_RUN_OBSERVATIONS=1 to see it")
	}
	s := heapJoined(t)
	defer s.Stop()
	chans := s.C.LookupUser("alice").Channels(s.C)
	if len(chans) != 1 {
		t.Fatalf("alice is in %d channels", len(chans))
	}
	chans[0].Topic = "defaced"
	chans[0].UserList[0] = "zzz"
	if got := s.C.LookupChannel("#chan"); got.Topic != "" || got.UserList[0] != "alice" {
		t.Fatalf("writing an object returned by User.Channels changed the tracked channel: topic %q, users %v", got.Topic, got.UserList)
	}
	users := s.C.LookupChannel("#chan").Users(s.C)
	var bob string
	for _, u := range users {
		if u.Nick == "bob" {
			bob = u.Nick
			s.Feed(":bob!b@h NICK robert")
			if u.Nick != bob {
				t.Fatalf("a later NICK changed a user returned by Channel.Users: %q -> %q", bob, u.Nick)
			}
		}
	}
	if bob == "" {
		t.Fatal("bob not returned")
	}
}

// Guards (pass on the current tree): the two orders of events the seeded regressions
// seeded/C13-1 and seeded/C13-2 need.
func TestC13_ModeSetAgainAfterSnapshot(t *testing.T) {
	s := heapJoined(t)
	defer s.Stop()
	s.Feed(":alice!a@h MODE #chan +l 10")
	snap := s.C.LookupChannel("#chan")
	s.Feed(":alice!a@h MODE #chan +l 20")
	if v, _ := snap.Modes.Get("l"); v != "10" {
		t.Fatalf("a later MODE +l 20 changed a snapshot taken while +l 10 was set: %q", v)
	}
	snap2 := s.C.LookupChannel("#chan")
	snap2.Modes.Apply(snap2.Modes.Parse("+l", []string{"30"}))
	if v, _ := s.C.LookupChannel("#chan").Modes.Get("l"); v != "20" {
		t.Fatalf("Modes.Apply(+l 30) on a snapshot changed the tracked channel: %q", v)
	}
}

func TestC13_EmptyListSnapshotAppend(t *testing.T) {
	s := heapJoined(t)
	defer s.Stop()
	s.Feed(":bob!b@h JOIN #x")
	s.Feed(":bob!b@h PART #x")
	snap := s.C.LookupChannel("#x")
	if snap == nil || len(snap.UserList) != 0 {
		t.Fatalf("expected a tracked empty channel, got %#v", snap)
	}
	snap.UserList = append(snap.UserList, "mallory")
	s.Feed(":carol!c@h JOIN #x")
	if !reflect.DeepEqual(snap.UserList, []string{"mallory"}) {
		t.Fatalf("a later JOIN changed the snapshot: %v", snap.UserList)
	}
	if got := s.C.LookupChannel("#x").UserList; !reflect.DeepEqual(got, []string{"carol"}) {
		t.Fatalf("an append on a snapshot changed the tracked channel: %v", got)
	}
}

// Guard (passes on the current tree; seeded/C13-4): whatever LookupUser / LookupChannel return
// for hostmask-like or decorated arguments is nil or an isolated copy, never the tracked object.
func TestC13_LookupOddArgumentsIsolated(t *testing.T) {
	s := heapJoined(t)
	defer s.Stop()
	for _, arg := range []string{"alice!al@host.int", "alice!al", "alice@host.int", "Alice!*@*", "@alice", " alice", "alice ", "ALICE", "alice,bob"} {
		u := s.C.LookupUser(arg)
		if u == nil {
			continue
		}
		u.Nick, u.Extras.Account = "mallory", "hijacked"
		if len(u.ChannelList) > 0 {
			u.ChannelList[0] = "#hijacked"
		}
		if got := s.C.LookupUser("alice"); got == nil || got.Nick != "alice" || got.Extras.Account != "" || got.ChannelList[0] != "#chan" {
			t.Fatalf("[%s] writing the returned user changed the tracked one: %+v", arg, got)
		}
		saved := *u
		s.Feed(":srv 354 me 1 #chan newid new.host alice acct9 :Real")
		if u.Ident != saved.Ident || u.Host != saved.Host || u.Extras.Account != saved.Extras.Account {
			t.Fatalf("[%s] a later WHOX reply changed a user handed out earlier: %+v", arg, u)
		}
	}
	for _, arg := range []string{"@#chan", "+#chan", "#chan ", " #chan", "#CHAN", "#chan,#x", "#chan!x@y"} {
		ch := s.C.LookupChannel(arg)
		if ch == nil {
			continue
		}
		ch.Topic = "defaced"
		ch.UserList[0] = "zzz"
		if got := s.C.LookupChannel("#chan"); got.Topic != "" || got.UserList[0] != "alice" {
			t.Fatalf("[%s] writing the returned channel changed the tracked one: %+v", arg, got)
		}
	}
}

// Guard (passes on the current tree; seeded/C13-6): the result slices of Users() / Channels() /
// UserList() / ChannelList() are new arrays on every call: a later call or event does not
// change a listing handed out earlier, and slot writes in one do not show in another.
func TestC13_ListingsAreFresh(t *testing.T) {
	s := heapJoined(t)
	defer s.Stop()
	nicks := func(l []*girc.User) (out []string) {
		for _, u := range l {
			if u == nil {
				out = append(out, "<nil>")
			} else {
				out = append(out, u.Nick)
			}
		}
		return out
	}
	first := s.C.Users()
	before := nicks(first)
	s.Feed(":alice!a@h QUIT :bye")
	s.Feed(":aaron!x@h JOIN #chan")
	second := s.C.Users()
	if got := nicks(first); !reflect.DeepEqual(got, before) {
		t.Fatalf("a later Users() call / later events changed a listing handed out earlier: %v -> %v", before, got)
	}
	want := nicks(second)
	third := s.C.Users()
	third[0], third[1] = nil, third[0]
	if got := nicks(second); !reflect.DeepEqual(got, want) {
		t.Fatalf("slot writes in one listing changed another: %v -> %v", want, got)
	}
	c1, c2 := s.C.Channels(), s.C.Channels()
	c1[0] = nil
	if c2[0] == nil {
		t.Fatal("two Channels() results share their backing array")
	}
	l1, l2 := s.C.UserList(), s.C.UserList()
	l1[0] = "overwritten"
	if l2[0] == "overwritten" || s.C.UserList()[0] == "overwritten" {
		t.Fatal("UserList() results share their backing array")
	}
}
