//go:build verif

// Witnesses of C13 (state getters return isolated snapshots).
package witness

import (
	"os"
	"reflect"
	"testing"
	"time"

	"gircverif/drive"
)

func heapJoined(t *testing.T) *drive.Session {
	s := drive.Start(drive.BaseConfig())
	s.Feed(":srv 001 me :welcome")
	for i := 0; i < 500 && s.C.GetNick() != "me"; i++ {
		time.Sleep(time.Millisecond)
	}
	s.Feed(":me!user@host JOIN #chan")
	s.Feed(":srv 353 me = #chan :me @alice +bob carol")
	return s
}

// Repaired in 620d5e0: `*nu = *u` copied the slice header including its capacity. After
// a PART the tracked array has a free slot behind len; an append on the snapshot wrote
// into it and the next JOIN overwrote the snapshot's element.
func TestC13_SnapshotSpareCapacity(t *testing.T) {
	s := heapJoined(t)
	defer s.Stop()
	s.Feed(":alice!a@h PART #chan")
	snap := s.C.LookupChannel("#chan")
	snap.UserList = append(snap.UserList, "mallory")
	saved := append([]string(nil), snap.UserList...)
	s.Feed(":erin!e@h JOIN #chan")
	if !reflect.DeepEqual(saved, snap.UserList) {
		t.Fatalf("a later JOIN changed an old snapshot: %v -> %v", saved, snap.UserList)
	}
	if got := s.C.LookupChannel("#chan").UserList; !reflect.DeepEqual(got, []string{"bob", "carol", "erin", "me"}) {
		t.Fatalf("tracked list after the JOIN: %v", got)
	}
}

// Repaired in 620d5e0 (permission maps and modes were always copied; kept as a guard):
// a MODE after the snapshot must not show in the snapshot, Modes.Apply on the snapshot
// must not show in the tracked channel.
func TestC13_SnapshotPermsAndModes(t *testing.T) {
	s := heapJoined(t)
	defer s.Stop()
	u := s.C.LookupUser("bob")
	ch := s.C.LookupChannel("#chan")
	s.Feed(":alice!a@h MODE #chan +o bob")
	s.Feed(":alice!a@h MODE #chan +m")
	if p, _ := u.Perms.Lookup("#chan"); p.Op {
		t.Fatal("a later MODE +o changed the permissions of an old snapshot")
	}
	if ch.Modes.HasMode("m") {
		t.Fatal("a later MODE +m changed the modes of an old snapshot")
	}
	ch.Modes.Apply(ch.Modes.Parse("+s", nil))
	if s.C.LookupChannel("#chan").Modes.HasMode("s") {
		t.Fatal("Modes.Apply on a snapshot changed the tracked channel")
	}
}

// Observation, not a C13 violation (coordinator's decision): User.Channels(c) / Channel.Users(c)
// (and Trusted / Admins) are documented to return references, and they do return the tracked
// objects themselves; C13 is about Client.LookupUser / LookupChannel / Users / Channels. The test
// shows what that means (model: C13_member_getters_refuted); it is skipped unless
// VERIF_RUN_OBSERVATIONS=1 and its name keeps it out of `^TestC13_`. It would pass after
// notes/proposed-fixes/member-getter-live-object.diff.
func TestObservationC13_MemberGettersReturnReferences(t *testing.T) {
	if os.Getenv("VERIF_RUN_OBSERVATIONS") == "" {
		t.Skip("documented behaviour (references); set VERIF_RUN_OBSERVATIONS=1 to see it")
	}
	s := heapJoined(t)
	defer s.Stop()
	chans := s.C.LookupUser("alice").Channels(s.C)
	if len(chans) != 1 {
		t.Fatalf("alice is in %d channels", len(chans))
	}
	chans[0].Topic = "defaced"
	chans[0].UserList[0] = "zzz"
	if got := s.C.LookupChannel("#chan"); got.Topic != "" || got.UserList[0] != "alice" {
		t.Fatalf("writing an object returned by User.Channels changed the tracked channel: topic %q, users %v", got.Topic, got.UserList)
	}
	users := s.C.LookupChannel("#chan").Users(s.C)
	var bob string
	for _, u := range users {
		if u.Nick == "bob" {
			bob = u.Nick
			s.Feed(":bob!b@h NICK robert")
			if u.Nick != bob {
				t.Fatalf("a later NICK changed a user returned by Channel.Users: %q -> %q", bob, u.Nick)
			}
		}
	}
	if bob == "" {
		t.Fatal("bob not returned")
	}
}

// Guards (pass on the current tree): the two orders of events the seeded regressions
// seeded/C13-1 and seeded/C13-2 need.
func TestC13_ModeSetAgainAfterSnapshot(t *testing.T) {
	s := heapJoined(t)
	defer s.Stop()
	s.Feed(":alice!a@h MODE #chan +l 10")
	snap := s.C.LookupChannel("#chan")
	s.Feed(":alice!a@h MODE #chan +l 20")
	if v, _ := snap.Modes.Get("l"); v != "10" {
		t.Fatalf("a later MODE +l 20 changed a snapshot taken while +l 10 was set: %q", v)
	}
	snap2 := s.C.LookupChannel("#chan")
	snap2.Modes.Apply(snap2.Modes.Parse("+l", []string{"30"}))
	if v, _ := s.C.LookupChannel("#chan").Modes.Get("l"); v != "20" {
		t.Fatalf("Modes.Apply(+l 30) on a snapshot changed the tracked channel: %q", v)
	}
}

func TestC13_EmptyListSnapshotAppend(t *testing.T) {
	s := heapJoined(t)
	defer s.Stop()
	s.Feed(":bob!b@h JOIN #x")
	s.Feed(":bob!b@h PART #x")
	snap := s.C.LookupChannel("#x")
	if snap == nil || len(snap.UserList) != 0 {
		t.Fatalf("expected a tracked empty channel, got %#v", snap)
	}
	snap.UserList = append(snap.UserList, "mallory")
	s.Feed(":carol!c@h JOIN #x")
	if !reflect.DeepEqual(snap.UserList, []string{"mallory"}) {
		t.Fatalf("a later JOIN changed the snapshot: %v", snap.UserList)
	}
	if got := s.C.LookupChannel("#x").UserList; !reflect.DeepEqual(got, []string{"carol"}) {
		t.Fatalf("an append on a snapshot changed the tracked channel: %v", got)
	}
}
