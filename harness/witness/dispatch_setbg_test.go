//go:build verif

package witness

import (
	"testing"
	"time"

	"github.com/lrstanley/girc"
)

func TestC06_CTCPSetBgPanicRecovered(t *testing.T) {
	rec := make(chan struct{}, 1)
	c := girc.New(girc.Config{Server: "irc.test", Port: 6667, Nick: "me", User: "user", RecoverFunc: func(*girc.Client, *girc.HandlerError) { rec <- struct{}{} }})
	c.CTCP.SetBg("C06Q", func(*girc.Client, girc.CTCPEvent) { panic("boom") })
	c.RunHandlers(&girc.Event{Source: &girc.Source{Name: "o", Ident: "u", Host: "h"}, Command: "NOTICE", Params: []string{"me", "\x01C06Q x\x01"}})
	select {
	case <-rec:
	case <-time.After(3 * time.Second):
		t.Fatal("recover function not called")
	}
}
