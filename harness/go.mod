module gircverif

go 1.18

require github.com/lrstanley/girc v0.0.0

replace github.com/lrstanley/girc => /repo
