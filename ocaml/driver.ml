(* Generic line driver for the extracted model.  One case per input line:
     suite TAB hexarg TAB hexarg ...
   One observation per output line (the model's own text, bytes < 32 or > 126 escaped
   so a line break can never be forged). Hand-written, trusted: only converts
   between OCaml strings and the extracted `list N`. *)

let rec pos_of_int (n : int) : Model.positive =
  if n = 1 then Model.XH
  else if n land 1 = 0 then Model.XO (pos_of_int (n lsr 1))
  else Model.XI (pos_of_int (n lsr 1))
let n_of_int (n : int) : Model.n = if n = 0 then Model.N0 else Model.Npos (pos_of_int n)
let rec int_of_pos (p : Model.positive) : int =
  match p with Model.XH -> 1 | Model.XO q -> 2 * int_of_pos q | Model.XI q -> 2 * int_of_pos q + 1
let int_of_n (x : Model.n) : int = match x with Model.N0 -> 0 | Model.Npos p -> int_of_pos p

let str_of_string (s : string) : Model.n list =
  List.init (String.length s) (fun i -> n_of_int (Char.code s.[i]))

let hexval c =
  match c with
  | '0'..'9' -> Char.code c - 48
  | 'a'..'f' -> Char.code c - 87
  | 'A'..'F' -> Char.code c - 55
  | _ -> failwith "bad hex"
let str_of_hex (s : string) : Model.n list =
  let len = String.length s / 2 in
  List.init len (fun i -> n_of_int (16 * hexval s.[2*i] + hexval s.[2*i+1]))

let print_obs (l : Model.n list) : unit =
  let b = Buffer.create 64 in
  List.iter (fun x ->
    let c = int_of_n x in
    if c >= 32 && c <= 126 && c <> 92 then Buffer.add_char b (Char.chr c)
    else Buffer.add_string b (Printf.sprintf "\\x%02x" (c land 255))) l;
  print_string (Buffer.contents b); print_newline ()

let () =
  try
    while true do
      let line = input_line stdin in
      match String.split_on_char '\t' line with
      | [] -> print_endline "?empty"
      | suite :: args ->
        let args = List.filter (fun a -> a <> "-") args in
        let args = List.map (fun a -> if a = "." then [] else str_of_hex a) args in
        (try print_obs (Model.run_suite (str_of_string suite) args)
         with Stack_overflow -> print_endline "?stack-overflow"
            | Failure m -> print_endline ("?failure:" ^ m))
    done
  with End_of_file -> ()
