#!/bin/sh
# Re-extract the model and build the driver. Run from anywhere.
set -e
cd "$(dirname "$0")"
rm -f model.ml model.mli
coqc -R ../coq Girc ../coq/Extract/Extract.v >/dev/null
ocamlfind ocamlopt -O3 -w -a -package str model.mli model.ml driver.ml -o modeldrv 2>/dev/null || \
ocamlfind ocamlopt -w -a model.mli model.ml driver.ml -o modeldrv
