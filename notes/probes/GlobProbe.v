From Coq Require Import List NArith Bool Lia Arith.
Import ListNotations.

Definition str := list N.

Fixpoint prefixb (p s : str) : bool :=
  match p, s with
  | [], _ => true
  | a :: p', b :: s' => N.eqb a b && prefixb p' s'
  | _ :: _, [] => false
  end.

Fixpoint index (sub s : str) : option nat :=
  if prefixb sub s then Some 0
  else match s with [] => None | _ :: r => option_map S (index sub r) end.

Definition suffixb (p s : str) : bool := prefixb (rev p) (rev s).

Fixpoint mid (input : str) (ps : list str) : bool :=
  match ps with
  | [] => false
  | [l] => suffixb l input
  | p :: ps' =>
      match index p input with
      | None => false
      | Some k => mid (skipn (k + length p) input) ps'
      end
  end.

Definition streqb (a b : str) : bool := prefixb a b && Nat.eqb (length a) (length b).

Definition glob_parts (input : str) (parts : list str) : bool :=
  match parts with
  | [] => false
  | [p] => streqb input p
  | p0 :: ps => prefixb p0 input && mid (skipn (length p0) input) ps
  end.

(* Spec *)
Inductive M : str -> list str -> Prop :=
| M1 : forall p, M p [p]
| Mc : forall p g rest ps, ps <> [] -> M rest ps -> M (p ++ g ++ rest) (p :: ps).

Definition NM (s : str) (ps : list str) : Prop := exists g rest, s = g ++ rest /\ M rest ps.

Lemma prefixb_spec p s : prefixb p s = true <-> exists r, s = p ++ r.
Proof.
  revert s; induction p as [|a p IH]; intros s; simpl.
  - split; [intros _; now exists s | reflexivity].
  - destruct s as [|b s].
    + split; [discriminate | intros [r H]; discriminate].
    + rewrite andb_true_iff, N.eqb_eq, IH. split.
      * intros [-> [r ->]]. now exists r.
      * intros [r H]. injection H as -> ->. split; [reflexivity | now exists r].
Qed.

Lemma suffixb_spec p s : suffixb p s = true <-> exists r, s = r ++ p.
Proof.
  unfold suffixb. rewrite prefixb_spec. split.
  - intros [r H]. exists (rev r). apply (f_equal (@rev N)) in H.
    rewrite rev_involutive, rev_app_distr, rev_involutive in H. exact H.
  - intros [r ->]. exists (rev r). now rewrite rev_app_distr.
Qed.

Lemma index_some sub s k : index sub s = Some k ->
  exists a r, s = a ++ sub ++ r /\ length a = k /\
    (forall a' r', s = a' ++ sub ++ r' -> k <= length a').
Proof.
  revert k; induction s as [|b s IH]; intros k; simpl.
  - destruct (prefixb sub []) eqn:E; [|discriminate].
    intros [= <-]. apply prefixb_spec in E as [r E]. exists [], r. simpl.
    repeat split; auto. intros; lia.
  - destruct (prefixb sub (b :: s)) eqn:E.
    + intros [= <-]. apply prefixb_spec in E as [r E]. exists [], r. simpl.
      repeat split; auto. intros; lia.
    + destruct (index sub s) as [k'|] eqn:Ei; [|discriminate]. simpl.
      intros [= <-]. destruct (IH k' eq_refl) as (a & r & -> & Hl & Hmin).
      exists (b :: a), r. simpl. repeat split; [now rewrite Hl|].
      intros a' r' H. destruct a' as [|c a'].
      * exfalso. simpl in H. assert (prefixb sub (b :: a ++ sub ++ r) = true) as X
          by (apply prefixb_spec; now exists r'). congruence.
      * simpl in H. injection H as -> H. simpl. apply Hmin in H. lia.
Qed.

Lemma index_none sub s : index sub s = None -> forall a r, s <> a ++ sub ++ r.
Proof.
  induction s as [|b s IH]; simpl; intros H a r E.
  - destruct (prefixb sub []) eqn:P; [discriminate|].
    destruct a; [|discriminate]. simpl in E.
    assert (prefixb sub [] = true) by (apply prefixb_spec; now exists r). congruence.
  - destruct (prefixb sub (b :: s)) eqn:P; [discriminate|].
    destruct (index sub s) eqn:Ei; [discriminate|].
    destruct a as [|c a].
    + simpl in E. assert (prefixb sub (b :: s) = true) by (apply prefixb_spec; now exists r). congruence.
    + simpl in E. injection E as -> E. eapply IH; eauto.
Qed.

Lemma NM_weaken g s ps : NM s ps -> NM (g ++ s) ps.
Proof. intros (g' & rest & -> & H). exists (g ++ g'), rest. now rewrite app_assoc. Qed.

Lemma skipn_app_len {A} (a b : list A) : skipn (length a) (a ++ b) = b.
Proof. induction a; simpl; auto. Qed.

Lemma mid_spec ps : ps <> [] -> forall input, mid input ps = true <-> NM input ps.
Proof.
  induction ps as [|p ps IH]; [congruence|]. intros _ input.
  destruct ps as [|q ps].
  - simpl. rewrite suffixb_spec. split.
    + intros [r ->]. exists r, p. split; auto. constructor.
    + intros (g & rest & -> & H). inversion H; subst; [now exists g | congruence].
  - assert (q :: ps <> []) as Hne by congruence. specialize (IH Hne).
    change (mid input (p :: q :: ps)) with
      (match index p input with None => false | Some k => mid (skipn (k + length p) input) (q :: ps) end).
    destruct (index p input) as [k|] eqn:Ei.
    + destruct (index_some _ _ _ Ei) as (a & r & -> & Hl & Hmin).
      rewrite IH. subst k.
      replace (skipn (length a + length p) (a ++ p ++ r)) with r.
      2:{ rewrite app_assoc, <- app_length. now rewrite skipn_app_len. }
      split.
      * intros (g & rest & -> & H). exists a, (p ++ g ++ rest). split; auto. now constructor.
      * intros (g & rest & E & H). inversion H; subst; try congruence.
        (* a ++ p ++ r = g ++ p ++ g0 ++ rest0, with |a| <= |g| *)
        match goal with HH : M ?r0 (q :: ps) |- _ => rename r0 into rest0 end.
        pose proof (Hmin g (g0 ++ rest0) E) as Hle.
        (* r has suffix g0 ++ rest0 *)
        assert (exists d, r = d ++ g0 ++ rest0) as [d ->].
        { clear -E Hle. revert g E Hle. induction a as [|x a IHa]; intros g E Hle.
          - simpl in *. (* p ++ r = g ++ p ++ g0 ++ rest0 *)
            exists (skipn (length p) (g ++ p)).
            assert (length (p ++ r) = length (g ++ p ++ g0 ++ rest0)) by now rewrite E.
            rewrite !app_length in H.
            assert (r = skipn (length p) (p ++ r)) as -> by now rewrite skipn_app_len.
            rewrite E. rewrite (app_assoc g p). rewrite skipn_app.
            replace (length p - length (g ++ p)) with 0 by (rewrite app_length; lia).
            simpl. reflexivity.
          - destruct g as [|y g]; simpl in Hle; [lia|].
            simpl in E. injection E as -> E. apply (IHa g E). lia. }
        apply NM_weaken. exists g0, rest0. split; auto.
    + split; [discriminate|]. intros (g & rest & E & H). exfalso.
      inversion H; subst; try congruence. eapply index_none; eauto.
Qed.

Lemma streqb_spec a b : streqb a b = true <-> a = b.
Proof.
  unfold streqb. rewrite andb_true_iff, prefixb_spec, Nat.eqb_eq. split.
  - intros [[r ->] H]. rewrite app_length in H. destruct r; [now rewrite app_nil_r|simpl in H; lia].
  - intros ->. split; [exists []; now rewrite app_nil_r|reflexivity].
Qed.

Theorem glob_parts_exact input parts : glob_parts input parts = true <-> M input parts.
Proof.
  destruct parts as [|p0 ps]; simpl.
  - split; [discriminate|inversion 1].
  - destruct ps as [|q ps].
    + rewrite streqb_spec. split; [intros ->; constructor|inversion 1; subst; auto; congruence].
    + rewrite andb_true_iff, prefixb_spec, mid_spec by congruence. split.
      * intros [[r ->] H]. rewrite skipn_app_len in H. destruct H as (g & rest & -> & H).
        constructor; [congruence|auto].
      * inversion 1; subst. split; [eexists; reflexivity|].
        rewrite skipn_app_len. now exists g, rest.
Qed.
Print Assumptions glob_parts_exact.
