From Coq Require Import List Arith Bool Lia.
Import ListNotations.

(* mutexes and locations are nats; guard : loc -> mutex *)
Inductive mode := Rm | Wm.
Inductive act :=
| Acq (m : nat) (md : mode)
| Rel (m : nat) (md : mode)
| Rd (l : nat)
| Wr (l : nat).

Section M.
Variable guard : nat -> nat.

(* per-thread held set: list of (mutex, mode) *)
Definition held := list (nat * mode).
Definition holdsW (h : held) m := In (m, Wm) h.
Definition holdsAny (h : held) m := In (m, Wm) h \/ In (m, Rm) h.

Fixpoint remove1 (x : nat * mode) (h : held) : held :=
  match h with
  | [] => []
  | y :: r => if (Nat.eqb (fst x) (fst y) && match snd x, snd y with Rm, Rm | Wm, Wm => true | _, _ => false end)
              then r else y :: remove1 x r
  end.

(* discipline of one thread's trace, from a held set *)
Fixpoint ok_trace (h : held) (tr : list act) : Prop :=
  match tr with
  | [] => True
  | Acq m md :: r => ~ holdsAny h m /\ ok_trace ((m, md) :: h) r
  | Rel m md :: r => In (m, md) h /\ ok_trace (remove1 (m, md) h) r
  | Rd l :: r => holdsAny h (guard l) /\ ok_trace h r
  | Wr l :: r => holdsW h (guard l) /\ ok_trace h r
  end.

(* global lock state: function mutex -> owners, as the list of all threads' held sets *)
Record thread := { hs : held; rest : list act }.
Definition state := list thread.

(* a mutex is W-held by thread i *)
Definition wheld (s : state) (i m : nat) := exists t, nth_error s i = Some t /\ holdsW (hs t) m.
Definition anyheld (s : state) (i m : nat) := exists t, nth_error s i = Some t /\ holdsAny (hs t) m.

(* lock-state consistency: writer exclusive *)
Definition consistent (s : state) :=
  forall i j m, i <> j -> wheld s i m -> ~ anyheld s j m.

Definition can_acq (s : state) (i m : nat) (md : mode) :=
  match md with
  | Wm => forall j, j <> i -> ~ anyheld s j m
  | Rm => forall j, j <> i -> ~ wheld s j m
  end.

Fixpoint upd (s : state) (i : nat) (t : thread) : state :=
  match s, i with
  | [], _ => []
  | _ :: r, O => t :: r
  | x :: r, S k => x :: upd r k t
  end.

Inductive step : state -> state -> Prop :=
| S_acq s i t m md r : nth_error s i = Some t -> rest t = Acq m md :: r -> can_acq s i m md ->
    step s (upd s i {| hs := (m, md) :: hs t; rest := r |})
| S_rel s i t m md r : nth_error s i = Some t -> rest t = Rel m md :: r ->
    step s (upd s i {| hs := remove1 (m, md) (hs t); rest := r |})
| S_rd s i t l r : nth_error s i = Some t -> rest t = Rd l :: r ->
    step s (upd s i {| hs := hs t; rest := r |})
| S_wr s i t l r : nth_error s i = Some t -> rest t = Wr l :: r ->
    step s (upd s i {| hs := hs t; rest := r |}).

Definition all_ok (s : state) := forall i t, nth_error s i = Some t -> ok_trace (hs t) (rest t).

Definition race (s : state) :=
  exists i j ti tj l ri rj, i <> j /\ nth_error s i = Some ti /\ nth_error s j = Some tj /\
    rest ti = Wr l :: ri /\ (rest tj = Wr l :: rj \/ rest tj = Rd l :: rj).

Definition Inv s := all_ok s /\ consistent s.

Lemma nth_upd_same s i t t0 : nth_error s i = Some t0 -> nth_error (upd s i t) i = Some t.
Proof. revert i; induction s; destruct i; simpl; try discriminate; auto. Qed.
Lemma nth_upd_other s i j t : i <> j -> nth_error (upd s i t) j = nth_error s j.
Proof. revert i j; induction s as [|x s IH]; intros i j Hij; destruct i, j; simpl; auto; try congruence; try (apply IH; congruence). Qed.

Lemma in_remove1 x y h : In x (remove1 y h) -> In x h.
Proof.
  induction h as [|z h IH]; simpl; auto.
  destruct (_ && _); simpl; intuition.
Qed.

Lemma no_race s : Inv s -> ~ race s.
Proof.
  intros [Hok Hc] (i & j & ti & tj & l & ri & rj & Hij & Hi & Hj & Ei & Ej).
  pose proof (Hok _ _ Hi) as Oi. rewrite Ei in Oi. simpl in Oi. destruct Oi as [Wi _].
  assert (anyheld s j (guard l)) as Aj.
  { exists tj; split; auto. pose proof (Hok _ _ Hj) as Oj.
    destruct Ej as [Ej|Ej]; rewrite Ej in Oj; simpl in Oj; destruct Oj as [X _]; auto.
    now left. }
  eapply Hc; eauto. now exists ti.
Qed.

Lemma all_ok_upd s i t t' : all_ok s -> nth_error s i = Some t ->
  ok_trace (hs t') (rest t') -> all_ok (upd s i t').
Proof.
  intros Hok Hn Ht k tk Hk. destruct (Nat.eq_dec i k) as [<-|Ne].
  - erewrite nth_upd_same in Hk by eauto. now injection Hk as <-.
  - rewrite nth_upd_other in Hk by auto. eauto.
Qed.

Lemma cons_upd_sub s i t t' : consistent s -> nth_error s i = Some t ->
  (forall x, In x (hs t') -> In x (hs t)) -> consistent (upd s i t').
Proof.
  intros Hc Hn Sub a b m0 Hab (ta & Ha & Wa) (tb & Hb & Ab).
  assert (forall k tk, nth_error (upd s i t') k = Some tk ->
            exists tk', nth_error s k = Some tk' /\ (forall x, In x (hs tk) -> In x (hs tk'))) as X.
  { intros k tk Hk. destruct (Nat.eq_dec i k) as [<-|Ne].
    - erewrite nth_upd_same in Hk by eauto. injection Hk as <-. eauto.
    - rewrite nth_upd_other in Hk by auto. eauto. }
  destruct (X _ _ Ha) as (ta' & Ha' & Ea). destruct (X _ _ Hb) as (tb' & Hb' & Eb).
  eapply (Hc a b m0); eauto; [exists ta'|exists tb']; split; auto.
  - now apply Ea.
  - destruct Ab as [Ab|Ab]; [left|right]; now apply Eb.
Qed.

Lemma cons_upd_acq s i t m md r : consistent s -> nth_error s i = Some t -> can_acq s i m md ->
  consistent (upd s i {| hs := (m, md) :: hs t; rest := r |}).
Proof.
  intros Hc Hn Hcan a b m0 Hab (ta & Ha & Wa) (tb & Hb & Ab).
  destruct (Nat.eq_dec i a) as [Eia|Nia]; destruct (Nat.eq_dec i b) as [Eib|Nib];
    try subst a; try subst b; try congruence.
  - erewrite nth_upd_same in Ha by eauto. injection Ha as <-. simpl in Wa.
    rewrite nth_upd_other in Hb by auto.
    destruct Wa as [Wa|Wa].
    + injection Wa as Em Emd; subst m md. simpl in Hcan. eapply (Hcan b); eauto. exists tb; auto.
    + eapply (Hc i b m0); eauto; [exists t; auto|exists tb; auto].
  - rewrite nth_upd_other in Ha by auto. erewrite nth_upd_same in Hb by eauto. injection Hb as <-.
    simpl in Ab. unfold holdsAny in Ab; simpl in Ab.
    assert (wheld s a m0) as WA by (exists ta; auto).
    destruct Ab as [[Ab|Ab]|[Ab|Ab]].
    + injection Ab as Em Emd; subst m md. simpl in Hcan. apply (Hcan a); auto. exists ta; split; auto. now left.
    + eapply (Hc a i m0); eauto. exists t; split; auto. now left.
    + injection Ab as Em Emd; subst m md. simpl in Hcan. apply (Hcan a); auto.
    + eapply (Hc a i m0); eauto. exists t; split; auto. now right.
  - rewrite nth_upd_other in Ha, Hb by auto. eapply (Hc a b m0); eauto; [exists ta|exists tb]; auto.
Qed.

Lemma step_inv s s' : Inv s -> step s s' -> Inv s'.
Proof.
  intros I St.
  destruct St as [s i t m md r Hn Hr Hcan | s i t m md r Hn Hr | s i t l r Hn Hr | s i t l r Hn Hr];
    destruct I as [Hok Hc];
    pose proof (Hok _ _ Hn) as Ot; rewrite Hr in Ot; simpl in Ot; destruct Ot as [O1 O2].
  - split; [eapply all_ok_upd; eauto | eapply cons_upd_acq; eauto].
  - split; [eapply all_ok_upd; eauto | eapply cons_upd_sub; eauto]. simpl. intros x; apply in_remove1.
  - split; [eapply all_ok_upd; eauto | eapply cons_upd_sub; eauto].
  - split; [eapply all_ok_upd; eauto | eapply cons_upd_sub; eauto].
Qed.

Inductive steps : state -> state -> Prop :=
| st0 s : steps s s
| stS s s' s'' : steps s s' -> step s' s'' -> steps s s''.

Definition init_state (traces : list (list act)) : state := map (fun tr => {| hs := []; rest := tr |}) traces.

Lemma steps_inv s0 s : Inv s0 -> steps s0 s -> Inv s.
Proof. intros I Hs; induction Hs as [|s0 s1 s2 H12 IH St]; auto. eapply step_inv; [apply IH; exact I|exact St]. Qed.

Theorem race_free traces s :
  Forall (ok_trace []) traces -> steps (init_state traces) s -> ~ race s.
Proof.
  intros Hall Hs. apply no_race.
  assert (Inv (init_state traces)) as I0.
  { split.
    - intros i t Hi. unfold init_state in Hi. rewrite nth_error_map in Hi.
      destruct (nth_error traces i) eqn:E; [|discriminate]. injection Hi as <-. simpl.
      rewrite Forall_forall in Hall. apply Hall. eapply nth_error_In; eauto.
    - intros i j m _ (t & Hi & W) _. unfold init_state in Hi. rewrite nth_error_map in Hi.
      destruct (nth_error traces i); [|discriminate]. injection Hi as <-. simpl in W. destruct W. }
  eapply steps_inv; eauto.
Qed.
End M.
Print Assumptions race_free.
