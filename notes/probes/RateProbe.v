From Coq Require Import List ZArith Lia Bool.
Import ListNotations.
Open Scope Z_scope.

(* one call to ircConn.rate: state = writeDelay (ns); input = (elapsed since lastWrite, chars) *)
Definition cost (chars : Z) : Z := 1000000000 + chars * 10000000.
Definition rate (wd : Z) (call : Z * Z) : Z * Z :=
  let '(elapsed, chars) := call in
  let wd' := Z.max 0 (wd + cost chars - elapsed) in
  (wd', if 8000000000 <? wd' then cost chars else 0).

Fixpoint run (wd : Z) (calls : list (Z * Z)) : Z * list Z :=
  match calls with
  | [] => (wd, [])
  | c :: cs => let '(wd', d) := rate wd c in let '(w, ds) := run wd' cs in (w, d :: ds)
  end.

Definition sum_cost (cs : list (Z*Z)) := fold_right (fun c a => cost (snd c) + a) 0 cs.
Definition sum_el (cs : list (Z*Z)) := fold_right (fun c a => fst c + a) 0 cs.

Lemma rate_delay wd c : snd (rate wd c) = 0 \/ snd (rate wd c) = cost (snd c).
Proof. destruct c as [e ch]; simpl. destruct (_ <? _); auto. Qed.

Lemma run_lower wd cs : 0 <= wd -> wd + sum_cost cs - sum_el cs <= fst (run wd cs).
Proof.
  revert wd; induction cs as [|[e ch] cs IH]; intros wd Hwd; simpl.
  - lia.
  - destruct (run (Z.max 0 (wd + cost ch - e)) cs) as [w ds] eqn:E. simpl.
    specialize (IH (Z.max 0 (wd + cost ch - e)) ltac:(lia)). rewrite E in IH. simpl in IH. lia.
Qed.

(* whenever the last call of a sequence is NOT delayed, total cost so far <= 8s + credited time *)
Theorem bucket cs e ch wd :
  0 <= wd ->
  snd (rate (fst (run wd cs)) (e, ch)) = 0 -> 0 <= ch ->
  wd + sum_cost cs + cost ch <= 8000000000 + sum_el cs + e.
Proof.
  intros Hwd H Hch. pose proof (run_lower wd cs Hwd) as L.
  simpl in H. destruct (8000000000 <? _) eqn:T.
  - unfold cost in H. lia.
  - apply Z.ltb_ge in T. lia.
Qed.
Print Assumptions bucket.
