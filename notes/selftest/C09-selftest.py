#!/usr/bin/env python3
"""Self-test for C09: apply each mutation to a copy of /repo, run girc's own tests and
bin/check C09 against the copy, record the outcome.  Usage: selftest.py [slug ...]"""
import os, shutil, subprocess, sys, re

WT = "/var/tmp/wt/sasl"
SCR = "/var/tmp/sasl-scratch"
MUT = SCR + "/repo-mut"
ENV = dict(os.environ, GOFLAGS="-mod=mod", GOPROXY="off", GOSUMDB="off", GOTOOLCHAIN="local")

M = [
 # slug, file, old, new, kind
 ("chunk-399", "cap_sasl.go",
  "Params: []string{auth[0:saslChunkSize]}, Sensitive: true})\n\t\t\tauth = auth[saslChunkSize:]",
  "Params: []string{auth[0 : saslChunkSize-1]}, Sensitive: true})\n\t\t\tauth = auth[saslChunkSize:]", "break"),
 ("missing-plus", "cap_sasl.go",
  "if len(auth) == 400 {", "if len(auth) == 399 {", "break"),
 ("ge-boundary", "cap_sasl.go",
  "if len(auth) > saslChunkSize {", "if len(auth) >= saslChunkSize {", "break"),
 ("capend-on-904", "cap_sasl.go",
  "\tc.receive(&Event{Command: ERROR, Params: []string{\"closing connection: \" + e.Last()}})\n}",
  "\tif e.Command == ERR_SASLFAIL {\n\t\tc.write(&Event{Command: CAP, Params: []string{CAP_END}})\n\t\treturn\n\t}\n\tc.receive(&Event{Command: ERROR, Params: []string{\"closing connection: \" + e.Last()}})\n}", "break"),
 ("giveup-ignored", "cap_sasl.go",
  "\tif auth == \"\" {", "\tif auth == \"\" && len(e.Params) == 0 {", "break"),
 ("pass-not-sensitive", "conn.go",
  "c.write(&Event{Command: PASS, Params: []string{c.Config.ServerPass}, Sensitive: true})",
  "c.write(&Event{Command: PASS, Params: []string{c.Config.ServerPass}})", "break"),
 ("webirc-not-sensitive", "conn.go",
  "c.write(&Event{Command: WEBIRC, Params: c.Config.WebIRC.Params(), Sensitive: true})",
  "c.write(&Event{Command: WEBIRC, Params: c.Config.WebIRC.Params()})", "break"),
 ("oper-not-sensitive", "commands.go",
  "cmd.c.Send(&Event{Command: OPER, Params: []string{user, pass}, Sensitive: true})",
  "cmd.c.Send(&Event{Command: OPER, Params: []string{user, pass}})", "break"),
 ("last-chunk-not-sensitive", "cap_sasl.go",
  "c.write(&Event{Command: AUTHENTICATE, Params: []string{auth}, Sensitive: true})",
  "c.write(&Event{Command: AUTHENTICATE, Params: []string{auth}})", "break"),
 ("debuglog-ignores-sensitive", "client.go",
  "\tif e.Sensitive {\n\t\tc.debug.Printf(prefix, \" %s ***redacted***\", e.Command)",
  "\tif e.Sensitive && dropped {\n\t\tc.debug.Printf(prefix, \" %s ***redacted***\", e.Command)", "break"),
 ("pretty-ignores-sensitive", "event.go",
  "\tif e.Sensitive || e.Echo {\n\t\treturn \"\", false\n\t}\n\n\tif e.Command == ERROR {",
  "\tif e.Echo {\n\t\treturn \"\", false\n\t}\n\n\tif e.Command == ERROR {", "break"),
 ("register-907", "builtin.go",
  "\t\tc.Handlers.register(true, false, RPL_SASLSUCCESS, HandlerFunc(handleSASL))\n",
  "\t\tc.Handlers.register(true, false, RPL_SASLSUCCESS, HandlerFunc(handleSASL))\n\t\tc.Handlers.register(true, false, ERR_SASLALREADY, HandlerFunc(handleSASL))\n", "break"),
 ("plain-authzid-dropped", "cap_sasl.go",
  "\tin := []byte(sasl.User)\n\n\tin = append(in, 0x0)", "\tin := []byte{}\n\n\tin = append(in, 0x0)", "break"),
 ("ack-capend-and-auth", "cap.go",
  "\t\t\t// Don't \"CAP END\", since we want to authenticate.\n\t\t\treturn\n",
  "\t\t\t// Don't \"CAP END\", since we want to authenticate.\n", "break"),
 ("local-error-not-fatal", "client.go",
  "\t\t\tif event != nil && event.Command == ERROR {",
  "\t\t\tif event != nil && event.Command == ERROR && event.Source != nil {", "break"),
 ("encode-called-twice", "cap_sasl.go",
  "\tauth := c.Config.SASL.Encode(e.Params)\n",
  "\tif c.Config.SASL.Encode(e.Params) == \"\" {\n\t\tc.debug.Print(\"sasl mechanism declined\")\n\t}\n\tauth := c.Config.SASL.Encode(e.Params)\n", "break"),
 # behaviour-preserving rewrites: no alarm expected
 ("harmless-loop-rewrite", "cap_sasl.go",
  "\tfor {\n\t\tif len(auth) > saslChunkSize {\n\t\t\tc.write(&Event{Command: AUTHENTICATE, Params: []string{auth[0:saslChunkSize]}, Sensitive: true})\n\t\t\tauth = auth[saslChunkSize:]\n\t\t\tcontinue\n\t\t}\n\n\t\tif len(auth) <= saslChunkSize {\n\t\t\tc.write(&Event{Command: AUTHENTICATE, Params: []string{auth}, Sensitive: true})\n\n\t\t\tif len(auth) == 400 {\n\t\t\t\tc.write(&Event{Command: AUTHENTICATE, Params: []string{\"+\"}})\n\t\t\t}\n\t\t\tbreak\n\t\t}\n\t}\n",
  "\tfor len(auth) > saslChunkSize {\n\t\tc.write(&Event{Command: AUTHENTICATE, Params: []string{auth[:saslChunkSize]}, Sensitive: true})\n\t\tauth = auth[saslChunkSize:]\n\t}\n\tc.write(&Event{Command: AUTHENTICATE, Params: []string{auth}, Sensitive: true})\n\tif len(auth) == saslChunkSize {\n\t\tc.write(&Event{Command: AUTHENTICATE, Params: []string{\"+\"}})\n\t}\n", "harmless"),
 ("harmless-plain-rewrite", "cap_sasl.go",
  "\tin := []byte(sasl.User)\n\n\tin = append(in, 0x0)\n\tin = append(in, []byte(sasl.User)...)\n\tin = append(in, 0x0)\n\tin = append(in, []byte(sasl.Pass)...)\n\n\treturn base64.StdEncoding.EncodeToString(in)",
  "\treturn base64.StdEncoding.EncodeToString([]byte(sasl.User + \"\\x00\" + sasl.User + \"\\x00\" + sasl.Pass))", "harmless"),
 ("harmless-plus-sensitive", "cap_sasl.go",
  "c.write(&Event{Command: AUTHENTICATE, Params: []string{\"+\"}})",
  "c.write(&Event{Command: AUTHENTICATE, Params: []string{\"+\"}, Sensitive: false})", "harmless"),
]

def sh(cmd, cwd=None, timeout=1800):
    p = subprocess.run(cmd, cwd=cwd, env=ENV, shell=True, stdout=subprocess.PIPE, stderr=subprocess.STDOUT, timeout=timeout)
    return p.returncode, p.stdout.decode("utf-8", "replace")

def set_replace(target):
    p = WT + "/harness/go.mod"
    s = open(p).read()
    s = re.sub(r"replace github.com/lrstanley/girc => \S+", "replace github.com/lrstanley/girc => " + target, s)
    open(p, "w").write(s)

def main():
    want = sys.argv[1:]
    os.makedirs(WT + "/notes/selftest", exist_ok=True)
    results = []
    try:
        for slug, fn, old, new, kind in M:
            if want and slug not in want:
                continue
            shutil.rmtree(MUT, ignore_errors=True)
            shutil.copytree("/repo", MUT, symlinks=True)
            src = open(MUT + "/" + fn).read()
            if src.count(old) != 1:
                results.append((slug, kind, "PATTERN-NOT-FOUND(%d)" % src.count(old), "", ""))
                continue
            open(MUT + "/" + fn, "w").write(src.replace(old, new))
            rc, out = sh("gofmt -l %s" % fn, cwd=MUT)
            fmt = out.strip()
            rc, diff = sh("diff -u /repo/%s %s/%s" % (fn, MUT, fn))
            diff = diff.replace(MUT + "/", "b/").replace("/repo/", "a/")
            rc, tout = sh("go vet . >/dev/null 2>&1; go test -count=1 . 2>&1 | tail -3", cwd=MUT, timeout=900)
            girc_ok = "ok" in tout and "FAIL" not in tout
            set_replace(MUT)
            rc, cout = sh("bin/check C09", cwd=WT, timeout=1800)
            set_replace("/repo")
            summ = [l for l in cout.splitlines() if l.startswith("C09 tier=")]
            viol = [l for l in cout.splitlines() if l.startswith("VIOLATION")]
            classes = []
            for v in viol:
                m = re.search(r"replay=(\S+)", v)
                if m and os.path.exists(m.group(1)):
                    import json
                    try:
                        j = json.load(open(m.group(1)))
                        classes.append("%s/%s%s" % (j.get("suite", "?"), j.get("cls", j.get("kind", "?")),
                                                      " NO-INPUT" if "no-failing-input-found" in v else ""))
                    except Exception as ex:
                        classes.append("?")
            results.append((slug, kind, "exit=%d" % rc, "girc-tests=%s gofmt=%s" % ("pass" if girc_ok else "FAIL:" + tout[-200:], "clean" if not fmt else "DIRTY"),
                            "; ".join(classes) + " || " + (summ[0] if summ else cout[-300:])))
            open(WT + "/notes/selftest/C09-%s.diff" % slug, "w").write(diff)
            print(results[-1], flush=True)
    finally:
        set_replace("/repo")
        shutil.rmtree(MUT, ignore_errors=True)
    print("\n==== table")
    for r in results:
        print(" | ".join(r))

main()
