#!/bin/sh
# usage: run.sh <mutation> : apply, run girc's own tests, run bin/check C07 against the mutant
set -e
export GOFLAGS=-mod=mod GOPROXY=off GOSUMDB=off GOTOOLCHAIN=local
cd /var/tmp/lifecycle-scratch/mut
python3 muts.py "$1"
(cd /var/tmp/lifecycle-scratch/repo-mut && gofmt -l . ; go build ./... && go test -count=1 . 2>&1 | tail -3) || true
cd /var/tmp/wt/lifecycle
sed -i 's#=> /repo$#=> /var/tmp/lifecycle-scratch/repo-mut#' harness/go.mod
VERIF_SEED=${2:-1} timeout 1500 bin/check C07 > /var/tmp/lifecycle-scratch/mut/$1.out 2>&1 || true
sed -i 's#=> /var/tmp/lifecycle-scratch/repo-mut#=> /repo#' harness/go.mod
tail -4 /var/tmp/lifecycle-scratch/mut/$1.out | cut -c1-400
