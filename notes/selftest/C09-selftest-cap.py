import os,subprocess,shutil,re,json,sys
WT="/var/tmp/wt/sasl"; SCR="/var/tmp/sasl-scratch"
M=[("ls-continuation-treated-final","cap.go","\t\tif len(e.Params) == 3 {\n\t\t\t// If we support no caps, just ack the CAP message and END.","\t\tif len(e.Params) >= 3 {\n\t\t\t// If we support no caps, just ack the CAP message and END.","break"),
   ("harmless-ack-condition-rewrite","cap.go","\t\tif _, ok := c.state.enabledCap[\"sasl\"]; ok && c.Config.SASL != nil {\n\t\t\tc.write(&Event{Command: AUTHENTICATE","\t\t_, saslOn := c.state.enabledCap[\"sasl\"]\n\t\tif c.Config.SASL != nil && saslOn {\n\t\t\tc.write(&Event{Command: AUTHENTICATE","harmless")]
for slug,fn,old,new,kind in M:
    d=SCR+"/mut"; shutil.rmtree(d,ignore_errors=True); shutil.copytree("/repo",d,symlinks=True)
    s=open(d+"/"+fn).read(); assert s.count(old)==1,(slug,s.count(old)); open(d+"/"+fn,"w").write(s.replace(old,new))
    t=subprocess.run("go build ./... && go test -count=1 . 2>&1 | tail -1",cwd=d,shell=True,stdout=subprocess.PIPE,stderr=subprocess.STDOUT).stdout.decode().strip()
    diff=subprocess.run("diff -u /repo/%s %s/%s"%(fn,d,fn),shell=True,stdout=subprocess.PIPE).stdout.decode().replace(d+"/","b/").replace("/repo/","a/")
    r=subprocess.run([WT+"/bin/check","C09"],cwd=WT,env=dict(os.environ,VERIF_REPO=d),stdout=subprocess.PIPE,stderr=subprocess.STDOUT).stdout.decode()
    v=[l for l in r.splitlines() if l.startswith("VIOLATION") or l.startswith("C09 tier")]
    cls=[]
    for l in v:
        m=re.search(r"replay=(\S+)",l)
        if m and os.path.exists(m.group(1)):
            j=json.load(open(m.group(1))); cls.append("%s/%s"%(j.get("suite","?"),j.get("cls",j.get("kind"))))
    head=("# breaking edit; bin/check C09 exits 1 with a concrete replay: %s (girc tests still pass)\n"%"; ".join(cls)) if kind=="break" else "# behaviour-preserving rewrite; bin/check C09 stays green (no alarm)\n"
    open(WT+"/notes/selftest/C09-%s.diff"%slug,"w").write(head+diff)
    print(slug,kind,"girc:",t,"|",cls,"|",v[:1])
    shutil.rmtree(d,ignore_errors=True)
