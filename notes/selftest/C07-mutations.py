MUTS = {
 "quit-does-not-close": ("conn.go", "\t\t\tif event.Command == QUIT {\n\t\t\t\tc.Close()\n\t\t\t\treturn nil\n\t\t\t}\n", "\t\t\tif event.Command == QUIT {\n\t\t\t\treturn nil\n\t\t\t}\n"),
 "receive-drops-when-full": ("client.go", "\tselect {\n\tcase c.rx <- e:\n\tcase <-t.C:\n\t\tc.debugLogEvent(e, true)\n\t}", "\tselect {\n\tcase c.rx <- e:\n\tdefault:\n\t\tc.debugLogEvent(e, true)\n\t}"),
 "group-no-cancel-on-error": ("internal/ctxgroup/ctxgroup.go", "\t\t\t\tg.err = err\n\t\t\t\tif g.cancel != nil {\n\t\t\t\t\tg.cancel()\n\t\t\t\t}\n", "\t\t\t\tg.err = err\n"),
 "no-drain-queues": ("conn.go", "\tc.drainQueues()\n\n\taddr := c.server()", "\n\taddr := c.server()"),
 "error-returned-before-handlers": ("client.go",
   "\t\tcase event = <-c.rx:\n\t\t\tc.RunHandlers(event)\n\n\t\t\tif event != nil && event.Command == ERROR {",
   "\t\tcase event = <-c.rx:\n\t\t\tif event == nil || event.Command != ERROR {\n\t\t\t\tc.RunHandlers(event)\n\t\t\t}\n\n\t\t\tif event != nil && event.Command == ERROR {"),
 "closed-always": ("conn.go",
   "\t} else {\n\t\tif !c.state.sts.beginUpgrade {\n\t\t\tc.debug.Print(\"received request to close, beginning clean up\")\n\t\t}\n\n\t\tc.RunHandlers(&Event{Command: CLOSED, Params: []string{addr}})\n\t}",
   "\t} else if !c.state.sts.beginUpgrade {\n\t\tc.debug.Print(\"received request to close, beginning clean up\")\n\t}\n\n\tc.RunHandlers(&Event{Command: CLOSED, Params: []string{addr}})"),
 "socket-not-closed": ("conn.go", "\tc.conn.connected = false\n\t_ = c.conn.Close()\n", "\tc.conn.connected = false\n"),
 "readloop-returns-ctx-err": ("conn.go",
   "\t\t\tselect {\n\t\t\tcase <-ctx.Done():\n\t\t\t\treturn nil\n\t\t\tcase de = <-c.conn.decode():",
   "\t\t\tselect {\n\t\t\tcase <-ctx.Done():\n\t\t\t\treturn ctx.Err()\n\t\t\tcase de = <-c.conn.decode():"),
 "no-drain-on-cancel": ("client.go",
   "\t\t\tfor {\n\t\t\t\tselect {\n\t\t\t\tcase event = <-c.rx:\n\t\t\t\t\tc.RunHandlers(event)\n\t\t\t\tdefault:\n\t\t\t\t\tgoto done\n\t\t\t\t}\n\t\t\t}\n\n\t\tdone:\n\t\t\treturn nil",
   "\t\t\treturn nil"),
 "state-not-reset": ("conn.go", "\tc.state.reset(false)\n", "\tif c.state.channels == nil {\n\t\tc.state.reset(false)\n\t}\n"),
 "quit-write-error-returned": ("conn.go",
   "\t\t\tif event.Command == QUIT {\n\t\t\t\tc.Close()\n\t\t\t\treturn nil\n\t\t\t}\n\n\t\t\tif err != nil {\n\t\t\t\treturn err\n\t\t\t}",
   "\t\t\tif err != nil {\n\t\t\t\treturn err\n\t\t\t}\n\n\t\t\tif event.Command == QUIT {\n\t\t\t\tc.Close()\n\t\t\t\treturn nil\n\t\t\t}"),
 "conn-not-cleared-on-error": ("conn.go", "\tc.mu.Lock()\n\tc.conn = nil\n\n\tif c.state.sts.beginUpgrade {", "\tc.mu.Lock()\n\tif err == nil {\n\t\tc.conn = nil\n\t}\n\n\tif c.state.sts.beginUpgrade {"),
 "harmless-drain-rewrite": ("conn.go",
   "\tfor {\n\t\tselect {\n\t\tcase <-c.rx:\n\t\tcase <-c.tx:\n\t\tdefault:\n\t\t\treturn\n\t\t}\n\t}\n",
   "\tfor len(c.rx) > 0 {\n\t\t<-c.rx\n\t}\n\tfor len(c.tx) > 0 {\n\t\t<-c.tx\n\t}\n"),
 "harmless-execloop-len": ("client.go",
   "\t\t\tfor {\n\t\t\t\tselect {\n\t\t\t\tcase event = <-c.rx:\n\t\t\t\t\tc.RunHandlers(event)\n\t\t\t\tdefault:\n\t\t\t\t\tgoto done\n\t\t\t\t}\n\t\t\t}\n\n\t\tdone:\n\t\t\treturn nil",
   "\t\t\tfor len(c.rx) > 0 {\n\t\t\t\tc.RunHandlers(<-c.rx)\n\t\t\t}\n\t\t\treturn nil"),
}
import sys, os, subprocess, shutil
name = sys.argv[1]
f, old, new = MUTS[name]
dst = "/var/tmp/lifecycle-scratch/repo-mut"
shutil.rmtree(dst, ignore_errors=True)
subprocess.run(["cp", "-r", "/repo", dst], check=True)
shutil.rmtree(dst + "/.git", ignore_errors=True)
p = os.path.join(dst, f)
s = open(p).read()
assert s.count(old) == 1, (name, s.count(old))
open(p, "w").write(s.replace(old, new))
d = subprocess.run(["diff", "-u", "/repo/" + f, p], capture_output=True, text=True).stdout
d = d.replace("/repo/" + f, "a/" + f, 1).replace(p, "b/" + f, 1)
open("/var/tmp/lifecycle-scratch/mut/%s.diff" % name, "w").write(d)
print("mutated", name)
